#!/usr/bin/env python3
# validate MANIFEST.json and evidence files against the schemas (uses the tooling venv's jsonschema)
import json, sys, glob
import jsonschema
m = json.load(open('/verif/MANIFEST.json'))
jsonschema.validate(m, json.load(open('/root/.vp/MANIFEST.schema.json')))
print('MANIFEST ok: %d checks, %d not_applicable' % (len(m['checks']), len(m.get('not_applicable', []))))
s = json.load(open('/root/.vp/EVIDENCE.schema.json'))
for p in sorted(glob.glob('/verif/evidence/*.json')):
    jsonschema.validate(json.load(open(p)), s)
    print('evidence ok', p)

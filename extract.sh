#!/bin/bash
# usage: extract.sh <repo> <outdir> [extra cargo args]   — runs the fact driver over a workspace
set -e
REPO=$1; OUT=$2; shift 2
T=$(mktemp -d /tmp/rsbdd-facts-target.XXXXXX)
trap 'rm -rf "$T"' EXIT
mkdir -p "$OUT"
SYSROOT=$(rustc +nightly --print sysroot)
cd "$REPO"
env CARGO_NET_OFFLINE=true LD_LIBRARY_PATH=$SYSROOT/lib RUSTFLAGS="-Zmir-opt-level=0 -Awarnings" \
  RUSTC_WORKSPACE_WRAPPER=/verif/driver/target/release/rsbdd-facts RSBDD_FACTS_DIR="$OUT" \
  CARGO_TARGET_DIR="$T" cargo +nightly check --offline --workspace "$@" >"$OUT/cargo.log" 2>&1 || { tail -40 "$OUT/cargo.log"; exit 2; }

#!/bin/bash
# Build the fact-extraction driver (nightly, rustc_private, zero cargo dependencies), offline.
set -e
cd "$(dirname "$0")/driver"
CARGO_NET_OFFLINE=true cargo +nightly build --release --offline

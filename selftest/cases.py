"""Self-test corpus of the checker: each case edits a scratch copy of /repo by exact string replacement.
kind 'fire'  : the listed checks must report a violation whose key/message contains the given substring
kind 'silent': behaviour-preserving refactor; the listed checks must stay silent (exit 0)"""

B = 'src/bdd.rs'; P = 'src/parser.rs'; M = 'src/bin/rsbdd.rs'; S = 'src/set.rs'; IO = 'src/bdd_io.rs'; PIO = 'src/parser_io.rs'
Q = 'n_queens_gen/src/main.rs'; C = 'max_clique_gen/src/main.rs'; G = 'random_graph_gen/src/main.rs'

CASES = [
 # ---------------------------------------------------------------- must fire
 dict(id='and-le', kind='fire', file=B, old='if va < vb => self.mk_choice(\n                self.and(', new='if va <= vb => self.mk_choice(\n                self.and(', expect={'C02': 'O: mk_choice', 'C03': 'O: mk_choice'}),
 dict(id='and-swap-children', kind='fire', file=B, old='self.and(Rc::clone(af), Rc::clone(&b)),', new='self.and(Rc::clone(at), Rc::clone(&b)),', expect={'C03': 'BDDEnv::and / S'}),
 dict(id='or-false-arm', kind='fire', file=B, old='(BDD::False, _) => Rc::clone(&b),', new='(BDD::False, _) => Rc::clone(&a),', expect={'C03': 'BDDEnv::or / S'}),
 dict(id='xor-conj', kind='fire', file=B, old='self.and(a, self.not(b)),', new='self.and(a, b),', expect={'C03': 'BDDEnv::xor / S'}),
 dict(id='mk_choice-no-simplify', kind='fire', file=B, old='let ins = self.simplify(&Rc::new(BDD::Choice(true_subtree, symbol, false_subtree)));', new='let ins = Rc::new(BDD::Choice(true_subtree, symbol, false_subtree));', expect={'C02': 'E2', 'C13': 'E2'}),
 dict(id='nodes-clear', kind='fire', file=B, old='            BDD::False => self.mk_const(true),\n            BDD::True => self.mk_const(false),', new='            BDD::False => { self.nodes.borrow_mut().clear(); self.nodes.borrow_mut().insert(BDD::True, Rc::new(BDD::True)); self.nodes.borrow_mut().insert(BDD::False, Rc::new(BDD::False)); self.mk_const(true) }\n            BDD::True => self.mk_const(false),', expect={'C13': 'E3'}),
 dict(id='exists-impl-and', kind='fire', file=B, old='if v == s => self.or(Rc::clone(t), Rc::clone(f)),', new='if v == s => self.and(Rc::clone(t), Rc::clone(f)),', expect={'C04': 'exists_impl / S'}),
 dict(id='all-no-inner-not', kind='fire', file=B, old='self.not(self.exists(s, self.not(b)))', new='self.not(self.exists(s, b))', expect={'C04': 'BDDEnv::all / S'}),
 dict(id='exists-drop-rest', kind='fire', file=B, old='self.exists_impl(first, self.exists(remainder, b))', new='self.exists_impl(first, b)', expect={'C04': 'BDDEnv::exists / S'}),
 dict(id='cmp_count-n', kind='fire', file=B, old='self.cmp_count(&remainder, n - 1, cmp),', new='self.cmp_count(&remainder, n, cmp),', expect={'C05': 'cmp_count / S'}),
 dict(id='amn-strict', kind='fire', file=B, old='self.cmp_count(branches, n, |n| n >= 0)', new='self.cmp_count(branches, n, |n| n > 0)', expect={'C05': 'BDDEnv::amn / S'}),
 dict(id='count_lt-offset', kind='fire', file=B, old='self.count_leq_recursive(a, b, 1)', new='self.count_leq_recursive(a, b, 0)', expect={'C05': 'count_lt / S'}),
 dict(id='eval-lessthan', kind='fire', file=P, old='self.env.amn(&branches, n.saturating_sub(1))', new='self.env.amn(&branches, n)', expect={'C05': 'LessThan', 'C01': 'LessThan'}),
 dict(id='eval-impliesinv', kind='fire', file=P, old='BinaryOperator::ImpliesInv => self.env.implies(r, l),', new='BinaryOperator::ImpliesInv => self.env.implies(l, r),', expect={'C01': 'ImpliesInv'}),
 dict(id='tok-plus-and', kind='fire', file=P, old='"|" | "+" => result.push(SymbolicBDDToken::Or),', new='"|" => result.push(SymbolicBDDToken::Or),\n                    "+" => result.push(SymbolicBDDToken::And),', expect={'C01': "symbol '+'", 'C08': "symbol '+'"}),
 dict(id='gfp-from-false', kind='fire', file=P, old='Some(SymbolicBDDToken::GFP) => Self::parse_fixed_point(tokens, true),', new='Some(SymbolicBDDToken::GFP) => Self::parse_fixed_point(tokens, false),', expect={'C06': 'GFP'}),
 dict(id='fp-neq', kind='fire', file=B, old='if snew == s {', new='if snew != s {', expect={'C06': 'FP'}),
 dict(id='replace_var-shadow', kind='fire', file=P, old='                if v.contains(var) {\n                    formula.clone()', new='                if !v.contains(var) {\n                    formula.clone()', expect={'C06': 'replace_var'}),
 dict(id='model-neg-literal', kind='fire', file=B, old='self.and(lhs, self.var(v.clone()))', new='self.and(lhs, self.not(self.var(v.clone())))', expect={'C07': 'BDDEnv::model / S'}),
 dict(id='infer-swap', kind='fire', file=B, old='BDD::True => (true, true),\n            BDD::False => (true, false),', new='BDD::True => (true, false),\n            BDD::False => (true, true),', expect={'C07': 'infer'}),
 dict(id='sub-right-simple', kind='fire', file=P, old='let right = Self::parse_sub_formula(tokens)?;', new='let right = Self::parse_simple_sub_formula(tokens)?;', expect={'C08': 'A2'}),
 dict(id='ite-swap', kind='fire', file=P, old='Ok(Self::Ite(Box::new(cond), Box::new(then), Box::new(else_)))', new='Ok(Self::Ite(Box::new(cond), Box::new(else_), Box::new(then)))', expect={'C08': 'A3 / Ite'}),
 dict(id='list-no-trailing-comma', kind='fire', file=P, old='                    // otherwise expect a comma\n                    expect(SymbolicBDDToken::Comma, tokens)?;\n                }\n            } else {\n                break;\n            }\n        }\n\n        expect(SymbolicBDDToken::CloseSquare, tokens)?;', new='                    // otherwise expect a comma\n                    expect(SymbolicBDDToken::Comma, tokens)?;\n                    subforms.push(Self::parse_sub_formula(tokens)?);\n                }\n            } else {\n                break;\n            }\n        }\n\n        expect(SymbolicBDDToken::CloseSquare, tokens)?;', expect={'C08': 'A2'}),
 dict(id='parse-ok-swallow', kind='fire', file=P, old='        let sf = Self::parse_simple_sub_formula(tokens)?;\n\n        Ok(Self::Not(Box::new(sf)))', new='        let sf = Self::parse_simple_sub_formula(tokens).ok();\n\n        match sf { Some(sf) => Ok(Self::Not(Box::new(sf))), None => Ok(Self::Not(Box::new(Self::parse_sub_formula(tokens)?))) }', expect={'C08': 'A1'}),
 dict(id='regex-order', kind='fire', file=P, old='-|<=>|<=|', new='-|<=|<=>|', expect={'C08': "'<=' before '<=>'"}),
 dict(id='var_is_free-fp', kind='fire', file=P, old='SymbolicBDD::FixedPoint(v, _, f) => v != var && self.var_is_free(f, var),', new='SymbolicBDD::FixedPoint(_v, _, f) => self.var_is_free(f, var),', expect={'C09': 'var_is_free'}),
 dict(id='printer-polarity', kind='fire', file=M, old='            let mut r_vars = vars.clone();\n            r_vars[parsed.to_free_index(s)] = TruthTableEntry::False;', new='            let mut r_vars = vars.clone();\n            r_vars[parsed.to_free_index(s)] = TruthTableEntry::True;', expect={'C10': 'X1'}),
 dict(id='printer-filter', kind='fire', file=M, old='(filter == TruthTableEntry::True && *c == BDD::True)', new='(filter == TruthTableEntry::True && *c != BDD::True)', expect={'C10': 'X2'}),
 dict(id='raw2free-again', kind='fire', file=P, old='        self.free_vars\n            .binary_search_by(|v| v.id.cmp(&ns.id))\n            .unwrap_or_else(|_| panic!("{} is not a free variable", ns))', new='        self.raw2free[ns.id].unwrap_or_else(|| panic!("{} is not a free variable", ns))', expect={'C10': 'X3', 'C11': 'X3', 'C12': 'to_free_index'}),
 dict(id='counter-not-raised', kind='fire', file=P, old='var_id_counter = var.id + 1;', new='var_id_counter = var.id;', expect={'C11': 'X5'}),
 dict(id='tokenize-unwrap', kind='fire', file=P, old='} else if c.name("eof").is_some() {', new='} else if c.name("eof").map(|m| m.as_str().chars().next().unwrap()).is_some() {', expect={'C12': 'unwrap'}),
 dict(id='cmp_count-no-guard', kind='fire', file=B, old='        if branches.is_empty() {\n            self.mk_const(cmp(n))\n        } else {', new='        if n == i64::MIN {\n            self.mk_const(cmp(n))\n        } else {', expect={'C12': 'cmp_count', 'C05': 'cmp_count'}),
 dict(id='number-expect-again', kind='fire', file=P, old='.parse().map_err(|e| {\n                    io::Error::new(\n                        io::ErrorKind::InvalidData,\n                        format!("Failed to parse number {}: {}", number.as_str(), e),\n                    )\n                })?;', new='.parse().expect("Failed to parse number");', expect={'C12': 'tokenize / call / expect'}),
 dict(id='cast-again', kind='fire', file=P, old='let n = i64::try_from(*n).unwrap_or(i64::MAX);', new='let n = *n as i64;', expect={'C05': 'CAST', 'C01': 'CAST'}),
 dict(id='edge-label-swap', kind='fire', file=IO, old='dot::LabelText::LabelStr(Cow::Borrowed("T"))\n        } else {\n            dot::LabelText::LabelStr(Cow::Borrowed("F"))', new='dot::LabelText::LabelStr(Cow::Borrowed("F"))\n        } else {\n            dot::LabelText::LabelStr(Cow::Borrowed("T"))', expect={'C14': 'edge_label'}),
 dict(id='edges-skip-else', kind='fire', file=PIO, old='                    edges.push((\n                        i,\n                        "Else".to_string(),\n                        self.nodes\n                            .iter()\n                            .position(|n| n == e.as_ref())\n                            .expect("cannot find position"),\n                    ));', new='                    let _ = e;', expect={'C14': 'X6 / Ite'}),
 dict(id='queens-u16', kind='fire', file=Q, old='let n = usize::from(args.queens);', new='let n = args.queens;', expect={'C15': 'L-W'}),
 dict(id='clique-guard', kind='fire', file=C, old='                        || edges.contains(&(v2.to_string(), v1.to_string()))\n', new='', expect={'C16': 'complement-edge'}),
 dict(id='graph-truncate', kind='fire', file=G, old='    if let Some(edges) = edges.get(0..num_edges) {\n        Ok(edges.to_vec())\n    } else {', new='    if num_edges <= edges.len() || !undirected {\n        Ok(edges.iter().take(num_edges).cloned().collect())\n    } else {', expect={'C18': 'refuse'}),
 dict(id='graph-self-pair', kind='fire', file=G, old='vertices.get((i + 1)..)', new='vertices.get(i..)', expect={'C18': 'undirected'}),
 dict(id='contains-intersect', kind='fire', file=S, old='        let element = singleton.bdd.borrow().clone();\n        let common = self\n            .env\n            .and(self.bdd.borrow().clone(), Rc::clone(&element));\n        common == element', new='        self.intersect(&singleton) == &singleton', expect={'C19': 'E7'}),
 dict(id='complement-no-not', kind='fire', file=S, old='.replace(self.env.and(new, self.env.not(_other)));', new='.replace(self.env.and(new, _other));', expect={'C19': 'complement'}),
 dict(id='union-borrow-across', kind='fire', file=S, old='        let _other = other.bdd.borrow().clone();\n        self.bdd.replace(self.env.or(_self, _other));', new='        self.bdd\n            .replace(self.env.or(_self, other.bdd.borrow().clone()));', expect={'C19': 'G1'}),
 dict(id='retain-eq', kind='fire', file=B, old='if left.is_true() != filter.is_true() {', new='if left.is_true() == filter.is_true() {', expect={'C20': 'retain'}),
 # ---------------------------------------------------------------- must stay silent
 dict(id='rc-clone-method', kind='silent', file=B, old='(BDD::True, _) => Rc::clone(&b),\n            (_, BDD::True) => Rc::clone(&a),\n            (BDD::Choice(at, va, af), BDD::Choice(_, vb, _)) if va < vb', new='(BDD::True, _) => b.clone(),\n            (_, BDD::True) => a.clone(),\n            (BDD::Choice(at, va, af), BDD::Choice(_, vb, _)) if va < vb', checks=['C03', 'C02', 'C13']),
 dict(id='xor-commute', kind='silent', file=B, old='self.and(self.not(Rc::clone(&a)), Rc::clone(&b)),\n            self.and(a, self.not(b)),', new='self.and(Rc::clone(&b), self.not(Rc::clone(&a))),\n            self.and(self.not(b), a),', checks=['C03']),
 dict(id='ite-rewrite', kind='silent', file=B, old='        self.and(\n            self.implies(Rc::clone(&a), Rc::clone(&b)),\n            self.implies(self.not(Rc::clone(&a)), Rc::clone(&c)),\n        )', new='        self.or(\n            self.and(Rc::clone(&a), Rc::clone(&b)),\n            self.and(self.not(Rc::clone(&a)), Rc::clone(&c)),\n        )', checks=['C03', 'C05', 'C13']),
 dict(id='not-if-let', kind='silent', file=B, old='        match a.as_ref() {\n            BDD::False => self.mk_const(true),\n            BDD::True => self.mk_const(false),\n            BDD::Choice(at, va, af) => {\n                self.mk_choice(self.not(Rc::clone(at)), va.clone(), self.not(Rc::clone(af)))\n            }\n        }', new='        if let BDD::Choice(at, va, af) = a.as_ref() {\n            self.mk_choice(self.not(Rc::clone(at)), va.clone(), self.not(Rc::clone(af)))\n        } else if a.is_true() {\n            self.mk_const(false)\n        } else {\n            self.mk_const(true)\n        }', checks=['C03', 'C02', 'C12']),
 dict(id='model-helper', kind='silent', file=B, old='                if lhs != self.mk_const(false) {', new='                let falsum = self.mk_const(false);\n                if lhs != falsum {', checks=['C07']),
 dict(id='merge-quantifier-fns', kind='silent', file=P, old='            Some(SymbolicBDDToken::Forall) => Self::parse_universal_quantifier(tokens),', new='            Some(SymbolicBDDToken::Forall) => {\n                expect(SymbolicBDDToken::Forall, tokens)?;\n                let vars = Self::parse_variable_list(tokens)?;\n                expect(SymbolicBDDToken::Hash, tokens)?;\n                let formula = Self::parse_sub_formula(tokens)?;\n                Ok(Self::Quantifier(QuantifierType::Forall, vars, Box::new(formula)))\n            }', checks=['C08', 'C01', 'C06']),
 dict(id='eval-and-commute', kind='silent', file=P, old='BinaryOperator::And => self.env.and(l, r),', new='BinaryOperator::And => self.env.and(r, l),', checks=['C01']),
 dict(id='retain-reorder', kind='silent', file=B, old='                        if left.is_const() && right.is_choice() {', new='                        if right.is_choice() && left.is_const() {', checks=['C20']),
 dict(id='comment-only', kind='silent', file=B, old='    /// Logic conjunction', new='    /// Logic conjunction (apply recursion)\n    // renamed nothing', checks=['C03', 'C12', 'C13']),
]

CASES += [
 dict(id='queens-short-antidiag', kind='fire', file=Q, old='for j in 0..=i {', new='for j in 0..i {', expect={'C15': 'loop nest #3'}),
 dict(id='queens-wrong-stride', kind='fire', file=Q, old='i + (j * (n - 1))', new='i + (j * (n + 1))', expect={'C15': 'loop nest #3'}),
 dict(id='queens-miss-diag', kind='fire', file=Q, old='    for i in 1..n {\n        write!(writer, "[")?;\n        for j in 0..(n - i) {\n            write!(writer, "v_{},", (i * n) + (j * (n + 1)))?;', new='    for i in 2..n {\n        write!(writer, "[")?;\n        for j in 0..(n - i) {\n            write!(writer, "v_{},", (i * n) + (j * (n + 1)))?;', expect={'C15': 'coverage of diag'}),
 dict(id='queens-row-le', kind='fire', file=Q, old='            write!(writer, "v_{},", j + i * n)?;\n        }\n        writeln!(writer, "] = 1 &")?;', new='            write!(writer, "v_{},", j + i * n)?;\n        }\n        writeln!(writer, "] <= 1 &")?;', expect={'C15': 'operator'}),
 dict(id='queens-dup-diag', kind='silent', file=Q, old='    for i in 1..n {\n        write!(writer, "[")?;\n        for j in 0..(n - i) {\n            write!(writer, "v_{},", (i * n) + (j * (n + 1)))?;', new='    for i in 0..n {\n        write!(writer, "[")?;\n        for j in 0..(n - i) {\n            write!(writer, "v_{},", (i * n) + (j * (n + 1)))?;', checks=['C15']),
 dict(id='queens-commute-index', kind='silent', file=Q, old='write!(writer, "v_{},", i + j * n)?;', new='write!(writer, "v_{},", n * j + i)?;', checks=['C15']),
]

ALL = ['C01', 'C02', 'C03', 'C04', 'C05', 'C06', 'C07', 'C08', 'C09', 'C10', 'C11', 'C12', 'C13', 'C14', 'C15', 'C16', 'C18', 'C19', 'C20']
CASES += [
 dict(id='s-unrelated-fn', kind='silent', file=B, old='    pub fn is_true(&self) -> bool {', new='    pub fn is_leaf(&self) -> bool {\n        !self.is_choice()\n    }\n\n    pub fn is_true(&self) -> bool {', checks=ALL),
 dict(id='s-rename-params', kind='silent', file=B, old='''    pub fn nand(&self, a: Rc<BDD<S>>, b: Rc<BDD<S>>) -> Rc<BDD<S>> {
        self.not(self.and(a, b))''', new='''    pub fn nand(&self, lhs: Rc<BDD<S>>, rhs: Rc<BDD<S>>) -> Rc<BDD<S>> {
        self.not(self.and(lhs, rhs))''', checks=['C01', 'C03', 'C12', 'C13']),
 dict(id='s-keyword-arm-order', kind='silent', file=P, old='''                    "false" => result.push(SymbolicBDDToken::False),
                    "true" => result.push(SymbolicBDDToken::True),''', new='''                    "true" => result.push(SymbolicBDDToken::True),
                    "false" => result.push(SymbolicBDDToken::False),''', checks=['C01', 'C08', 'C11', 'C12']),
 dict(id='s-print-order', kind='silent', file=M, old='''    if args.truthtable {
        print_header(&headers, &widths);''', new='''    let show_table = args.truthtable;
    if show_table {
        print_header(&headers, &widths);''', checks=['C10', 'C07', 'C12', 'C11']),
 dict(id='s-true-branch-first', kind='silent', file=M, old='''            // first visit the false subtree
            let mut r_vars = vars.clone();
            r_vars[parsed.to_free_index(s)] = TruthTableEntry::False;
            print_truth_table_recursive(r, r_vars, filter, parsed, sizes);

            // then visit the true subtree
            let mut l_vars = vars;
            l_vars[parsed.to_free_index(s)] = TruthTableEntry::True;
            print_truth_table_recursive(l, l_vars, filter, parsed, sizes);''', new='''            // first visit the true subtree
            let mut l_vars = vars.clone();
            l_vars[parsed.to_free_index(s)] = TruthTableEntry::True;
            print_truth_table_recursive(l, l_vars, filter, parsed, sizes);

            // then visit the false subtree
            let mut r_vars = vars;
            r_vars[parsed.to_free_index(s)] = TruthTableEntry::False;
            print_truth_table_recursive(r, r_vars, filter, parsed, sizes);''', checks=['C10', 'C12']),
 dict(id='s-exists-split-first', kind='silent', file=B, old='''        if s.is_empty() {
            b
        } else {
            let first = &s[0];
            let remainder = s[1..].to_vec();

            self.exists_impl(first, self.exists(remainder, b))
        }''', new='''        match s.split_first() {
            None => b,
            Some((first, remainder)) => self.exists_impl(first, self.exists(remainder.to_vec(), b)),
        }''', checks=['C01', 'C04', 'C09', 'C12', 'C13']),
 dict(id='s-cmp_count-split-first', kind='silent', file=B, old='''        if branches.is_empty() {
            self.mk_const(cmp(n))
        } else {
            let first = &branches[0];
            let remainder = branches[1..].to_vec();

            self.ite(
                Rc::clone(first),
                self.cmp_count(&remainder, n - 1, cmp),
                self.cmp_count(&remainder, n, cmp),
            )
        }''', new='''        if let Some((first, remainder)) = branches.split_first() {
            self.ite(
                Rc::clone(first),
                self.cmp_count(remainder, n - 1, cmp),
                self.cmp_count(remainder, n, cmp),
            )
        } else {
            self.mk_const(cmp(n))
        }''', checks=['C01', 'C05', 'C12', 'C02']),
 dict(id='s-eval-env-binding', kind='silent', file=P, old='''            SymbolicBDD::Not(b) => self.env.not(self.eval_recursive(b)),''', new='''            SymbolicBDD::Not(b) => {
                let inner = self.eval_recursive(b);
                self.env.not(inner)
            }''', checks=['C01', 'C06', 'C12']),
 dict(id='s-expect-message', kind='silent', file=B, old='"Subtree not found in this BDD, make sure to initialize the data structure correctly"', new='"subtree is not in the lookup table"', checks=['C12', 'C13', 'C02']),
 dict(id='s-set-union-inline', kind='silent', file=S, old='''        let _self = self.bdd.borrow().clone();
        let _other = other.bdd.borrow().clone();
        self.bdd.replace(self.env.or(_self, _other));
        self''', new='''        let merged = {
            let mine = self.bdd.borrow().clone();
            let theirs = other.bdd.borrow().clone();
            self.env.or(mine, theirs)
        };
        self.bdd.replace(merged);
        self''', checks=['C19', 'C12', 'C13']),
 dict(id='s-clique-ne-refs', kind='silent', file=C, old='            if v1 != v2 {\n                if is_undirected {', new='            if v2 != v1 {\n                if is_undirected {', checks=['C16']),
 dict(id='s-graph-rename', kind='silent', file=G, old='    if let Some(edges) = edges.get(0..num_edges) {\n        Ok(edges.to_vec())', new='    if let Some(chosen) = edges.get(0..num_edges) {\n        Ok(chosen.to_vec())', checks=['C18']),
 dict(id='s-retain-match-filter', kind='silent', file=B, old='''                            if left.is_true() != filter.is_true() {
                                // omit choice
                                eprintln!("omitted choice {symbol}");
                                right''', new='''                            if filter.is_true() != left.is_true() {
                                // omit choice
                                right''', checks=['C20', 'C12', 'C13']),
]

U = 'sudoku_gen/src/main.rs'
CASES += [
 dict(id='sudoku-box-mod', kind='fire', file=U, old='lt + ((l / root) * square + (l % root))', new='lt + ((l / root) * square + (l % square))', expect={'C17': 'list #4'}),
 dict(id='sudoku-lt', kind='fire', file=U, old='let lt = (i * root) * square + (j * root);', new='let lt = (i * root) * square + j;', expect={'C17': 'list #4'}),
 dict(id='sudoku-row-short', kind='fire', file=U, old='''            let vars = (0..square)
                .map(|j| format!("_{}_is_{}", i * square + j, k))''', new='''            let vars = (1..square)
                .map(|j| format!("_{}_is_{}", i * square + j, k))''', expect={'C17': 'list #2'}),
 dict(id='sudoku-col-is-row', kind='fire', file=U, old='.map(|j| format!("_{}_is_{}", j * square + i, k))', new='.map(|j| format!("_{}_is_{}", i * square + j, k))', expect={'C17': 'missing family col'}),
 dict(id='sudoku-hint-radix', kind='fire', file=U, old='if char::is_digit(ch, 10) {', new='if char::is_digit(ch, 16) {', expect={'C17': 'hints'}),
 dict(id='sudoku-no-ws-strip', kind='fire', file=U, old='        .filter(|c| !c.is_whitespace())\n', new='        .filter(|c| *c != \'\\n\')\n', expect={'C17': 'whitespace'}),
 dict(id='sudoku-commute', kind='silent', file=U, old='.map(|j| format!("_{}_is_{}", i * square + j, k))', new='.map(|j| format!("_{}_is_{}", j + square * i, k))', checks=['C17']),
 dict(id='sudoku-inline-lt', kind='silent', file=U, old='lt + ((l / root) * square + (l % root))', new='(i * root + l / root) * square + (j * root + l % root)', checks=['C17']),
]

TT = 'src/truth_table.rs'
CASES += [
 dict(id='tte-is-any-wrong', kind='fire', file=TT, old='    pub fn is_any(self) -> bool {\n        self == Self::Any', new='    pub fn is_any(self) -> bool {\n        self == Self::True', expect={'C20': 'HELPER', 'C10': 'HELPER'}),
 dict(id='bdd-is-true-wrong', kind='fire', file=B, old='    pub fn is_true(&self) -> bool {\n        self == &Self::True', new='    pub fn is_true(&self) -> bool {\n        self == &Self::False', expect={'C20': 'retain', 'C14': 'HELPER'}),
 dict(id='filter-digit-swap', kind='fire', file=TT, old='"t" | "T" | "1"),', new='"t" | "T" | "0"),', expect={'C10': 'spellings'}),
 dict(id='label-drops-bound', kind='fire', file=PIO, old='SymbolicBDD::CountableConst(ref v, _, n) => {', new='SymbolicBDD::CountableConst(ref v, _, _) => {', expect={'C14': 'label of CountableConst'}),
 dict(id='complete-halve-first', kind='fire', file=G, old='(vertices * (vertices - 1)) / 2', new='(vertices / 2) * (vertices - 1)', expect={'C18': 'truncates'}),
 dict(id='clamp-to-len', kind='fire', file=P, old='let n = i64::try_from(*n).unwrap_or(i64::MAX);', new='let n = i64::try_from(*n).unwrap_or(branches.len() as i64);', expect={'C05': 'CLAMP'}),
]

CASES += [
 dict(id='queens-skip-corner-antidiag', kind='silent', file=Q, old='''    for i in 1..n {
        write!(writer, "[")?;
        for j in 0..i {
            write!(writer, "v_{},", n * (n - j) - (i - j))?;''', new='''    for i in 2..n {
        write!(writer, "[")?;
        for j in 0..i {
            write!(writer, "v_{},", n * (n - j) - (i - j))?;''', checks=['C15']),
 dict(id='queens-skip-two-cell-antidiag', kind='fire', file=Q, old='''    for i in 0..n {
        write!(writer, "[")?;
        for j in 0..=i {''', new='''    for i in 2..n {
        write!(writer, "[")?;
        for j in 0..=i {''', expect={'C15': 'coverage of anti'}),
]

CASES += [
 dict(id='clique-template-geq', kind='fire', file=C, old='") => [{}] >= [{}]"', new='") => [{}] > [{}]"', expect={'C16': 'template'}),
 dict(id='clique-template-or', kind='fire', file=C, old='"-({} & {}) &"', new='"-({} | {}) &"', expect={'C16': 'template'}),
 dict(id='clique-template-spelling', kind='silent', file=C, old='"-({} & {}) &"', new='"not ({} and {})  and"', checks=['C16']),
]

CASES += [
 dict(id='queens-spelling', kind='silent', file=Q, old='        writeln!(writer, "] = 1 &")?;\n    }\n\n    writeln!(writer)?;\n    writeln!(writer, "\\"every column', new='        writeln!(writer, "]  =  1 and")?;\n    }\n\n    writeln!(writer)?;\n    writeln!(writer, "\\"every column', checks=['C15']),
 dict(id='queens-row-or', kind='fire', file=Q, old='        writeln!(writer, "] = 1 &")?;\n    }\n\n    writeln!(writer)?;\n    writeln!(writer, "\\"every column', new='        writeln!(writer, "] = 1 |")?;\n    }\n\n    writeln!(writer)?;\n    writeln!(writer, "\\"every column', expect={'C15': 'operator'}),
 dict(id='sudoku-eq-2', kind='fire', file=U, old='            writeln!(writer, "[{}] = 1 &", vars)?;\n\n            let vars = (0..square)\n                .map(|j| format!("_{}_is_{}", j * square + i, k))', new='            writeln!(writer, "[{}] = 2 &", vars)?;\n\n            let vars = (0..square)\n                .map(|j| format!("_{}_is_{}", j * square + i, k))', expect={'C17': 'list #2'}),
]

CASES += [
 dict(id='graph-writer-swap', kind='fire', file=G, old='writeln!(writer, "    {} -> {}", edge.0, edge.1)?;', new='writeln!(writer, "    {} -> {}", edge.1, edge.0)?;', expect={'C18': 'writer'}),
 dict(id='graph-writer-arrow', kind='fire', file=G, old='writeln!(writer, "    {} -- {}", edge.0, edge.1)?;', new='writeln!(writer, "    {} -> {}", edge.0, edge.1)?;', expect={'C18': 'writer'}),
]

CASES += [
 dict(id='colours-from-one', kind='fire', file=G, old='for color in 0..num_colors {', new='for color in 1..num_colors {', expect={'C18': 'colour range'}),
 dict(id='colours-map-swap', kind='fire', file=G, old='vertex_map.insert(v2.clone(), edge.1.clone());', new='vertex_map.insert(v2.clone(), edge.0.clone());', expect={'C18': 'product vertices'}),
]

CASES += [
 dict(id='simplify-ptr-eq', kind='fire', file=B, old='BDD::Choice(t, _, f) if t.as_ref() == f.as_ref() => Rc::clone(t),', new='BDD::Choice(t, _, f) if Rc::ptr_eq(t, f) => Rc::clone(t),', expect={'C02': 'E2'}),
 # pointer identity as a fast path in front of the structural test is correct
 dict(id='simplify-ptr-eq-fastpath', kind='silent', file=B, old='BDD::Choice(t, _, f) if t.as_ref() == f.as_ref() => Rc::clone(t),', new='BDD::Choice(t, _, f) if Rc::ptr_eq(t, f) || t.as_ref() == f.as_ref() => Rc::clone(t),', checks=['C02', 'C03', 'C13']),
]

_HINT_OLD = '''    for i in 0..numcells {
        if let Some(ch) = puzzle_input.chars().nth(i) {
            if char::is_digit(ch, 10) {
                writeln!(writer, "_{}_is_{} &", i, ch)?;
            }
        }
    }
'''
CASES += [
 # correct: one pass over the characters, limited to the cells
 dict(id='sudoku-hints-enumerate', kind='silent', file=U, old=_HINT_OLD, new='''    for (i, ch) in puzzle_input.chars().enumerate().take(numcells) {
        if ch.is_ascii_digit() {
            writeln!(writer, "_{}_is_{} &", i, ch)?;
        }
    }
''', checks=['C17', 'C12']),
 # wrong: bytes are not characters (a multi-byte placeholder such as a middle dot shifts every later hint)
 dict(id='sudoku-hints-bytes', kind='fire', file=U, old=_HINT_OLD, new='''    for i in 0..numcells {
        if let Some(&ch) = puzzle_input.as_bytes().get(i) {
            if ch.is_ascii_digit() {
                writeln!(writer, "_{}_is_{} &", i, ch as char)?;
            }
        }
    }
''', expect={'C17': 'hints'}),
 # wrong: hints beyond the last cell name variables no constraint mentions
 dict(id='sudoku-hints-unbounded', kind='fire', file=U, old=_HINT_OLD, new='''    for (i, ch) in puzzle_input.chars().enumerate() {
        if ch.is_ascii_digit() {
            writeln!(writer, "_{}_is_{} &", i, ch)?;
        }
    }
''', expect={'C17': 'hints'}),
 # wrong: is_numeric accepts digits of other scripts, which the formula language cannot read back as a number 1..9
 dict(id='sudoku-hints-numeric', kind='fire', file=U, old='if char::is_digit(ch, 10) {', new='if ch.is_numeric() {', expect={'C17': 'hints'}),
 # wrong: hints read from the unfiltered text
 dict(id='sudoku-hints-zero-skipped', kind='fire', file=U, old='if char::is_digit(ch, 10) {', new="if char::is_digit(ch, 10) && ch != '5' {", expect={'C17': 'hints'}),
]

_EXISTS_OLD = '''        if s.is_empty() {
            b
        } else {
            let first = &s[0];
            let remainder = s[1..].to_vec();

            self.exists_impl(first, self.exists(remainder, b))
        }
'''
_INSERT_OLD = '''        let new_item = (0..self.bits)
            .map(|i| {
                if e.categorize(i) {
                    self.env.var(i)
                } else {
                    self.env.not(self.env.var(i))
                }
            })
            .fold(self.env.mk_const(true), |a, e| self.env.and(a, e));
'''
def _insert_loop(lo):
    return '''        let mut new_item = self.env.mk_const(true);
        for i in %s..self.bits {
            let literal = if e.categorize(i) {
                self.env.var(i)
            } else {
                self.env.not(self.env.var(i))
            };
            new_item = self.env.and(new_item, literal);
        }
''' % lo
CASES += [
 # recursion -> fold over the reversed list (same calls in the same order): proved by induction with the function's own summary
 dict(id='exists-fold-rev', kind='silent', file=B, old=_EXISTS_OLD, new='''        s.iter()
            .rev()
            .fold(b, |acc, symbol| self.exists_impl(symbol, acc))
''', checks=['C01', 'C04', 'C09', 'C12']),
 dict(id='exists-fold-drops-first', kind='fire', file=B, old=_EXISTS_OLD, new='''        s.iter()
            .skip(1)
            .rev()
            .fold(b, |acc, symbol| self.exists_impl(symbol, acc))
''', expect={'C04': 'exists'}),
 dict(id='exists-fold-ignores-acc', kind='fire', file=B, old=_EXISTS_OLD, new='''        s.iter()
            .rev()
            .fold(b.clone(), |_acc, symbol| self.exists_impl(symbol, b.clone()))
''', expect={'C04': 'exists'}),
 # iterator pipeline -> explicit accumulator loop
 dict(id='set-insert-loop', kind='silent', file=S, old=_INSERT_OLD, new=_insert_loop('0'), checks=['C19', 'C12']),
 dict(id='set-insert-loop-from-one', kind='fire', file=S, old=_INSERT_OLD, new=_insert_loop('1'), expect={'C19': 'insert'}),
]


def apply_case(repo, c):
    """apply one case to the scratch copy `repo`; False if it does not apply.  A case is either one textual replacement
    (old -> new, first occurrence), or `subs`: a list of (regex, replacement) applied to the whole file (each must match)."""
    import os, re
    p = os.path.join(repo, c['file'])
    try:
        s = open(p).read()
    except OSError:
        return False
    if 'patch' in c:
        import subprocess
        pf = os.path.join(os.path.dirname(os.path.abspath(__file__)), 'patches', c['patch'])
        r = subprocess.run(['patch', '-p1', '-s', '-i', pf], cwd=repo, stdout=subprocess.PIPE, stderr=subprocess.STDOUT)
        if r.returncode != 0: return False
        if 'old' not in c and 'subs' not in c: return True
        s = open(p).read()
    if 'subs' in c:
        for rx, rep in c['subs']:
            s2, n = re.subn(rx, rep, s)
            if n == 0: return False
            s = s2
    else:
        if c['old'] not in s: return False
        s = s.replace(c['old'], c['new'], 1)
    open(p, 'w').write(s)
    return True

CASES += [
 # locals renamed throughout: roles are found by what the variables do, not by how they are spelt
 dict(id='clique-rename-locals', kind='silent', file=C, subs=[(r'\bv1\b', 'a'), (r'\bv2\b', 'b'), (r'\bis_undirected\b', 'symmetric'), (r'\bedges_complement\b', 'non_edges'),
                                                             (r'\bshow_all\b', 'every_clique'), (r'\bvertices\b', 'nodes'), (r'\bedges\b', 'arcs')], checks=['C16']),
 dict(id='clique-continue-guard', kind='silent', file=C, old='''            if v1 != v2 {
                if is_undirected {
                    if !(edges.contains(&(v1.to_string(), v2.to_string()))
                        || edges.contains(&(v2.to_string(), v1.to_string()))
                        || edges_complement.contains(&(v2.to_string(), v1.to_string())))
                    {
                        edges_complement.push((v1.to_string(), v2.to_string()));
                    }
                } else if !edges.contains(&(v1.to_string(), v2.to_string())) {
                    edges_complement.push((v1.to_string(), v2.to_string()));
                }
            }
''', new='''            if v1 == v2 {
                continue;
            }
            let forward = (v1.to_string(), v2.to_string());
            if is_undirected {
                let backward = (v2.to_string(), v1.to_string());
                if !(edges.contains(&forward) || edges.contains(&backward) || edges_complement.contains(&backward)) {
                    edges_complement.push(forward);
                }
            } else if !edges.contains(&forward) {
                edges_complement.push(forward);
            }
''', checks=['C16']),
 dict(id='clique-continue-guard-wrong', kind='fire', file=C, old='''            if v1 != v2 {
                if is_undirected {
                    if !(edges.contains(&(v1.to_string(), v2.to_string()))
                        || edges.contains(&(v2.to_string(), v1.to_string()))
                        || edges_complement.contains(&(v2.to_string(), v1.to_string())))
                    {
                        edges_complement.push((v1.to_string(), v2.to_string()));
                    }
                } else if !edges.contains(&(v1.to_string(), v2.to_string())) {
                    edges_complement.push((v1.to_string(), v2.to_string()));
                }
            }
''', new='''            if v1 == v2 {
                continue;
            }
            let forward = (v1.to_string(), v2.to_string());
            if is_undirected {
                let backward = (v2.to_string(), v1.to_string());
                if !(edges.contains(&forward) || edges_complement.contains(&backward)) {
                    edges_complement.push(forward);
                }
            } else if !edges.contains(&forward) {
                edges_complement.push(forward);
            }
''', expect={'C16': 'complement-edge'}),
]

CASES += [
 dict(id='graph-rename-locals', kind='silent', file=G, subs=[(r'\bselection\b', 'graph'), (r'\bvertex_map\b', 'origin'), (r'\bcolor_map\b', 'shade'), (r'\bnew_edges\b', 'product'),
                                                            (r'\bov1\b', 'a0'), (r'\bov2\b', 'b0'), (r'\bc1\b', 'ka'), (r'\bc2\b', 'kb'), (r'\bnum_colors\b', 'k'),
                                                            (r'\bedge_record\b', 'rec'), (r'\bnum_edges\b', 'm')], checks=['C18']),
 dict(id='graph-match-forms', kind='silent', file=G, old='''    if let Some(edges) = edges.get(0..num_edges) {
        Ok(edges.to_vec())
    } else {
        Err(anyhow::anyhow!(
            "Cannot satisfy the desired amount of edges"
        ))
    }
''', new='''    match edges.get(0..num_edges) {
        Some(selected) => Ok(selected.to_vec()),
        None => Err(anyhow::anyhow!("Cannot satisfy the desired amount of edges")),
    }
''', checks=['C18']),
 dict(id='graph-complete-flag-swapped', kind='fire', file=G, old='generate_graph(vertices, edges, args.undirected)?', new='generate_graph(vertices, edges, !args.undirected)?', expect={'C18': 'generate_graph'}),
 dict(id='graph-random-edges-off', kind='fire', file=G, old='generate_graph(args.vertices.unwrap(), args.edges.unwrap(), args.undirected)?', new='generate_graph(args.vertices.unwrap(), args.edges.unwrap() + 1, args.undirected)?', expect={'C18': 'random graph call'}),
]


# behaviour-preserving maintenance patches written by independent sub-agents (selftest/patches/bn*-NN.diff, notes in bn*-notes.json):
# every check must stay silent on each of them.  They are not used as thorough-tier controls (control=False): too many runs.
_BN = {1: ['C01', 'C02', 'C03', 'C04', 'C05', 'C06', 'C07', 'C09', 'C12', 'C13', 'C19', 'C20'],
       2: ['C01', 'C06', 'C08', 'C09', 'C10', 'C11', 'C12', 'C14'],
       3: ['C07', 'C09', 'C10', 'C11', 'C12', 'C14'],
       4: ['C15', 'C16', 'C17', 'C18']}
_BN_FILE = {1: B, 2: P, 3: M, 4: Q}
for _k, _checks in _BN.items():
    for _n in range(1, 9):
        CASES.append(dict(id='bn%d-%02d' % (_k, _n), kind='silent', file=_BN_FILE[_k], patch='bn%d-%02d.diff' % (_k, _n), checks=_checks, control=False))

CASES += [
 # a mutant written in the style of one of those refactors: the shared helper of bn4-02, one diagonal family one cell short
 dict(id='queens-helper-short-diagonal', kind='fire', file=Q, patch='bn4-02.diff', old='(0..=i).map(|j| i + (j * (n - 1)))', new='(0..i).map(|j| i + (j * (n - 1)))', expect={'C15': 'N'}, control=False),
 dict(id='queens-helper-wrong-relation', kind='fire', file=Q, patch='bn4-02.diff', old='(0..n).map(|j| i + j * n), "= 1"', new='(0..n).map(|j| i + j * n), "<= 1"', expect={'C15': 'N'}, control=False),
 dict(id='bddio-helper-wrong-filter', kind='fire', file=IO, patch='bn2-07.diff', old='|| (child == &BDD::False && self.filter == TruthTableEntry::False)', new='|| (child == &BDD::False && self.filter == TruthTableEntry::True)', expect={'C14': 'X2'}, control=False),
 dict(id='parserio-helper-wrong-child', kind='fire', file=PIO, patch='bn2-06.diff', old='edges.push((i, "R".to_string(), self.position_of(r)));', new='edges.push((i, "R".to_string(), self.position_of(l)));', expect={'C14': 'X6'}, control=False),
]

CASES += [
 dict(id='cli-retain-takes-filter', kind='fire', file=M, old='.retain_choice_bottom_up(result, args.retain_choices);', new='.retain_choice_bottom_up(result, args.filter);', expect={'C20': '--retain-choices'}),
 dict(id='cli-table-takes-retain', kind='fire', file=M, old='''            args.filter,
            &input_parsed,
            &widths,''', new='''            args.retain_choices,
            &input_parsed,
            &widths,''', expect={'C10': '--filter'}),
 dict(id='cli-dot-takes-retain', kind='fire', file=M, old='let graph = BDDGraph::new(&result, args.filter);', new='let graph = BDDGraph::new(&result, args.retain_choices);', expect={'C14': '--filter'}),
 dict(id='cli-filter-local', kind='silent', file=M, old='let graph = BDDGraph::new(&result, args.filter);', new='let shown = args.filter;\n        let graph = BDDGraph::new(&result, shown);', checks=['C14', 'C10']),
]

CASES += [
 # front-to-back fold: the head is eliminated first - the other defining equation of the same fold
 dict(id='exists-fold-forward', kind='silent', file=B, old=_EXISTS_OLD, new='''        s.iter().fold(b, |acc, symbol| self.exists_impl(symbol, acc))
''', checks=['C01', 'C04']),
 dict(id='exists-loop', kind='silent', file=B, old=_EXISTS_OLD, new='''        let mut acc = b;
        for symbol in s.iter().rev() {
            acc = self.exists_impl(symbol, acc);
        }
        acc
''', checks=['C04']),
]

# second round of behaviour-preserving patches (bn5 .. bn8), and mutants written in their style
_BN2 = {5: ['C01', 'C02', 'C03', 'C04', 'C05', 'C06', 'C07', 'C09', 'C12', 'C13', 'C19', 'C20'],
        6: ['C01', 'C03', 'C04', 'C05', 'C06', 'C08', 'C09', 'C10', 'C11', 'C12', 'C14'],
        7: ['C07', 'C09', 'C10', 'C11', 'C12', 'C13', 'C14', 'C20'],
        8: ['C15', 'C16', 'C17', 'C18']}
_BN2_FILE = {5: B, 6: P, 7: M, 8: Q}
for _k, _checks in _BN2.items():
    for _n in range(1, 9):
        CASES.append(dict(id='bn%d-%02d' % (_k, _n), kind='silent', file=_BN2_FILE[_k], patch='bn%d-%02d.diff' % (_k, _n), checks=_checks, control=False))

CASES += [
 dict(id='fp-break-value-wrong-next', kind='fire', file=B, patch='bn5-03.diff', old='            s = snew;', new='            s = t(snew);', expect={'C06': 'FP'}, control=False),
 dict(id='named-comparator-wrong', kind='fire', file=B, patch='bn5-06.diff', old='    n >= 0\n', new='    n > 0\n', expect={'C05': 'S'}, control=False),
 dict(id='count-direct-wrong-offset', kind='fire', file=B, patch='bn5-07.diff', old='self.cmp_count_compare(a, b, 1, Self::aln)', new='self.cmp_count_compare(a, b, 0, Self::aln)', expect={'C05': 'S'}, control=False),
 dict(id='table-matches-wrong-arm', kind='fire', file=M, patch='bn7-04.diff', old='            | (TruthTableEntry::False, BDD::False)', new='            | (TruthTableEntry::False, BDD::True)', expect={'C10': 'X2'}, control=False),
 dict(id='headers-helper-no-result-column', kind='fire', file=M, patch='bn7-06.diff', old='    headers.push("*".to_string());\n', new='', expect={'C10': 'X3'}, control=False),
 dict(id='sudoku-push-loop-wrong-index', kind='fire', file=U, patch='bn8-05.diff', old='let cell = lt + ((l / root) * square + (l % root));', new='let cell = lt + ((l / root) * square + (l % square));', expect={'C17': 'U'}, control=False),
 dict(id='graph-match-args-swapped', kind='fire', file=G, patch='bn8-07.diff', old='(Some(vertices), Some(edges)) => generate_graph(vertices, edges, args.undirected)?,', new='(Some(vertices), Some(edges)) => generate_graph(edges, vertices, args.undirected)?,', expect={'C18': 'generate_graph'}, control=False),
 dict(id='graph-writer-match-swapped', kind='fire', file=G, patch='bn8-08.diff', old='writeln!(writer, "    {} -> {}", from, to)?;', new='writeln!(writer, "    {} -> {}", to, from)?;', expect={'C18': 'writer'}, control=False),
 dict(id='quantifier-kind-mismatch', kind='fire', file=P, patch='bn6-01.diff', old='                Self::parse_quantifier(tokens, QuantifierType::Exists)', new='                Self::parse_quantifier(tokens, QuantifierType::Forall)', expect={'C08': 'A'}, control=False),
 dict(id='binop-table-wrong', kind='fire', file=P, patch='bn6-02.diff', old='Some(SymbolicBDDToken::Nor) => BinaryOperator::Nor,', new='Some(SymbolicBDDToken::Nor) => BinaryOperator::Nand,', expect={'C03': 'T'}, control=False),
 dict(id='keyword-helper-wrong', kind='fire', file=P, patch='bn6-06.diff', old='        "exists" | "any" => SymbolicBDDToken::Exists,\n        "forall" | "all" => SymbolicBDDToken::Forall,', new='        "exists" => SymbolicBDDToken::Exists,\n        "forall" | "all" | "any" => SymbolicBDDToken::Forall,', expect={'C04': 'T'}, control=False),
 dict(id='dot-leaf-matches-wrong', kind='fire', file=IO, patch='bn6-08.diff', old='                        | (TruthTableEntry::False, BDD::False)', new='                        | (TruthTableEntry::False, BDD::True)', expect={'C14': 'X2'}, control=False),
]

SY = 'src/symbols.rs'
CASES += [
 dict(id='dot-label-escaped', kind='fire', file=IO, old='BDD::Choice(_, v, _) => dot::LabelText::label(format!("{}", v)),', new='BDD::Choice(_, v, _) => dot::LabelText::escaped(format!("{}", v)),', expect={'C14': 'X7'}),
 dict(id='dot-edges-not-unique', kind='fire', file=IO, old='                    .unique() // disable unique edges when testing for duplicates\n', new='', expect={'C14': 'X7'}),
 dict(id='parsetree-list-dedup', kind='fire', file=PIO, old='for (j, subtree) in f.iter().enumerate() {', new='for (j, subtree) in f.iter().dedup().enumerate() {', expect={'C14': 'X7'}),
 dict(id='env-copied', kind='fire', file=P, old='            env,\n', new='            env: Rc::new(env.as_ref().clone()),\n', expect={'C13': 'E8'}),
 dict(id='symbol-hash-by-name', kind='fire', file=SY, old='self.id.hash(state)', new='self.name.hash(state)', expect={'C13': 'H', 'C02': 'H'}),
 dict(id='bench-guard-dropped', kind='fire', file=M, old='if args.benchmark.is_some() && repeat > 0 {', new='if args.benchmark.is_some() {', expect={'C12': 'stats'}),
 dict(id='bench-guard-is-some-and', kind='silent', file=M, old='if args.benchmark.is_some() && repeat > 0 {', new='if args.benchmark.is_some_and(|runs| runs > 0) {', checks=['C12']),
 dict(id='free-vars-left-list-twice', kind='fire', file=P, old='|| r.iter().any(|f| self.var_is_free(f, var))', new='|| l.iter().any(|f| self.var_is_free(f, var))', expect={'C12': 'var_is_free', 'C09': 'var_is_free'}),
]

# third round of behaviour-preserving patches (bn9 .. bn12), and mutants written in their style
TT = 'src/truth_table.rs'
_BN3 = {9: ['C01', 'C02', 'C03', 'C04', 'C05', 'C06', 'C07', 'C09', 'C12', 'C13', 'C19', 'C20'],
        10: ['C01', 'C03', 'C04', 'C05', 'C06', 'C08', 'C09', 'C10', 'C11', 'C12', 'C14'],
        11: ['C07', 'C09', 'C10', 'C11', 'C12', 'C13', 'C14', 'C20'],
        12: ['C15', 'C16', 'C17', 'C18']}
_BN3_FILE = {9: B, 10: P, 11: M, 12: Q}
for _k, _checks in _BN3.items():
    for _n in range(1, 9):
        CASES.append(dict(id='bn%d-%02d' % (_k, _n), kind='silent', file=_BN3_FILE[_k], patch='bn%d-%02d.diff' % (_k, _n), checks=_checks, control=False))

CASES += [
 dict(id='queens-accumulator-wrong-step', kind='fire', file=Q, patch='bn12-01.diff', old='            cell += n + 1;', new='            cell += n;', expect={'C15': 'N'}, control=False),
 dict(id='graph-truncate-guard-off-by-one', kind='fire', file=G, patch='bn12-07.diff', old='    if num_edges > edges.len() {', new='    if num_edges > edges.len() + 1 {', expect={'C18': 'refuse-not-truncate'}, control=False),
 dict(id='clique-has-edge-dropped', kind='fire', file=C, patch='bn12-04.diff', old='                        && !has_edge(&edges, v2, v1)\n', new='', expect={'C16': 'complement-edge'}, control=False),
 dict(id='sudoku-map-chain-wrong-column', kind='fire', file=U, patch='bn12-05.diff', old='let vars = value_in_cells((0..square).map(|j| j * square + i), k);', new='let vars = value_in_cells((0..square).map(|j| j * root + i), k);', expect={'C17': 'U'}, control=False),
 dict(id='filter-spelling-table-wrong', kind='fire', file=TT, patch='bn11-07.diff', old='        (Self::False, ["false", "False", "f", "F", "0"]),', new='        (Self::False, ["false", "False", "f", "F", "1"]),', expect={'C10': 'T'}, control=False),
 dict(id='symbol-pair-table-wrong', kind='fire', file=P, patch='bn10-04.diff', old='    ("<=", SymbolicBDDToken::ImpliesInv),', new='    ("<=", SymbolicBDDToken::Implies),', expect={'C03': 'T', 'C08': 'T'}, control=False),
 dict(id='lookahead-inverted', kind='fire', file=P, patch='bn10-01.diff', old='                if !next_is(SymbolicBDDToken::Comma, tokens) {\n                    break;', new='                if next_is(SymbolicBDDToken::Comma, tokens) {\n                    break;', expect={'C08': 'A2'}, control=False),
]

CASES += [
 dict(id='sudoku-ascii-whitespace', kind='fire', file=U, old='.filter(|c| !c.is_whitespace())', new='.filter(|c| !c.is_ascii_whitespace())', expect={'C17': 'whitespace'}),
 dict(id='sudoku-stdin-first-line', kind='fire', file=U, old='io::stdin().read_to_string(&mut puzzle_input)?;', new='io::stdin().read_line(&mut puzzle_input)?;', expect={'C17': 'input'}),
 dict(id='tokenizer-lowercases', kind='fire', file=P, old='match identifier.as_str() {', new='match identifier.as_str().to_lowercase().as_str() {', expect={'C01': 'transformed', 'C16': 'transformed'}),
 dict(id='graph-output-not-truncated', kind='fire', file=G, old='let file = File::create(output_file)?;', new='let file = File::options().write(true).create(true).open(output_file)?;', expect={'C18': 'X8'}),
 dict(id='graph-output-truncating-options', kind='silent', file=G, old='let file = File::create(output_file)?;', new='let file = File::options().write(true).create(true).truncate(true).open(output_file)?;', checks=['C18']),
 dict(id='retain-spelling-swapped', kind='fire', file=TT, old='Self::True => matches!(s, "true" | "True" | "t" | "T" | "1"),\n            Self::False => matches!(s, "false" | "False" | "f" | "F" | "0"),', new='Self::True => matches!(s, "true" | "True" | "t" | "T" | "0"),\n            Self::False => matches!(s, "false" | "False" | "f" | "F" | "1"),', expect={'C20': 'T', 'C10': 'T', 'C14': 'T'}),
 dict(id='strict-count-offset-overflows', kind='fire', file=P, old='n.saturating_add(1)', new='n + 1', expect={'C05': 'Overflow', 'C12': 'Overflow'}),
 dict(id='varlist-wrong-terminator', kind='fire', file=P, old='''        loop {
            if check(SymbolicBDDToken::Hash, tokens).is_err() {''', new='''        loop {
            if check(SymbolicBDDToken::CloseSquare, tokens).is_err() {''', expect={'C04': 'A2', 'C08': 'A2'}),
]

# fourth round: six *larger* refactorings per area (20-120 changed lines each: new enums, context structs, shared generic helpers).
# 13 of the 24 are silent; the other 11 make a syntactic engine fail closed (UNDECIDABLE / VACUITY) and are listed in DESIGN.md 15.2 as
# known conservative alarms - they are kept here as documentation (kind 'known-alarm' is not run).
_BN4_SILENT = {13: [1, 2, 3, 4, 5, 6], 14: [4, 6], 15: [5, 6], 16: [2, 3, 6]}
_BN4_CHECKS = {13: _BN3[9], 14: _BN3[10], 15: _BN3[11], 16: _BN3[12]}
_BN4_FILE = {13: B, 14: P, 15: M, 16: Q}
for _k in (13, 14, 15, 16):
    for _n in range(1, 7):
        CASES.append(dict(id='bn%d-%02d' % (_k, _n), kind='silent' if _n in _BN4_SILENT[_k] else 'known-alarm', file=_BN4_FILE[_k], patch='bn%d-%02d.diff' % (_k, _n),
                          checks=_BN4_CHECKS[_k], control=False))

CASES += [
 dict(id='shared-apply-wrong-neutral', kind='fire', file=B, patch='bn13-01.diff', old='            (BDD::True | BDD::False, _) => Rc::clone(&b),', new='            (BDD::True | BDD::False, _) => Rc::clone(&a),', expect={'C03': 'S'}, control=False),
 dict(id='count-ladder-wrong-step', kind='fire', file=B, patch='bn13-03.diff', old='Self::Down => n - 1,', new='Self::Down => n - 2,', expect={'C05': 'S'}, control=False),
]

CASES += [
 dict(id='parsetree-ite-labels-swapped', kind='fire', file=PIO, old='                SymbolicBDD::Ite(c, t, e) => {', new='                SymbolicBDD::Ite(c, e, t) => {', expect={'C14': 'labels of Ite'}),
 dict(id='parsetree-label-list-unique', kind='fire', file=PIO, old='v.iter().map(|s| s.name.as_ref()).cloned().join(", ")', new='v.iter().unique().map(|s| s.name.as_ref()).cloned().join(", ")', expect={'C14': 'X7'}),
 dict(id='perf-report-on-stdout', kind='fire', file=M, old='    eprintln!("Runtime report for {} iterations:", results.len());', new='    println!("Runtime report for {} iterations:", results.len());', expect={'C10': 'X9'}),
 dict(id='clique-vertices-first-column-only', kind='fire', file=C, old='        vertices.insert(edge[1].to_string());', new='        vertices.insert(edge[0].to_string());', expect={'C16': 'vertex set'}),
 dict(id='clique-emptiness-of-wrong-list', kind='fire', file=C, old='''            if edges_complement.is_empty() {
                "  true".to_string()''', new='''            if edges.is_empty() {
                "  true".to_string()''', expect={'C16': 'empty constraint block'}),
 dict(id='get-hash-by-address', kind='fire', file=B, old='        self.hash(&mut s);', new='        (self as *const Self).hash(&mut s);', expect={'C02': 'structural hash'}),
 dict(id='export-free-vars-only', kind='fire', file=M, old='let mut ordered_variables = input_parsed.vars.clone();', new='let mut ordered_variables = input_parsed.free_vars.clone();', expect={'C09': '-r', 'C11': '-r'}),
]

CASES += [
 dict(id='parsetree-table-loop-labels-swapped', kind='fire', file=PIO, patch='bn10-07.diff', old='[("If", c), ("Then", t), ("Else", e)]', new='[("If", c), ("Then", e), ("Else", t)]', expect={'C14': 'labels of Ite'}, control=False),
]

_CTR_OLD = '''                if var.id >= var_id_counter {
                    var_id_counter = var.id + 1;
                }
'''
CASES += [
 dict(id='counter-max-form', kind='silent', file=P, old=_CTR_OLD, new='                var_id_counter = var_id_counter.max(var.id + 1);\n', checks=['C11', 'C02', 'C13']),
 dict(id='counter-cmp-max-form', kind='silent', file=P, old=_CTR_OLD, new='                var_id_counter = std::cmp::max(var_id_counter, var.id + 1);\n', checks=['C11']),
 dict(id='counter-flipped-test', kind='silent', file=P, old=_CTR_OLD, new='                if var_id_counter <= var.id {\n                    var_id_counter = var.id + 1;\n                }\n', checks=['C11']),
 dict(id='counter-renamed', kind='silent', file=P, subs=[(r'\bvar_id_counter\b', 'next_id'), (r'\bvariable_indexes\b', 'ids_by_name')], checks=['C11', 'C03']),
 dict(id='counter-fresh-let-form', kind='silent', file=P, old='''                            var_id = var_id_counter;
                            var_id_counter += 1;
''', new='''                            let fresh = var_id_counter;
                            var_id_counter = fresh + 1;
                            var_id = fresh;
''', checks=['C11']),
 dict(id='counter-max-without-plus-one', kind='fire', file=P, old=_CTR_OLD, new='                var_id_counter = var_id_counter.max(var.id);\n', expect={'C11': 'X5', 'C02': 'X5'}),
 dict(id='counter-strict-test', kind='fire', file=P, old=_CTR_OLD, new='                if var.id > var_id_counter {\n                    var_id_counter = var.id + 1;\n                }\n', expect={'C11': 'X5'}),
 dict(id='counter-fresh-after-increment', kind='fire', file=P, old='''                            var_id = var_id_counter;
                            var_id_counter += 1;
''', new='''                            var_id_counter += 1;
                            var_id = var_id_counter - 2;
''', expect={'C11': 'X5'}),
]

# fifth round of behaviour-preserving patches (bn17 exporters, bn18 CLI main, bn19 generator input/output, bn20 tokenizer and parser
# front end): all 32 silent after the generalisations of DESIGN.md 15.3; each generalisation has a must-fire twin in the same style below
_BN5 = {17: ['C07', 'C10', 'C12', 'C13', 'C14'], 18: ['C07', 'C09', 'C10', 'C11', 'C12', 'C14', 'C20'], 19: ['C15', 'C16', 'C17', 'C18'],
        20: ['C01', 'C02', 'C03', 'C04', 'C06', 'C08', 'C09', 'C10', 'C11', 'C12', 'C13', 'C20']}
_BN5_FILE = {17: IO, 18: M, 19: G, 20: P}
for _k, _checks in _BN5.items():
    for _n in range(1, 9):
        CASES.append(dict(id='bn%d-%02d' % (_k, _n), kind='silent', file=_BN5_FILE[_k], patch='bn%d-%02d.diff' % (_k, _n), checks=_checks, control=False))

CASES += [
 # bn17-03: edge filter as a local closure over a spelt-out array of (flag, child) pairs
 dict(id='dot-array-loop-children-swapped', kind='fire', file=IO, patch='bn17-03.diff', old='in [(true, l), (false, r)]', new='in [(true, r), (false, l)]', expect={'C14': 'X1'}, control=False),
 dict(id='dot-closure-filter-wrong-leaf', kind='fire', file=IO, patch='bn17-03.diff',
      old='BDD::True => {\n                        matches!(self.filter, TruthTableEntry::Any | TruthTableEntry::True)',
      new='BDD::True => {\n                        matches!(self.filter, TruthTableEntry::Any | TruthTableEntry::False)', expect={'C14': 'X2'}, control=False),
 # bn17-05: edges.extend(children.iter().enumerate().map(..))
 dict(id='parsetree-extend-map-skips-first', kind='fire', file=PIO, patch='bn17-05.diff', old='edges.extend(f.iter().enumerate()', new='edges.extend(f.iter().skip(1).enumerate()', expect={'C14': 'X7'}, control=False),
 dict(id='parsetree-extend-map-wrong-list', kind='fire', file=PIO, patch='bn17-05.diff', old='edges.extend(b.iter().enumerate()', new='edges.extend(a.iter().enumerate()', expect={'C14': 'X6'}, control=False),
 # bn17-07: NamedSymbol identified through a key() helper
 dict(id='symbol-key-helper-collapses-ids', kind='fire', file=SY, patch='bn17-07.diff', old='        self.id\n    }', new='        self.id / 2\n    }', expect={'C13': 'violation'}, control=False),
 # bn18-02: the reader is chosen by a helper with early returns
 dict(id='cli-reader-helper-ignores-file', kind='fire', file=M, patch='bn18-02.diff', old='''    if let Some(filename) = input_filename {
        let file = File::open(filename)?;
        return Ok(Box::new(BufReader::new(file)));
    }
''', new='    let _ = input_filename;\n', expect={'C10': 'input channels'}, control=False),
 # bn18-03: the ordering argument is a match on the option
 dict(id='cli-ordering-match-takes-input-file', kind='fire', file=M, patch='bn18-03.diff', old='let pre_variable_ordering = match args.ordering {', new='let pre_variable_ordering = match args.parsetree.clone() {', expect={'C11': 'ordering flow'}, control=False),
 # bn18-04: the benchmark loop counts 1..=repeat
 dict(id='cli-bench-inclusive-guard-dropped', kind='fire', file=M, patch='bn18-04.diff', old='if args.benchmark.is_some() && repeat > 0 {', new='if args.benchmark.is_some() {', expect={'C12': 'violation'}, control=False),
 # bn18-05: the result is shadowed instead of assigned
 dict(id='cli-shadowed-model-not-shown', kind='fire', file=M, patch='bn18-05.diff', old='''    let result = if args.model {
        input_parsed.env.model(result)
    } else {
        result
    };''', new='''    let modelled = if args.model {
        input_parsed.env.model(result.clone())
    } else {
        result.clone()
    };
    let _ = &modelled;''', expect={'C10': 'model before printing'}, control=False),
 dict(id='cli-shadowed-retain-condition-flipped', kind='fire', file=M, patch='bn18-05.diff', old='let result = if args.retain_choices.is_any() {', new='let result = if !args.retain_choices.is_any() {', expect={'C20': 'retain'}, control=False),
 dict(id='cli-model-before-retain', kind='fire', file=M, old='''    if !args.retain_choices.is_any() {
        result = input_parsed
            .env
            .retain_choice_bottom_up(result, args.retain_choices);
    }
''', new='''    if args.model {
        result = input_parsed.env.model(result);
    }
    if !args.retain_choices.is_any() {
        result = input_parsed
            .env
            .retain_choice_bottom_up(result, args.retain_choices);
    }
''', expect={'C10': 'X4'}, control=False),
 # bn19-04: the command line is destructured
 dict(id='clique-destructured-wrong-flag', kind='fire', file=C, patch='bn19-04.diff', old='    if all {\n', new='    if undirected {\n', expect={'C16': 'violation'}, control=False),
 # bn19-05: one read from a boxed source
 dict(id='sudoku-boxed-source-never-stdin', kind='fire', file=U, patch='bn19-05.diff', old='None => Box::new(io::stdin()),', new='None => Box::new(File::open("puzzle.txt")?),', expect={'C17': 'violation'}, control=False),
 # bn19-08: dot output through a helper taking the keyword and the arrow as text
 dict(id='graph-write-dot-wrong-arrow', kind='fire', file=G, patch='bn19-08.diff', old='write_dot(&mut writer, "graph", "--", &selection)?;', new='write_dot(&mut writer, "graph", "->", &selection)?;', expect={'C18': 'writer'}, control=False),
 dict(id='graph-write-dot-wrong-keyword', kind='fire', file=G, patch='bn19-08.diff', old='write_dot(&mut writer, "digraph", "->", &selection)?;', new='write_dot(&mut writer, "graph", "->", &selection)?;', expect={'C18': 'dot header'}, control=False),
 dict(id='graph-write-dot-reversed', kind='fire', file=G, patch='bn19-08.diff', old='writeln!(writer, "    {} {} {}", from, arrow, to)?;', new='writeln!(writer, "    {} {} {}", to, arrow, from)?;', expect={'C18': 'writer'}, control=False),
 # bn20-02: fresh ids through the entry API
 dict(id='tokenize-entry-counter-not-advanced', kind='fire', file=P, patch='bn20-02.diff', old='                                var_id_counter += 1;\n', new='', expect={'C11': 'X5', 'C02': 'X5'}, control=False),
 dict(id='tokenize-entry-stale-id', kind='fire', file=P, patch='bn20-02.diff', old='''                                let fresh_id = var_id_counter;
                                var_id_counter += 1;
                                fresh_id''', new='''                                var_id_counter += 1;
                                var_id_counter - 2''', expect={'C11': 'X5'}, control=False),
]

CASES += [
 # bn20-05: extract_vars as a loop with a seen-set
 dict(id='extract-vars-loop-no-dedup', kind='fire', file=P, patch='bn20-05.diff', old='                if seen.insert(v) {\n                    vars.push(v.clone());\n                }',
      new='                seen.insert(v);\n                vars.push(v.clone());', expect={'C11': 'extract_vars'}, control=False),
 dict(id='extract-vars-loop-keeps-repeats-only', kind='fire', file=P, patch='bn20-05.diff', old='if seen.insert(v) {', new='if !seen.insert(v) {', expect={'C11': 'extract_vars'}, control=False),
 # bn20-08: filter spellings as one matches! over (self, s)
 dict(id='filter-spelling-tuple-swapped', kind='fire', file=TT, patch='bn20-08.diff', old='(Self::True, "true" | "True" | "t" | "T" | "1")', new='(Self::True, "true" | "True" | "t" | "T" | "0")', expect={'C10': 'violation', 'C20': 'violation'}, control=False),
]

CASES += [
 # the content of each input channel reaches the parser whole (C10: "the same whether the formula arrives via --evaluate, a file or stdin")
 dict(id='cli-file-channel-truncated', kind='fire', file=M, old='        Box::new(BufReader::new(file)) as Box<dyn BufRead>\n    } else {\n        Box::new(BufReader::new(io::stdin()))',
      new='        Box::new(BufReader::new(io::Read::take(file, 65536))) as Box<dyn BufRead>\n    } else {\n        Box::new(BufReader::new(io::stdin()))', expect={'C10': 'input channel contents'}, control=False),
 dict(id='cli-stdin-locked', kind='silent', file=M, old='Box::new(BufReader::new(io::stdin())) as Box<dyn BufRead>', new='Box::new(BufReader::new(io::stdin().lock())) as Box<dyn BufRead>', checks=['C10', 'C07', 'C12'], control=False),
 dict(id='cli-evaluate-channel-first-line', kind='fire', file=M, old='Box::new(BufReader::new(inline_str.as_bytes())) as Box<dyn BufRead>',
      new='Box::new(BufReader::new(inline_str.lines().next().unwrap_or("").as_bytes())) as Box<dyn BufRead>', expect={'C10': 'input channel'}, control=False),
]

# sixth round of behaviour-preserving patches (bn21 BDD operations, bn22 parser and evaluator, bn23 n_queens / sudoku loops, bn24 sets,
# filter spellings, plotting and the printers): all 32 silent after the generalisations of DESIGN.md 15.4, each with must-fire twins below
_BN6 = {21: ['C01', 'C02', 'C03', 'C04', 'C05', 'C06', 'C07', 'C09', 'C12', 'C13', 'C19', 'C20'], 22: ['C01', 'C03', 'C04', 'C05', 'C06', 'C08', 'C09', 'C10', 'C11', 'C12'],
        23: ['C15', 'C17'], 24: ['C07', 'C09', 'C10', 'C11', 'C12', 'C19', 'C20']}
_BN6_FILE = {21: B, 22: P, 23: Q, 24: M}
for _k, _checks in _BN6.items():
    for _n in range(1, 9):
        CASES.append(dict(id='bn%d-%02d' % (_k, _n), kind='silent', file=_BN6_FILE[_k], patch='bn%d-%02d.diff' % (_k, _n), checks=_checks, control=False))

CASES += [
 dict(id='fp-while-applies-to-start', kind='fire', file=B, patch='bn21-04.diff', old='            s = snew;\n            snew = t(Rc::clone(&s));', new='            s = snew;\n            snew = t(Rc::clone(&a));', expect={'C06': 'FP'}, control=False),
 dict(id='count-fnptr-wrong-bound', kind='fire', file=B, patch='bn21-08.diff', old='self.mk_const(cmp(n))', new='self.mk_const(cmp(n + 1))', expect={'C05': 'violation'}, control=False),
 dict(id='queens-stepped-range-short', kind='fire', file=Q, patch='bn23-01.diff', old='(column..n * n).step_by(n)', new='(column..n * n - n).step_by(n)', expect={'C15': 'N'}, control=False),
 dict(id='queens-shifted-range-short', kind='fire', file=Q, patch='bn23-01.diff', old='first_cell..(first_cell + n)', new='first_cell..(first_cell + n - 1)', expect={'C15': 'N'}, control=False),
 dict(id='queens-collected-list-skips-first', kind='fire', file=Q, patch='bn23-03.diff', old='let cells: String = (0..(n - i))\n            .map(|j| format!("v_{},", i + (j * (n + 1))))', new='let cells: String = (1..(n - i))\n            .map(|j| format!("v_{},", i + (j * (n + 1))))', expect={'C15': 'N'}, control=False),
 dict(id='queens-collected-list-wrong-relation', kind='fire', file=Q, patch='bn23-03.diff', old='writeln!(writer, "[{}] <= 1 &", cells)?;', new='writeln!(writer, "[{}] = 1 &", cells)?;', expect={'C15': 'N'}, control=False),
 dict(id='queens-const-text-wrong-relation', kind='fire', file=Q, patch='bn23-04.diff', old='const AT_MOST_ONE: &str = "] <= 1 &";', new='const AT_MOST_ONE: &str = "] = 1 &";', expect={'C15': 'N'}, control=False),
 dict(id='sudoku-hoisted-column-short', kind='fire', file=U, patch='bn23-08.diff', old='let column: Vec<usize> = (0..square)', new='let column: Vec<usize> = (1..square)', expect={'C17': 'U'}, control=False),
 dict(id='sudoku-flatmap-wrong-stride', kind='fire', file=U, patch='bn23-06.diff', old='down * square + right', new='down * root + right', expect={'C17': 'U'}, control=False),
 dict(id='sudoku-flatmap-short-inner', kind='fire', file=U, patch='bn23-06.diff', old='.flat_map(|down| (0..root)', new='.flat_map(|down| (1..root)', expect={'C17': 'violation'}, control=False),
 dict(id='sudoku-hint-to-digit-hex', kind='fire', file=U, patch='bn23-05.diff', old='ch.to_digit(10)', new='ch.to_digit(16)', expect={'C17': 'hints'}, control=False),
 dict(id='sudoku-hint-nth-off-by-one', kind='fire', file=U, patch='bn23-05.diff', old='.nth(i)', new='.nth(i + 1)', expect={'C17': 'hints'}, control=False),
 dict(id='sudoku-manual-join-wrong-guard', kind='fire', file=U, patch='bn23-07.diff', old='if j > 1 {', new='if j > 2 {', expect={'C17': 'violation'}, control=False),
 dict(id='sudoku-manual-join-short', kind='fire', file=U, patch='bn23-07.diff', old='for j in 1..=square {', new='for j in 1..square {', expect={'C17': 'U'}, control=False),
 dict(id='table-split-leaf-arms-wrong-filter', kind='fire', file=M, patch='bn24-08.diff', old='leaf @ BDD::True if !filter.is_false()', new='leaf @ BDD::True if !filter.is_true()', expect={'C10': 'X2'}, control=False),
 dict(id='table-widths-len-plus-one', kind='fire', file=M, patch='bn24-05.diff', old='            widths[labels.len()]\n', new='            widths[labels.len() + 1]\n', expect={'C12': 'violation'}, control=False),
 dict(id='set-contains-into-inner-or', kind='fire', file=S, patch='bn24-01.diff', old='self.env.and(current, Rc::clone(&element)) == element', new='self.env.or(current, Rc::clone(&element)) == element', expect={'C19': 'contains'}, control=False),
 dict(id='parser-generic-list-wrong-closing', kind='fire', file=P, patch='bn22-07.diff', old='Self::parse_comma_separated(tokens, SymbolicBDDToken::Hash, Self::parse_variable_name)', new='Self::parse_comma_separated(tokens, SymbolicBDDToken::Comma, Self::parse_variable_name)', expect={'C08': 'violation'}, control=False),
 dict(id='parser-generic-list-wrong-item', kind='fire', file=P, patch='bn22-07.diff', old='            SymbolicBDDToken::CloseSquare,\n            Self::parse_sub_formula,', new='            SymbolicBDDToken::CloseSquare,\n            Self::parse_simple_sub_formula,', expect={'C08': 'violation'}, control=False),
 dict(id='parser-expect-inverted', kind='fire', file=P, patch='bn22-03.diff', old='if found == Some(&token) {', new='if found != Some(&token) {', expect={'C08': 'helper'}, control=False),
 dict(id='parser-check-any-token', kind='fire', file=P, patch='bn22-03.diff', old='if upcoming == Some(&token) {', new='if upcoming.is_some() {', expect={'C08': 'helper'}, control=False),
 dict(id='parser-operator-predicate-misses-iff', kind='fire', file=P, patch='bn22-01.diff', old='                | Self::ImpliesInv\n                | Self::Iff\n', new='                | Self::ImpliesInv\n', expect={'C08': 'violation', 'C03': 'look-ahead'}, control=False),
 dict(id='parser-inlined-not-takes-sub', kind='fire', file=P, patch='bn22-02.diff', old='let operand = Self::parse_simple_sub_formula(tokens)?;', new='let operand = Self::parse_sub_formula(tokens)?;', expect={'C08': 'violation'}, control=False),
 # new rules found through the round-6 seeds, each with a hand-written instance
 dict(id='cli-true-vars-line-conditional', kind='fire', file=M, old='            println!("{};", vars_str.join(", "));', new='            if !vars_str.is_empty() {\n                println!("{};", vars_str.join(", "));\n            }', expect={'C10': 'line per satisfying row'}, control=False),
 dict(id='cli-true-vars-shows-false', kind='fire', file=M, old='                } else if *v == TruthTableEntry::Any {', new='                } else if *v == TruthTableEntry::False {', expect={'C10': 'names on the line'}, control=False),
 dict(id='countable-usize-saturating-bound', kind='fire', file=P, patch='../../seeded/C10-r6b/patch.diff', expect={'C05': 'LessThan', 'C10': 'LessThan'}, control=False),
 dict(id='free-vars-extra-disjunct', kind='fire', file=P, old='result.raw2free.push(if result.var_is_free(&result.bdd, v) {', new='result.raw2free.push(if n > 64 || result.var_is_free(&result.bdd, v) {', expect={'C09': 'free_vars', 'C12': 'free_vars'}, control=False),
 dict(id='parsetree-fixedpoint-labels-swapped', kind='fire', file=PIO, old='dot::LabelText::label(format!("GFP {}", v))', new='dot::LabelText::label(format!("LFP  {}", v))', expect={'C14': 'X10'}, control=False),
 dict(id='graph-output-opened-first', kind='fire', file=G, patch='../../seeded/C18-r6c/patch.diff', expect={'C18': 'output opened before'}, control=False),
 dict(id='dot-node-id-shows-variable', kind='fire', file=IO, patch='../../seeded/C12-r6a/patch.diff', expect={'C12': 'panic'}, control=False),
 dict(id='replace-var-skips-definitions', kind='fire', file=P, patch='../../seeded/C06-r6c/patch.diff', expect={'C06': 'XR'}, control=False),
 dict(id='eval-caches-definitions', kind='fire', file=P, patch='../../seeded/C13-r6c/patch.diff', expect={'C13': 'XR'}, control=False),
]

CASES += [
 # rules added after the round-7 seeds, each instantiated by the seed that showed the gap
 dict(id='bench-presized-by-option', kind='fire', file=M, patch='../../seeded/C12-r7c/patch.diff', expect={'C12': 'capacity'}, control=False),
 dict(id='eval-calls-var-is-free-on-iterates', kind='fire', file=P, patch='../../seeded/C12-r7a/patch.diff', expect={'C12': 'panic'}, control=False),
 dict(id='dot-node-id-from-hash', kind='fire', file=IO, patch='../../seeded/C13-r7c/patch.diff', expect={'C13': 'node identity', 'C14': 'node identity'}, control=False),
 dict(id='fp-stops-on-table-size', kind='fire', file=B, patch='../../seeded/C13-r7a/patch.diff', expect={'C13': 'FP'}, control=False),
 dict(id='dot-export-before-model', kind='fire', file=M, patch='../../seeded/C14-r7a/patch.diff', expect={'C14': 'X4'}, control=False),
 dict(id='fixed-point-shortcut-misses-lists', kind='fire', file=P, patch='../../seeded/C09-r7b/patch.diff', expect={'C09': 'violation'}, control=False),
 dict(id='presized-by-length', kind='silent', file=M, old='let mut exec_times = Vec::new();', new='let mut exec_times = Vec::with_capacity(input_parsed.vars.len());', checks=['C12', 'C10'], control=False),
]

CASES += [
 dict(id='tokenize-reads-line-by-line', kind='fire', file=P, patch='../../seeded/C08-r7c/patch.diff', expect={'C08': 'input text', 'C01': 'input text'}, control=False),
 dict(id='single-name-ordering-dropped', kind='fire', file=P, patch='../../seeded/C11-r7c/patch.diff', expect={'C11': 'ordering flow'}, control=False),
 dict(id='graph-writer-not-flushed', kind='fire', file=G, patch='../../seeded/C18-r7b/patch.diff', expect={'C18': 'not flushed'}, control=False),
 dict(id='queens-writer-flush-result-dropped', kind='fire', file=Q, old='    writer.flush()?;', new='    let _ = writer.flush();', expect={'C15': 'not flushed'}, control=False),
 dict(id='evaluator-shortcut-wrong-for-inverse-implication', kind='fire', file=P, patch='../../seeded/C02-r7c/patch.diff', expect={'C02': 'ImpliesInv'}, control=False),
 dict(id='tokenize-io-read-to-string', kind='silent', file=P, old='        contents.read_to_string(&mut src)?;\n', new='        src = io::read_to_string(&mut *contents)?;\n', checks=['C08'], control=False),
]

# seventh round of behaviour-preserving patches, aimed at the places the rules of rounds 6 and 7 read (bn25 main() of the CLI, bn26 tokenizer
# / ParsedFormula / the Reference arms, bn27 the Labeller impls and the generators' input/output plumbing): all 24 silent (DESIGN.md 15.5)
_BN7 = {25: ['C07', 'C09', 'C10', 'C11', 'C12', 'C14', 'C20'], 26: ['C01', 'C02', 'C03', 'C06', 'C08', 'C09', 'C10', 'C11', 'C12', 'C13'], 27: ['C12', 'C13', 'C14', 'C15', 'C16', 'C17', 'C18']}
_BN7_FILE = {25: M, 26: P, 27: IO}
for _k, _checks in _BN7.items():
    for _n in range(1, 9):
        CASES.append(dict(id='bn%d-%02d' % (_k, _n), kind='silent', file=_BN7_FILE[_k], patch='bn%d-%02d.diff' % (_k, _n), checks=_checks, control=False))

CASES += [
 dict(id='bench-while-loop-guard-dropped', kind='fire', file=M, patch='bn25-03.diff', old='if args.benchmark.is_some() && repeat > 0 {', new='if args.benchmark.is_some() {', expect={'C12': 'violation'}, control=False),
 dict(id='retain-match-wrong-arm', kind='fire', file=M, patch='bn25-04.diff', old='        TruthTableEntry::Any => {}\n        retained @ (TruthTableEntry::True | TruthTableEntry::False) => {', new='        TruthTableEntry::True => {}\n        retained @ (TruthTableEntry::Any | TruthTableEntry::False) => {', expect={'C20': 'retain'}, control=False),
 dict(id='true-vars-string-line-shows-false', kind='fire', file=M, patch='bn25-07.diff', old='                } else {\n                    continue;\n                };', new='                } else {\n                    "!"\n                };', expect={'C10': 'names on the line'}, control=False),
 dict(id='tokenize-fold-counter-not-above', kind='fire', file=P, patch='bn26-02.diff', old='                var.id + 1\n', new='                var.id\n', expect={'C11': 'X5'}, control=False),
 dict(id='tokenize-unwrap-or-else-no-increment', kind='fire', file=P, patch='bn26-03.diff', old='                            var_id_counter += 1;\n', new='', expect={'C11': 'X5'}, control=False),
 dict(id='free-vars-chain-inverted-filter', kind='fire', file=P, patch='bn26-06.diff', old='.filter(|(_, free)| **free)', new='.filter(|(_, free)| !**free)', expect={'C09': 'free_vars'}, control=False),
 dict(id='extract-vars-selector-other-token', kind='fire', file=P, patch='bn26-07.diff', old='            .filter_map(SymbolicBDDToken::as_var)\n            .unique()', new='            .filter_map(SymbolicBDDToken::as_var)\n            .dedup()', expect={'C11': 'extract_vars'}, control=False),
 dict(id='var-is-free-array-any-misses-condition', kind='fire', file=P, patch='bn26-08.diff', old='[a, b, c].into_iter().any(', new='[b, c].into_iter().any(', expect={'C09': 'violation'}, control=False),
 dict(id='dot-walker-leaf-not-deduplicated', kind='fire', file=IO, patch='bn27-02.diff', old='''                self.collect_nodes(r, seen, ordered);
            }''', new='''                self.collect_nodes(r, seen, ordered);
                ordered.push(node.clone());
            }''', expect={'C14': 'duplicates'}, control=False),
 dict(id='parsetree-side-table-same-list', kind='fire', file=PIO, patch='bn27-03.diff', old='[("L", a), ("R", b)]', new='[("L", a), ("R", a)]', expect={'C14': 'X6'}, control=False),
 dict(id='fixed-id-helper-bad-constant', kind='fire', file=IO, patch='bn27-01.diff', old='fixed_id("bdd_graph")', new='fixed_id("bdd graph")', expect={'C12': 'panic'}, control=False),
 dict(id='sudoku-fs-read-first-line', kind='fire', file=U, patch='bn27-06.diff', old='fs::read_to_string(input)?', new='fs::read_to_string(input)?.lines().next().unwrap_or("").to_string()', expect={'C17': 'violation'}, control=False),
 dict(id='graph-zip-args-swapped', kind='fire', file=G, patch='bn27-07.diff', old='generate_graph(vertices, edges, args.undirected)?', new='generate_graph(edges, vertices, args.undirected)?', expect={'C18': 'generate_graph'}, control=False),
 # the two round-7 seeds of C15 and the defect they led to
 dict(id='queens-small-board-shortcut', kind='fire', file=Q, patch='../../seeded/C15-r7a/patch.diff', expect={'C15': 'early return'}, control=False),
 dict(id='queens-header-debug-args', kind='fire', file=Q, patch='../../seeded/C15-r7c/patch.diff', expect={'C15': 'remark'}, control=False),
 dict(id='sudoku-header-echoes-raw-text', kind='fire', file=U, old='        puzzle_input.replace(\'"\', "\'")\n', new='        puzzle_input\n', expect={'C17': 'remark'}, control=False),
]

CASES += [
 # rules added after the round-8 seeds
 dict(id='formula-list-deduplicated', kind='fire', file=P, patch='../../seeded/C07-r8a/patch.diff', expect={'C07': 'A3'}, control=False),
 dict(id='row-printer-joins-cells', kind='fire', file=M, patch='../../seeded/C10-r8a/patch.diff', expect={'C10': 'X12'}, control=False),
 dict(id='formulas-share-a-default-environment', kind='fire', file=P, patch='../../seeded/C11-r8c/patch.diff', expect={'C11': 'fresh environment', 'C13': 'fresh environment'}, control=False),
 dict(id='duplicates-counts-representatives', kind='fire', file=B, patch='../../seeded/C13-r8b/patch.diff', expect={'C13': 'E9'}, control=False),
 dict(id='parsetree-edges-deduplicated', kind='fire', file=PIO, patch='../../seeded/C14-r8a/patch.diff', expect={'C14': 'edges de-duplicated'}, control=False),
 dict(id='render-dot-buffered-unflushed', kind='fire', file=IO, patch='../../seeded/C14-r8b/patch.diff', expect={'C14': 'buffered writer'}, control=False),
 dict(id='retain-rebuilds-outside-table', kind='fire', file=B, patch='../../seeded/C14-r8c/patch.diff', expect={'C14': 'E1'}, control=False),
 dict(id='sudoku-empty-text-shortcut', kind='fire', file=U, patch='../../seeded/C17-r8c/patch.diff', expect={'C17': 'early return'}, control=False),
 dict(id='colour-count-capped', kind='fire', file=G, patch='../../seeded/C18-r8a/patch.diff', expect={'C18': 'colour range'}, control=False),
 dict(id='table-width-by-format-argument', kind='fire', file=M, old='        print!(" {} |", pad_right(label, widths[i]));', new='        print!(" {:w$} |", label, w = widths[i]);', expect={'C12': 'format width'}, control=False),
 dict(id='table-width-capped-format-argument', kind='silent', file=M, old='        print!(" {} |", pad_right(label, widths[i]));', new='        print!(" {:w$} |", label, w = widths[i].min(200));', checks=['C12'], control=False),
]

# eighth round of behaviour-preserving patches (bn28 the table / listing printers of the CLI, bn29 the generators, bn30 the parser written in
# other styles: let-else on peek(), token -> Option<operator> helpers, local closures, `kw @ (A | B)`, tuple-returning helpers, next_if_eq,
# Result::map): all 24 silent after the generalisations of DESIGN.md 15.6
_BN8 = {28: ['C07', 'C09', 'C10', 'C11', 'C12'], 29: ['C15', 'C16', 'C17', 'C18'], 30: ['C03', 'C04', 'C05', 'C06', 'C08', 'C11']}
_BN8_FILE = {28: M, 29: G, 30: P}
_BN8_KNOWN = {}
for _k, _checks in _BN8.items():
    for _n in range(1, 9):
        _id = 'bn%d-%02d' % (_k, _n)
        if _id in _BN8_KNOWN: CASES.append(dict(id=_id, kind='known-alarm', file=_BN8_FILE[_k], patch=_id + '.diff', checks=_checks, control=False, why=_BN8_KNOWN[_id]))
        else: CASES.append(dict(id=_id, kind='silent', file=_BN8_FILE[_k], patch=_id + '.diff', checks=_checks, control=False))

CASES += [
 # every generalisation of round 8 with a twin that must fire
 dict(id='table-cells-chain-index-shifted', kind='fire', file=M, patch='bn28-04.diff', old='pad_right(cell, widths[i])', new='pad_right(cell, widths[i + 1])', expect={'C12': 'violation'}, control=False),
 dict(id='table-cells-chain-outcome-first', kind='fire', file=M, patch='bn28-04.diff', old='''    let cells = labels
        .iter()
        .map(ToString::to_string)
        .chain(std::iter::once(outcome.to_string()));''', new='''    let cells = std::iter::once(outcome.to_string()).chain(labels.iter().map(ToString::to_string));''', expect={'C10': 'violation'}, control=False),
 dict(id='true-vars-guards-print-at-false', kind='fire', file=M, patch='bn28-03.diff', old='if !matches!(root.as_ref(), BDD::True) {', new='if !matches!(root.as_ref(), BDD::False) {', expect={'C10': 'True leaf'}, control=False),
 dict(id='true-vars-guards-descent-swapped', kind='fire', file=M, patch='bn28-03.diff', old='l_vals[parsed.to_free_index(s)] = TruthTableEntry::True;', new='l_vals[parsed.to_free_index(s)] = TruthTableEntry::False;', expect={'C10': 'X1'}, control=False),
 dict(id='pad-loop-inclusive-bound', kind='fire', file=M, patch='bn28-01.diff', old='while shown < width {', new='while shown <= width {', expect={'C12': 'Overflow'}, control=False),
 dict(id='graph-duplicate-flag-or', kind='fire', file=G, patch='bn29-01.diff', old='undirected && edges.contains(', new='undirected || edges.contains(', expect={'C18': 'violation'}, control=False),
 dict(id='graph-candidates-helper-truncates', kind='fire', file=G, patch='bn29-02.diff', old='''    if let Some(edges) = edges.get(0..num_edges) {
        Ok(edges.to_vec())
    } else {
        Err(anyhow::anyhow!(
            "Cannot satisfy the desired amount of edges"
        ))
    }
}

/// Lists''', new='''    edges.truncate(num_edges);
    Ok(edges)
}

/// Lists''', expect={'C18': 'refuse'}, control=False),
 dict(id='graph-colour-binding-other-count', kind='fire', file=G, patch='bn29-03.diff', old='augment_colors(&selection, num_colors)?,', new='augment_colors(&selection, num_colors + 1)?,', expect={'C18': '--colors'}, control=False),
 dict(id='graph-colour-binding-uncoloured-written', kind='fire', file=G, patch='bn29-03.diff', subs=[(r'let selection = match args\.colors \{', 'let _coloured = match args.colors {'), (r'None => selection,', 'None => selection.clone(),')], expect={'C18': 'violation'}, control=False),
 dict(id='colour-endpoint-loop-same-end', kind='fire', file=G, patch='bn29-04.diff', old='[&edge.0, &edge.1]', new='[&edge.0, &edge.0]', expect={'C18': 'product vertices'}, control=False),
 dict(id='clique-second-pass-one-endpoint', kind='fire', file=C, patch='bn29-05.diff', old='        vertices.insert(to.clone());\n', new='', expect={'C16': 'vertex set'}, control=False),
 dict(id='clique-excluded-flag-misses-complement', kind='fire', file=C, patch='bn29-06.diff', old='''                        && (edges.contains(&(v2.to_string(), v1.to_string()))
                            || edges_complement.contains(&(v2.to_string(), v1.to_string()))));''', new='''                        && edges_complement.contains(&(v2.to_string(), v1.to_string())));''', expect={'C16': 'violation'}, control=False),
 dict(id='sudoku-split-ascii-whitespace', kind='fire', file=U, patch='bn29-07.diff', old='puzzle_input.split_whitespace().collect()', new='puzzle_input.split_ascii_whitespace().collect()', expect={'C17': 'whitespace'}, control=False),
 dict(id='queens-output-map-open-untruncated', kind='fire', file=Q, patch='bn29-08.diff', old='output.map(File::create).transpose()?', new='output.map(|p| std::fs::OpenOptions::new().write(true).create(true).open(p)).transpose()?', expect={'C15': 'truncat'}, control=False),
 dict(id='parser-letelse-true-builds-false', kind='fire', file=P, patch='bn30-01.diff', old='''                expect(SymbolicBDDToken::True, tokens)?;
                Ok(Self::True)''', new='''                expect(SymbolicBDDToken::True, tokens)?;
                Ok(Self::False)''', expect={'C08': 'A3'}, control=False),
 dict(id='parser-operator-helper-wrong-row', kind='fire', file=P, patch='bn30-02.diff', old='SymbolicBDDToken::Nor => Some(BinaryOperator::Nor),', new='SymbolicBDDToken::Nor => Some(BinaryOperator::Nand),', expect={'C03': 'Nor'}, control=False),
 dict(id='parser-operator-helper-missing-row', kind='fire', file=P, patch='bn30-02.diff', old='            SymbolicBDDToken::Iff => Some(BinaryOperator::Iff),\n', new='', expect={'C03': 'Iff'}, control=False),
 dict(id='parser-ite-closure-parts-swapped', kind='fire', file=P, patch='bn30-03.diff', old='''        let then = parse_part(SymbolicBDDToken::Then)?;
        let else_ = parse_part(SymbolicBDDToken::Else)?;''', new='''        let else_ = parse_part(SymbolicBDDToken::Else)?;
        let then = parse_part(SymbolicBDDToken::Then)?;''', expect={'C08': 'violation'}, control=False),
 dict(id='parser-fixpoint-keyword-inverted', kind='fire', file=P, patch='bn30-04.diff', old='let initial = matches!(keyword, SymbolicBDDToken::GFP);', new='let initial = matches!(keyword, SymbolicBDDToken::LFP);', expect={'C06': 'violation'}, control=False),
 dict(id='parser-quantified-part-wrong-kind', kind='fire', file=P, patch='bn30-05.diff', old='Ok(Self::Quantifier(QuantifierType::Exists, vars, formula))', new='Ok(Self::Quantifier(QuantifierType::Forall, vars, formula))', expect={'C04': 'Quantifier'}, control=False),
 dict(id='parser-list-next-if-eq-inverted', kind='fire', file=P, patch='bn30-06.diff', old='if tokens.next_if_eq(&&SymbolicBDDToken::Comma).is_none() {', new='if tokens.next_if_eq(&&SymbolicBDDToken::Comma).is_some() {', expect={'C08': 'violation'}, control=False),
 dict(id='parser-counting-closure-wrong-row', kind='fire', file=P, patch='bn30-07.diff', old='SymbolicBDDToken::Geq => Some(CountableOperator::AtLeast),', new='SymbolicBDDToken::Geq => Some(CountableOperator::AtMost),', expect={'C05': 'Geq'}, control=False),
 dict(id='parser-negation-map-drops-not', kind='fire', file=P, patch='bn30-08.diff', old='.map(|negated| Self::Not(Box::new(negated)))', new='.map(|negated| negated)', expect={'C08': 'Not'}, control=False),
 dict(id='parser-result-inspected-not-mapped', kind='fire', file=P, patch='bn30-08.diff', old='expect(SymbolicBDDToken::Eof, tokens).map(|()| result)', new='expect(SymbolicBDDToken::Eof, tokens).map(|()| result.clone()).or(Ok(result))', expect={'C08': 'A1'}, control=False),
]

# ninth round of behaviour-preserving patches (bn31 the ROBDD core, bn32 the CLI program, bn33 the evaluation half of the parser and the
# exporters, bn34 the generators, bn35 the parser once more): 39 of 40 silent after the generalisations of DESIGN.md 15.7, one known alarm
_BN9 = {31: ['C01', 'C02', 'C03', 'C05', 'C07', 'C13', 'C19', 'C20'], 32: ['C07', 'C09', 'C10', 'C11', 'C12', 'C14', 'C20'], 33: ['C07', 'C09', 'C10', 'C11', 'C12', 'C13', 'C14'],
        34: ['C15', 'C16', 'C17', 'C18'], 35: ['C01', 'C03', 'C04', 'C05', 'C06', 'C08', 'C11']}
_BN9_FILE = {31: B, 32: M, 33: P, 34: G, 35: P}
_BN9_KNOWN = {'bn34-03': 'max_clique_gen writes its three vertex lists through a new helper with a hand-written separator loop: the clique text rules compare the pieces of text main emits with a reference bag of templates and count the uses of the vertex collection in main; a list assembled element by element in a helper has other pieces'}
for _k, _checks in _BN9.items():
    for _n in range(1, 9):
        _id = 'bn%d-%02d' % (_k, _n)
        if _id in _BN9_KNOWN: CASES.append(dict(id=_id, kind='known-alarm', file=_BN9_FILE[_k], patch=_id + '.diff', checks=_checks, control=False, why=_BN9_KNOWN[_id]))
        else: CASES.append(dict(id=_id, kind='silent', file=_BN9_FILE[_k], patch=_id + '.diff', checks=_checks, control=False))

CASES += [
 # every generalisation of round 9 with a twin that must fire
 dict(id='env-new-array-loop-misses-false', kind='fire', file=B, patch='bn31-01.diff', old='for terminal in [BDD::True, BDD::False] {', new='for terminal in [BDD::True, BDD::True] {', expect={'C02': 'violation'}, control=False),
 dict(id='mk-choice-inline-simplify-dropped', kind='fire', file=B, patch='bn31-02.diff', old='''        let ins = if true_subtree.as_ref() == false_subtree.as_ref() {
            true_subtree
        } else {
            Rc::new(BDD::Choice(true_subtree, symbol, false_subtree))
        };''', new='''        let ins = Rc::new(BDD::Choice(true_subtree, symbol, false_subtree));''', expect={'C02': 'E2'}, control=False),
 dict(id='mk-choice-inline-simplify-inverted', kind='fire', file=B, patch='bn31-02.diff', old='if true_subtree.as_ref() == false_subtree.as_ref() {', new='if true_subtree.as_ref() != false_subtree.as_ref() {', expect={'C02': 'E2'}, control=False),
 dict(id='main-destructured-model-inverted', kind='fire', file=M, patch='bn32-01.diff', old='    if model {', new='    if !model {', expect={'C07': 'model'}, control=False),
 dict(id='main-destructured-retain-condition-dropped', kind='fire', file=M, patch='bn32-01.diff', old='    if !retain_choices.is_any() {', new='    if retain_choices.is_any() {', expect={'C20': 'retain'}, control=False),
 dict(id='bench-option-result-default-shown', kind='fire', file=M, patch='bn32-03.diff', old='    (evaluated, tick.elapsed())', new='    let _ = evaluated;\n    (Rc::default(), tick.elapsed())', expect={'C10': 'X4'}, control=False),
 dict(id='vars-handle-line-only-when-named', kind='fire', file=M, patch='bn32-04.diff', old='            if let Err(e) = writeln!(out, "{};", vars_str.join(", ")) {\n                panic!("failed printing to stdout: {e}");\n            }', new='            if !vars_str.is_empty() {\n                if let Err(e) = writeln!(out, "{};", vars_str.join(", ")) {\n                    panic!("failed printing to stdout: {e}");\n                }\n            }', expect={'C10': 'line per satisfying row'}, control=False),
 dict(id='vars-handle-panic-elsewhere', kind='fire', file=M, patch='bn32-04.diff', old='            // like println!, a failed write panics\n', new='            if vars_str.len() > 64 {\n                panic!("too many variables to list");\n            }\n', expect={'C12': 'panic'}, control=False),
 dict(id='with-entry-index-shifted', kind='fire', file=M, patch='bn32-07.diff', old='    bound[index] = entry;', new='    bound[index + 1] = entry;', expect={'C12': 'violation'}, control=False),
 dict(id='with-entry-false-branch-records-true', kind='fire', file=M, patch='bn32-07.diff', old='let r_vals = with_entry(&values, parsed.to_free_index(s), TruthTableEntry::False);', new='let r_vals = with_entry(&values, parsed.to_free_index(s), TruthTableEntry::True);', expect={'C10': 'X1'}, control=False),
 dict(id='from-tokens-unsorted-vars', kind='fire', file=P, patch='bn33-03.diff', old='        vars.sort_by(|a, b| a.id.cmp(&b.id));\n', new='        vars.reverse();\n', expect={'C10': 'free_vars order'}, control=False),
 dict(id='parse-tree-collector-skips-else', kind='fire', file=PIO, patch='bn33-05.diff', old='                Self::collect_nodes(e, nodes);\n', new='', expect={'C14': 'X6'}, control=False),
 dict(id='queens-while-diagonal-short', kind='fire', file=Q, patch='bn34-01.diff', old='        while j <= i {', new='        while j < i {', expect={'C15': 'violation'}, control=False),
 dict(id='queens-square-wrong-column', kind='fire', file=Q, patch='bn34-02.diff', old='''                row: j,
                column: i + j,''', new='''                row: j,
                column: i,''', expect={'C15': 'violation'}, control=False),
 dict(id='clique-pair-chain-keeps-equal-pairs', kind='fire', file=C, patch='bn34-04.diff', old='.filter(|(v1, v2)| v1 != v2);', new='.filter(|(v1, v2)| v1 == v2);', expect={'C16': 'violation'}, control=False),
 dict(id='sudoku-helper-rows-written-as-columns', kind='fire', file=U, patch='bn34-05.diff', old='write_once_among(&mut writer, (0..square).map(|j| i * square + j), k)?;', new='write_once_among(&mut writer, (0..square).map(|j| j * square + i), k)?;', expect={'C17': 'row'}, control=False),
 dict(id='sudoku-nonet-index-both-remainders', kind='fire', file=U, patch='bn34-06.diff', old='let (i, j) = (nonet / root, nonet % root);', new='let (i, j) = (nonet % root, nonet % root);', expect={'C17': 'box'}, control=False),
 dict(id='graph-extend-directed-half', kind='fire', file=G, patch='bn34-08.diff', old='.filter(|&(j, _)| i != j)', new='.filter(|&(j, _)| i < j)', expect={'C18': 'violation'}, control=False),
 dict(id='parser-operator-table-wrong-row', kind='fire', file=P, patch='bn35-01.diff', old='(SymbolicBDDToken::Nor, BinaryOperator::Nor),', new='(SymbolicBDDToken::Nor, BinaryOperator::Nand),', expect={'C03': 'Nor'}, control=False),
 dict(id='parser-operator-table-missing-row', kind='fire', file=P, patch='bn35-01.diff', old='const BINARY_OPERATOR_TOKENS: [(SymbolicBDDToken, BinaryOperator); 8] = [\n    (SymbolicBDDToken::And, BinaryOperator::And),\n', new='const BINARY_OPERATOR_TOKENS: [(SymbolicBDDToken, BinaryOperator); 7] = [\n', expect={'C03': 'And'}, control=False),
 dict(id='parser-countable-bound-lists-swapped', kind='fire', file=P, patch='bn35-02.diff', old='Self::CountableVariable(operator, leftlist, rightlist)', new='Self::CountableVariable(operator, rightlist, leftlist)', expect={'C05': 'CountableVariable', 'C08': 'CountableVariable'}, control=False),
 dict(id='parser-variable-list-first-not-collected', kind='fire', file=P, patch='bn35-04.diff', old='''        vars.push(Self::parse_variable_name(tokens)?);

        // every further''', new='''        Self::parse_variable_name(tokens)?;

        // every further''', expect={'C04': 'list contents', 'C08': 'list contents'}, control=False),
 dict(id='parser-expect-filter-inverted', kind='fire', file=P, patch='bn35-05.diff', old='''    let found = tokens.next();

    found
        .filter(|t| **t == token)''', new='''    let found = tokens.next();

    found
        .filter(|t| **t != token)''', expect={'C08': 'helper shape'}, control=False),
 dict(id='parser-peeked-true-builds-false', kind='fire', file=P, patch='bn35-07.diff', old='''                tokens.next();
                Ok(Self::True)''', new='''                tokens.next();
                Ok(Self::False)''', expect={'C08': 'A3'}, control=False),
 dict(id='parser-peeked-var-not-consumed', kind='fire', file=P, patch='bn35-07.diff', old='''            Some(SymbolicBDDToken::Var(var)) => {
                tokens.next();''', new='''            Some(SymbolicBDDToken::Var(var)) => {''', expect={'C08': 'violation'}, control=False),
 # a Result looked at instead of propagated is fine exactly when the callee refuses cleanly (bn35-08); these must still fire
 dict(id='negation-operand-failure-swallowed', kind='fire', file=P, old='        let sf = Self::parse_simple_sub_formula(tokens)?;\n', new='        let Ok(sf) = Self::parse_simple_sub_formula(tokens) else {\n            return Ok(Self::True);\n        };\n', expect={'C08': 'A1'}, control=False),
 dict(id='operator-tried-unclean-callee', kind='fire', file=P, patch='bn35-08.diff', old='''        let Ok(op) = Self::parse_binary_operator(tokens) else {
            return Ok(left);
        };

        let right = Self::parse_sub_formula(tokens)?;''', new='''        let Ok(op) = Self::parse_binary_operator(tokens) else {
            return Ok(left);
        };

        let Ok(right) = Self::parse_sub_formula(tokens) else {
            return Ok(left);
        };''', expect={'C08': 'A1'}, control=False),
 dict(id='operator-tried-fallback-wraps-left', kind='fire', file=P, patch='bn35-08.diff', old='            return Ok(left);\n        };\n\n        let right', new='            return Ok(Self::Not(Box::new(left)));\n        };\n\n        let right', expect={'C08': 'violation'}, control=False),
 # the round-9 seeds that needed a new rule or a wider bundle
 dict(id='number-token-fallback-value', kind='fire', file=P, patch='../../seeded/C05-r9b/patch.diff', expect={'C05': 'number conversion'}, control=False),
 dict(id='number-token-text-bound-first', kind='silent', file=P, old='''                let parsed_number = number.as_str().parse().map_err(|e| {''', new='''                let digits = number.as_str();
                let parsed_number = digits.parse().map_err(|e| {''', checks=['C05', 'C08'], control=False),
 dict(id='ite-shortcut-wrong-row', kind='fire', file=B, patch='../../seeded/C06-r9c/patch.diff', expect={'C06': 'ite'}, control=False),
]

# tenth round of behaviour-preserving patches (bn36 the ROBDD core again, bn37 the CLI program, bn38 sets / truth-table entries / exporters,
# bn39 the generators, bn40 both halves of the parser): 30 of 40 silent after the generalisations of DESIGN.md 15.8, ten known alarms
_BN10 = {36: ['C01', 'C02', 'C03', 'C04', 'C05', 'C07', 'C13', 'C20'], 37: ['C07', 'C09', 'C10', 'C11', 'C12', 'C14', 'C20'], 38: ['C12', 'C13', 'C14', 'C19', 'C20'],
         39: ['C15', 'C16', 'C17', 'C18'], 40: ['C01', 'C03', 'C04', 'C05', 'C06', 'C08', 'C09', 'C11']}
_BN10_FILE = {36: B, 37: M, 38: IO, 39: G, 40: P}
_BN10_KNOWN = {
 'bn37-02': 'the filter, the parsed formula and the column widths travel down the table printer in a new struct TruthTable: X2 / X3 follow the printer\'s parameters, not the fields of a record built at the call site (new abstraction, as in 15.2)',
 'bn37-05': '--export-ordering sorts borrowed (id, name) pairs by their first component and writes one assembled listing: X4 recognises the sort of the symbols by id and the print per name, not the projection to pairs',
 'bn39-01': 'the diagonal cells of n_queens come from a new iterator-returning helper diagonal_cells(start, step, len): engine N reads affine loop nests over numeric ranges',
 'bn39-02': 'the anti-diagonals walk (row, column) pairs from a zip of an ascending and a reversed range: not a numeric range for engine N',
 'bn39-06': 'the row and column families of sudoku_gen are emitted by one block inside a loop over a const array of fn pointers (LINE_KINDS): engine U does not evaluate function pointers taken from a table',
 'bn39-07': 'augment_colors precomputes a Vec of (coloured vertex, colour, original) records and destructures them in the pair loop: the guard atoms are stated over the records\' components, which the rule does not trace back to the two maps',
 'bn39-08': 'the directed candidates of generate_graph come from vertices.iter().take(i).chain(vertices.iter().skip(i + 1)): equivalent to the filter i != j, which is what the rule looks for',
 'bn40-02': 'tokenize classifies each regex capture into a new private enum Lexeme and matches on that: the token tables of engine T are read from the capture-group chain of tokenize (new abstraction)',
 'bn40-03': 'consuming the leading exists / forall / gfp / lfp keyword moves from the three parse functions into the arms of their caller: A3 states the provenance of a syntax node per parse function (keyword included); the grammar (A2) is unaffected',
 'bn40-07': 'new_with_env chains tokenize and parse with Result::and_then and a closure using `?`, returning (vars, formula): the value-provenance evaluator does not run closures that leave early',
}
for _k, _checks in _BN10.items():
    for _n in range(1, 9):
        _id = 'bn%d-%02d' % (_k, _n)
        _file = {'bn38-01': S, 'bn38-02': S, 'bn38-03': 'src/truth_table.rs', 'bn38-07': PIO, 'bn38-08': PIO}.get(_id, _BN10_FILE[_k])
        if _id in _BN10_KNOWN: CASES.append(dict(id=_id, kind='known-alarm', file=_file, patch=_id + '.diff', checks=_checks, control=False, why=_BN10_KNOWN[_id]))
        else: CASES.append(dict(id=_id, kind='silent', file=_file, patch=_id + '.diff', checks=_checks, control=False))

CASES += [
 # every generalisation of round 10 with a twin that must fire, and the round-10 seeds that needed a new rule
 dict(id='printer-branch-array-entries-swapped', kind='fire', file=M, patch='bn37-06.diff', old='let branches = [(r, TruthTableEntry::False), (l, TruthTableEntry::True)];', new='let branches = [(r, TruthTableEntry::True), (l, TruthTableEntry::False)];', expect={'C10': 'X1'}, control=False),
 dict(id='row-line-last-bar-missing', kind='fire', file=M, patch='bn37-01.diff', old='''    line.push_str(&pad_right(outcome, widths[len]));
    line.push_str(" |");''', new='''    line.push_str(&pad_right(outcome, widths[len]));''', expect={'C10': 'X12'}, control=False),
 dict(id='headers-unzip-without-outcome-column', kind='fire', file=M, patch='bn37-08.diff', old='        .chain(std::iter::once("*".to_string()))\n', new='', expect={'C12': 'violation'}, control=False),
 dict(id='report-tuple-match-wrong-row', kind='fire', file=M, patch='bn37-04.diff', old='        (false, _) => {}', new='        (false, _) => print_performance_results(&exec_times),', expect={'C12': 'violation'}, control=False),
 dict(id='set-replace-with-wrong-operation', kind='fire', file=S, patch='bn38-02.diff', old='.replace_with(|current| self.env.and(Rc::clone(current), _other));', new='.replace_with(|current| self.env.or(Rc::clone(current), _other));', expect={'C19': 'violation'}, control=False),
 dict(id='dot-edges-letelse-children-swapped', kind='fire', file=IO, patch='bn38-05.diff', old='self_edges.push((root.clone(), true, l.clone()));', new='self_edges.push((root.clone(), true, r.clone()));', expect={'C14': 'X1'}, control=False),
 dict(id='parse-tree-chain-skips-right-list', kind='fire', file=PIO, patch='bn38-08.diff', old='.chain(a.iter().chain(b).flat_map(Self::nodes_recursive))', new='.chain(a.iter().flat_map(Self::nodes_recursive))', expect={'C14': 'X6'}, control=False),
 dict(id='clique-listing-of-other-collection', kind='fire', file=C, patch='bn39-03.diff', old='let ordered: Vec<&String> = vertices.iter().collect();', new='let ordered: Vec<&String> = vertices.iter().skip(1).collect();', expect={'C16': 'violation'}, control=False),
 dict(id='sudoku-symbols-from-raw-text', kind='fire', file=U, patch='bn39-05.diff', old='let symbols: Vec<char> = puzzle_input.chars().collect();', new='let symbols: Vec<char> = puzzle_input.chars().rev().collect();', expect={'C17': 'hint'}, control=False),
 dict(id='parser-and-then-skips-then-keyword', kind='fire', file=P, patch='bn40-08.diff', old='''        let then = expect(SymbolicBDDToken::Then, tokens)
            .and_then(|()| Self::parse_sub_formula(tokens))?;''', new='''        let then = expect(SymbolicBDDToken::Else, tokens)
            .and_then(|()| Self::parse_sub_formula(tokens))?;''', expect={'C08': 'violation'}, control=False),
 dict(id='parser-generic-reader-expect-inverted', kind='fire', file=P, patch='bn40-01.diff', old='        &Some(t) if *t == token => Ok(()),', new='        &Some(t) if *t != token => Ok(()),', expect={'C08': 'helper shape'}, control=False),
 dict(id='vars-listing-names-from-full-list', kind='fire', file=M, patch='../../seeded/C09-r10a/patch.diff', expect={'C09': 'names on the line'}, control=False),
 dict(id='vars-field-from-parse-tree', kind='fire', file=P, patch='../../seeded/C09-r10b/patch.diff', expect={'C09': 'full variable list'}, control=False),
 dict(id='set-contains-scratch-environment', kind='fire', file=S, patch='../../seeded/C13-r10b/patch.diff', expect={'C13': 'E10', 'C19': 'E10'}, control=False),
]

# one-token slips found by the mutation campaign (DESIGN.md 11.7d): each was missed by every check when first seen
CASES += [
 dict(id='mut-queens-writer-choice-inverted', kind='fire', file=Q, old='let mut writer = if args.output.is_some() {', new='let mut writer = if args.output.is_none() {', expect={'C15': 'output destination'}, control=False),
 dict(id='mut-clique-reader-choice-inverted', kind='fire', file=C, old='let reader = if args.input.is_some() {', new='let reader = if args.input.is_none() {', expect={'C16': 'input source'}, control=False),
 dict(id='mut-colour-pairs-tail-starts-late', kind='fire', file=G, old='''    for (i, v1) in vertices.iter().enumerate() {
        if let Some(vertices) = vertices.get((i + 1)..) {
            for v2 in vertices.iter() {
                let c1''', new='''    for (i, v1) in vertices.iter().enumerate() {
        if let Some(vertices) = vertices.get((i + 2)..) {
            for v2 in vertices.iter() {
                let c1''', expect={'C18': 'pairs of product vertices'}, control=False),
 dict(id='mut-graph-vertices-from-one', kind='fire', file=G, old='let vertices = (0..num_vertices)', new='let vertices = (1..num_vertices)', expect={'C18': 'number of vertices'}, control=False),
 dict(id='mut-tte-variants-list-misses-true', kind='fire', file='src/truth_table.rs', old='&[Self::True, Self::False, Self::Any]', new='&[Self::False, Self::False, Self::Any]', expect={'C10': 'list of variants'}, control=False),
 dict(id='mut-parse-tree-edge-target-not-child', kind='fire', file=PIO, old='.position(|n| n == subtree)', new='.position(|n| n != subtree)', expect={'C14': 'target of an edge'}, control=False),
 dict(id='mut-dot-nodes-one-child-twice', kind='fire', file=IO, old='let l_nodes = self.nodes_recursive(l.clone());', new='let l_nodes = self.nodes_recursive(r.clone());', expect={'C14': 'both children'}, control=False),
 dict(id='mut-dot-edges-one-child-twice', kind='fire', file=IO, old='let l_edges = self.edges_recursive(l.clone());', new='let l_edges = self.edges_recursive(r.clone());', expect={'C14': 'both children'}, control=False),
 dict(id='mut-clique-constraint-same-end-twice', kind='fire', file=C, old='writeln!(writer, "-({} & {}) &", complement.0, complement.1)?;', new='writeln!(writer, "-({} & {}) &", complement.0, complement.0)?;', expect={'C16': 'ends of a pair'}, control=False),
 dict(id='mut-printers-start-from-true', kind='fire', file=M, old='''            input_parsed
                .free_vars
                .iter()
                .map(|_| TruthTableEntry::Any)
                .collect(),
            args.filter,''', new='''            input_parsed
                .free_vars
                .iter()
                .map(|_| TruthTableEntry::True)
                .collect(),
            args.filter,''', expect={'C10': 'initial assignment'}, control=False),
 dict(id='mut-clique-csv-with-header', kind='fire', file=C, old='.has_headers(false)', new='.has_headers(true)', expect={'C16': 'first line of the input'}, control=False),
 dict(id='mut-convert-width-check-inverted', kind='fire', file=G, old='assert!(edge.len() == 2);', new='assert!(edge.len() != 2);', expect={'C18': 'width of a record'}, control=False),
]
CASES += [
 dict(id='mut-parse-tree-export-not-rendered', kind='fire', file=M, old='        let graph = SymbolicParseTree::new(&input_parsed.bdd);\n\n        graph.render_dot(&mut f)?;\n', new='        let graph = SymbolicParseTree::new(&input_parsed.bdd);\n        let _ = &graph;\n', expect={'C14': 'export written'}, control=False),
]
CASES += [
 dict(id='mut-header-label-not-printed', kind='fire', file=M, old='        print!(" {}|", pad_right(free_var, len));\n', new='        let _ = len;\n', expect={'C10': 'column names'}, control=False),
]
CASES += [
 dict(id='mut-sudoku-input-file-not-read', kind='fire', file=U, old='        file.read_to_string(&mut puzzle_input)?;\n', new='        let _ = &mut file;\n', expect={'C17': 'input'}, control=False),
 dict(id='mut-clique-record-not-added', kind='fire', file=C, old='        edges.push((edge[0].to_string(), edge[1].to_string()));\n', new='', expect={'C16': 'edge list'}, control=False),
 dict(id='mut-table-without-header', kind='fire', file=M, old='        print_header(&headers, &widths);\n', new='', expect={'C10': 'header of the table'}, control=False),
 dict(id='mut-parse-tree-nodes-from-one', kind='fire', file=PIO, old='(0..self.nodes.len()).collect()', new='(1..self.nodes.len()).collect()', expect={'C14': 'node list'}, control=False),
]
CASES += [
 dict(id='mut-tokenize-reference-dropped', kind='fire', file=P, old='                result.push(SymbolicBDDToken::Reference(reference.as_str().to_string()));\n', new='                let _ = reference;\n', expect={'C08': 'reference token'}, control=False),
]
CASES += [
 dict(id='mut-colour-edge-joins-vertex-with-itself', kind='fire', file=G, old='new_edges.push((v1.clone(), v2.clone()));', new='new_edges.push((v2.clone(), v2.clone()));', expect={'C18': 'product-graph edge ends'}, control=False),
]
CASES += [
 # third mutation campaign (swapped arguments, thinned iterations, constant conditions)
 dict(id='mut-graph-candidates-skip-first-partner', kind='fire', file=G, old='                for v2 in vertices.iter() {\n                    edges.push((v1.clone(), v2.clone()));', new='                for v2 in vertices.iter().skip(1) {\n                    edges.push((v1.clone(), v2.clone()));', expect={'C18': 'complete walk'}, control=False),
 dict(id='mut-parse-tree-position-from-the-end', kind='fire', file=PIO, old='''                            self.nodes
                                .iter()
                                .position(|n| n == subtree)''', new='''                            self.nodes
                                .iter()
                                .rev()
                                .position(|n| n == subtree)''', expect={'C14': 'target of an edge'}, control=False),
 dict(id='mut-colour-outer-loop-reversed', kind='fire', file=G, old='    for (i, v1) in vertices.iter().enumerate() {\n        if let Some(vertices) = vertices.get((i + 1)..) {\n            for v2 in vertices.iter() {\n                let c1', new='    for (i, v1) in vertices.iter().rev().enumerate() {\n        if let Some(vertices) = vertices.get((i + 1)..) {\n            for v2 in vertices.iter() {\n                let c1', expect={'C18': 'complete walk'}, control=False),
 dict(id='mut-tte-search-skips-first-variant', kind='fire', file='src/truth_table.rs', old='''        Self::variants()
            .iter()
            .find(''', new='''        Self::variants()
            .iter()
            .skip(1)
            .find(''', expect={'C10': 'list of variants'}, control=False),
 dict(id='mut-clique-counting-list-skips-a-vertex', kind='fire', file=C, old='vertices.iter().cloned().collect::<Vec<String>>().join(", "),', new='vertices.iter().skip(1).cloned().collect::<Vec<String>>().join(", "),', expect={'C16': 'complete walk'}, control=False),
 dict(id='mut-listing-printed-unasked', kind='fire', file=M, old='    if args.vars {', new='    if true {', expect={'C10': 'only on request'}, control=False),
]
CASES += [
 dict(id='mut-clique-maximality-block-without-true-alternative', kind='fire', file=C, old='            if edges_complement.is_empty() {\n                "  true".to_string()', new='            if false {\n                "  true".to_string()', expect={'C16': 'empty constraint block'}, control=False),
]
CASES += [
 dict(id='mut-extract-vars-skips-first-token', kind='fire', file=P, old='''        tokens
            .iter()
            .filter_map(''', new='''        tokens
            .iter()
            .skip(1)
            .filter_map(''', expect={'C09': 'whole sequences', 'C11': 'whole sequences'}, control=False),
 dict(id='mut-dot-edges-drop-first-of-right', kind='fire', file=IO, old='.chain(r_edges.iter())', new='.chain(r_edges.iter().skip(1))', expect={'C14': 'whole sequences'}, control=False),
 dict(id='mut-node-list-drops-a-node', kind='fire', file=B, old='.chain(r_nodes.iter())', new='.chain(r_nodes.iter().skip(1))', expect={'C13': 'whole sequences'}, control=False),
 dict(id='mut-ordering-export-drops-first', kind='fire', file=M, old='''        let ordered_variable_names = ordered_variables
            .iter()''', new='''        let ordered_variable_names = ordered_variables
            .iter()
            .skip(1)''', expect={'C09': 'lists every variable'}, control=False),
]
CASES += [
 # fourth mutation campaign (texts, line ends, swallowed errors, swapped arm bodies)
 dict(id='mut-entry-display-names-swapped', kind='fire', file='src/truth_table.rs', old='            Self::False => "False",\n            Self::Any => "Any",', new='            Self::False => "Any",\n            Self::Any => "False",', expect={'C10': 'entry text'}, control=False),
 dict(id='mut-result-column-texts-swapped', kind='fire', file=M, old='                BDD::True => "True",\n                BDD::False => "False",', new='                BDD::True => "False",\n                BDD::False => "True",', expect={'C10': 'result column'}, control=False),
 dict(id='mut-edge-list-lines-run-together', kind='fire', file=G, old='writeln!(writer, "{},{}", edge.0, edge.1)?;', new='write!(writer, "{},{}", edge.0, edge.1)?;', expect={'C18': 'violation'}, control=False),
 dict(id='mut-queens-write-outcome-dropped', kind='fire', file=Q, old='    writeln!(writer, "true")?;', new='    writeln!(writer, "true").ok();', expect={'C15': 'outcome of a write dropped'}, control=False),
 dict(id='mut-clique-write-outcome-dropped', kind='fire', file=C, old='writeln!(writer, "-({} & {}) &", complement.0, complement.1)?;', new='writeln!(writer, "-({} & {}) &", complement.0, complement.1).ok();', expect={'C16': 'outcome of a write dropped'}, control=False),
]
CASES += [
 dict(id='mut-ordering-export-names-run-together', kind='fire', file=M, old='            println!("{}", v);', new='            print!("{}", v);', expect={'C09': '-r', 'C11': '-r'}, control=False),
]
CASES += [
 dict(id='mut-clique-counting-list-joined-by-blanks', kind='fire', file=C, old='vertices.iter().cloned().collect::<Vec<String>>().join(", "),', new='vertices.iter().cloned().collect::<Vec<String>>().join(" "),', expect={'C16': 'list separator'}, control=False),
]

# eleventh round of behaviour-preserving patches (bn41 the generators, bn42 the CLI program, bn43 the front end, bn44 the evaluator with the
# operations it calls): six patches each; DESIGN.md 15.9
_BN11 = {41: ['C15', 'C16', 'C17', 'C18'], 42: ['C07', 'C09', 'C10', 'C11', 'C12', 'C14', 'C20'], 43: ['C01', 'C03', 'C04', 'C05', 'C06', 'C08', 'C09', 'C11'],
         44: ['C01', 'C02', 'C03', 'C04', 'C05', 'C06', 'C07', 'C13', 'C19']}
_BN11_FILE = {41: G, 42: M, 43: P, 44: B}
_BN11_KNOWN = {
 'bn43-04': 'consuming the enclosing `[` / `]` moves from parse_formula_list to its two call sites in parse_countable_formula: A3 / T state what each parse function consumes (brackets included), as with bn40-03; the grammar automaton A2 of the whole parser is unaffected',
 'bn43-06': 'new_with_env pre-sizes raw2free with vec![None; n] and writes raw2free[raw] = Some(vi) under enumerate(): the new IndexMut site needs the relational fact raw2free.len() == vars.len(), which no discharge rule of engine P derives',
}
import os as _os
for _k, _checks in _BN11.items():
    for _n in range(1, 7):
        _id = 'bn%d-%02d' % (_k, _n)
        if not _os.path.exists(_os.path.join(_os.path.dirname(_os.path.abspath(__file__)), 'patches', _id + '.diff')): continue
        _file = {'bn41-01': Q, 'bn41-02': C, 'bn41-03': U, 'bn41-04': U, 'bn44-04': S, 'bn44-05': P, 'bn44-06': P}.get(_id, _BN11_FILE[_k])
        if _id in _BN11_KNOWN: CASES.append(dict(id=_id, kind='known-alarm', file=_file, patch=_id + '.diff', checks=_checks, control=False, why=_BN11_KNOWN[_id]))
        else: CASES.append(dict(id=_id, kind='silent', file=_file, patch=_id + '.diff', checks=_checks, control=False))

CASES += [
 # every generalisation of round 11 with a twin that must fire
 dict(id='sudoku-retain-under-a-condition', kind='fire', file=U, patch='bn41-04.diff', old='    puzzle_input.retain(|c| !c.is_whitespace());', new='    if root > 3 { puzzle_input.retain(|c| !c.is_whitespace()); }', expect={'C17': 'whitespace'}, control=False),
 dict(id='sudoku-retain-keeps-the-blanks', kind='fire', file=U, patch='bn41-04.diff', old='    puzzle_input.retain(|c| !c.is_whitespace());', new='    puzzle_input.retain(|c| c.is_whitespace());', expect={'C17': 'whitespace'}, control=False),
 dict(id='table-row-shown-flag-wrong-leaf', kind='fire', file=M, patch='bn42-04.diff', old='                TruthTableEntry::True => *leaf == BDD::True,', new='                TruthTableEntry::True => *leaf == BDD::False,', expect={'C10': 'filter=True'}, control=False),
 dict(id='report-flag-without-sample-guard', kind='fire', file=M, patch='bn42-01.diff', old='    if benchmarking && repeat > 0 {', new='    if benchmarking {', expect={'C12': 'stats'}, control=False),
 dict(id='queens-reversed-lengths-drop-a-diagonal', kind='fire', file=Q, patch='bn41-01.diff', old='    for length in (1..n).rev() {', new='    for length in (1..n - 1).rev() {', expect={'C15': 'violation'}, control=False),
 dict(id='count-bound-match-falls-back-to-zero', kind='fire', file=P, patch='bn44-05.diff', old='            Err(_) => i64::MAX,', new='            Err(_) => 0,', expect={'C05': 'CLAMP'}, control=False),
 dict(id='exists-pop-loop-negates-the-accumulator', kind='fire', file=B, patch='bn44-01.diff', old='            quantified = self.exists_impl(&symbol, quantified);', new='            quantified = self.exists_impl(&symbol, self.not(quantified));', expect={'C04': 'violation'}, control=False),
 dict(id='tokenize-number-branch-falls-through', kind='fire', file=P, patch='bn43-01.diff', old='''                result.push(SymbolicBDDToken::Countable(parsed_number));
                continue;''', new='''                result.push(SymbolicBDDToken::Countable(parsed_number));''', expect={'C05': 'tokenize'}, control=False),
 dict(id='timed-closure-applies-model-inside', kind='fire', file=M, patch='bn42-05.diff', old='        let (bdd, elapsed) = timed(|| input_parsed.eval());', new='        let (bdd, elapsed) = timed(|| input_parsed.env.model(input_parsed.eval()));', expect={'C10': 'model'}, control=False),
]
# seed round 11 (C20-r11a): the predicate that selects a filter variant accepts more than `matches` does
CASES += [
 dict(id='r11-tte-selection-predicate-widened', kind='fire', file='src/truth_table.rs', old='            .find(|variant| variant.matches(s))',
      new='            .find(|variant| variant.matches(s) || (s.len() == 1 && variant.to_string().to_lowercase().contains(s)))',
      expect={'C20': 'selection predicate', 'C10': 'selection predicate'}, control=False),
 dict(id='r11-tte-selection-predicate-named-closure', kind='silent', file='src/truth_table.rs', old='''        Self::variants()
            .iter()
            .find(|variant| variant.matches(s))''', new='''        let spelled_as = |variant: &&Self| variant.matches(s);
        Self::variants()
            .iter()
            .find(spelled_as)''', checks=['C20', 'C10']),
 dict(id='r11-categorize-reads-another-bit', kind='fire', file='src/set.rs', old='        (self >> c) & 1 == 0', new='        (self >> (c ^ 1)) & 1 == 0', expect={'C19': 'bit c of e'}, control=False),
 dict(id='r11-categorize-mask-form', kind='silent', file='src/set.rs', old='        (self >> c) & 1 == 0', new='        self & (1 << c) == 0', checks=['C19', 'C13']),
 dict(id='r11-categorize-ne-form', kind='silent', file='src/set.rs', old='        (self >> c) & 1 == 0', new='        !((self >> c) & 1 != 0)', checks=['C19']),
]

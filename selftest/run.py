#!/usr/bin/env python3
"""Runs the self-test corpus: ./selftest/run.py [case-id ...] [--tests] [-j N]   (scratch copies under /tmp, removed afterwards)
--tests additionally runs the repository's test suite on each mutant to confirm it still compiles and passes.
A complete clean run records the tree hash in selftest/validated_tree.txt (the thorough tier uses the corpus as positive controls on that tree)."""
import os, sys, subprocess, shutil, tempfile, json
from concurrent.futures import ThreadPoolExecutor
HERE = os.path.dirname(os.path.abspath(__file__))
sys.path.insert(0, HERE)
from cases import CASES, apply_case
VERIF = os.path.dirname(HERE)
argv = sys.argv[1:]
jobs = 8
if '-j' in argv:
    i = argv.index('-j'); jobs = int(argv[i + 1]); del argv[i:i + 2]
args = [a for a in argv if not a.startswith('--')]
run_tests = '--tests' in argv

def run_case(c):
    lines = []; results = []; fails = 0
    d = tempfile.mkdtemp(prefix='rsbdd-selftest-')
    try:
        repo = os.path.join(d, 'repo')
        subprocess.check_call(['rsync', '-a', '--exclude', 'target', '--exclude', '.git', '/repo/', repo + '/'])
        if not apply_case(repo, c):
            return ['%-26s STALE (edit does not apply to %s)' % (c['id'], c['file'])], [], 1
        env = dict(os.environ, RSBDD_REPO=repo, RSBDD_EVIDENCE_DIR=os.path.join(d, 'evidence'), RSBDD_NO_CONTROLS='1')
        if run_tests:
            r = subprocess.run(['cargo', 'test', '--workspace', '--offline', '--no-fail-fast'], cwd=repo, env=dict(env, CARGO_TARGET_DIR=os.path.join(d, 'target')), stdout=subprocess.PIPE, stderr=subprocess.STDOUT, text=True)
            passed = sum(int(l.split(' passed')[0].split()[-1]) for l in r.stdout.splitlines() if l.startswith('test result:'))
            lines.append('   [%s tests: exit %d, %d passed]' % (c['id'], r.returncode, passed))
        checks = c['expect'] if c['kind'] == 'fire' else {k: None for k in c['checks']}
        for pid, needle in checks.items():
            r = subprocess.run([os.path.join(VERIF, 'check'), pid], env=env, stdout=subprocess.PIPE, stderr=subprocess.STDOUT, text=True)
            out = r.stdout
            if c['kind'] == 'fire':
                ok = r.returncode == 1 and 'VIOLATION property=%s' % pid in out and needle in out
                status = 'fired' if ok else ('MISSED' if r.returncode == 0 else 'fired-but-not-naming(%s)' % needle)
            else:
                ok = r.returncode == 0 and 'VIOLATION' not in out
                status = 'silent' if ok else 'FALSE-ALARM'
            if not ok:
                fails += 1
                lines.append('\n'.join('      | ' + l[:240] for l in out.splitlines() if 'violation' in l.lower())[:1500])
            lines.append('%-26s %-6s %s %s' % (c['id'], c['kind'], pid, status))
            results.append({'case': c['id'], 'kind': c['kind'], 'property': pid, 'status': status})
    finally:
        shutil.rmtree(d, ignore_errors=True)
    return lines, results, fails

todo = [c for c in CASES if (not args and c['kind'] != 'known-alarm') or c['id'] in args]
fails = 0; results = []
with ThreadPoolExecutor(max_workers=jobs) as ex:
    for lines, res, f in ex.map(run_case, todo):
        for l in lines: print(l)
        sys.stdout.flush()
        results += res; fails += f
json.dump(results, open(os.path.join(HERE, 'last_run.json'), 'w'), indent=1)
if not args and not fails:
    sys.path.insert(0, os.path.join(VERIF, 'rules'))
    import framework
    open(os.path.join(HERE, 'validated_tree.txt'), 'w').write(framework.tree_hash('/repo') + '\n')
print('self-test: %d case-checks, %d failed' % (len(results), fails))
sys.exit(1 if fails else 0)

//! rsbdd-facts: a rustc_private driver that dumps type-checked facts (items, THIR, MIR) of every
//! workspace crate as JSON, for the rule engines in /verif/rules.
//!
//! Usage (through cargo): RUSTC_WORKSPACE_WRAPPER=<this> RSBDD_FACTS_DIR=<dir> cargo +nightly check
//! cargo calls `<this> <rustc> <args..>`; argv[1] (the rustc path) is dropped.
#![feature(rustc_private)]
#![allow(clippy::all)]

extern crate rustc_abi;
extern crate rustc_ast;
extern crate rustc_data_structures;
extern crate rustc_driver;
extern crate rustc_hir;
extern crate rustc_index;
extern crate rustc_interface;
extern crate rustc_middle;
extern crate rustc_session;
extern crate rustc_span;

mod items;
mod json;
mod mir;
mod thir;
mod util;

use json::J;
use rustc_driver::{Callbacks, Compilation};
use rustc_interface::interface::Compiler;
use rustc_middle::ty::TyCtxt;

struct Facts {
    thir: Vec<J>,
}

impl Callbacks for Facts {
    fn after_expansion<'tcx>(&mut self, _c: &Compiler, tcx: TyCtxt<'tcx>) -> Compilation {
        // THIR must be read before MIR building steals it.
        if std::env::var("RSBDD_FACTS_DIR").is_ok() {
            self.thir = thir::dump_all(tcx);
        }
        Compilation::Continue
    }

    fn after_analysis<'tcx>(&mut self, _c: &Compiler, tcx: TyCtxt<'tcx>) -> Compilation {
        let Ok(dir) = std::env::var("RSBDD_FACTS_DIR") else {
            return Compilation::Continue;
        };
        let krate = tcx.crate_name(rustc_hir::def_id::LOCAL_CRATE).to_string();
        let kinds: Vec<String> = tcx.crate_types().iter().map(|t| format!("{:?}", t)).collect();
        let is_test = tcx.sess.opts.test;
        let mut root = J::obj(vec![
            ("crate", J::s(krate.clone())),
            ("crate_types", J::Arr(kinds.iter().map(|k| J::s(k.clone())).collect())),
            ("test_harness", J::Bool(is_test)),
        ]);
        let src = tcx
            .sess
            .local_crate_source_file()
            .map(|p| util::real_file_name_to_string(&p))
            .unwrap_or_default();
        root.push("root_file", J::s(src));
        root.push("items", items::dump(tcx));
        root.push("thir", J::Arr(std::mem::take(&mut self.thir)));
        root.push("mir", mir::dump_all(tcx));
        let mut out = String::new();
        root.write(&mut out);
        let kind = if is_test {
            "test".to_string()
        } else {
            kinds.first().cloned().unwrap_or_default().to_lowercase()
        };
        // one write per process; file name is unique per (crate, kind, pid)
        let path = format!("{}/{}-{}-{}.json", dir, krate, kind, std::process::id());
        std::fs::write(&path, out).expect("cannot write facts");
        Compilation::Continue
    }
}

fn main() {
    let mut args: Vec<String> = std::env::args().collect();
    // RUSTC_WORKSPACE_WRAPPER: argv[1] is the path of the real rustc
    if args.len() > 1 && (args[1].ends_with("rustc") || args[1].contains("/rustc")) {
        args.remove(1);
    }
    let mut cb = Facts { thir: Vec::new() };
    rustc_driver::run_compiler(&args, &mut cb);
}

use crate::json::J;
use rustc_hir::def_id::DefId;
use rustc_middle::ty::print::with_no_trimmed_paths;
use rustc_middle::ty::{self, GenericArgsRef, Ty, TyCtxt};
use rustc_span::Span;

pub fn real_file_name_to_string(p: &rustc_span::RealFileName) -> String {
    match p.local_path() {
        Some(p) => p.display().to_string(),
        None => format!("{:?}", p),
    }
}

/// file:line:col of the *call site* if the span comes from a macro expansion of a foreign macro,
/// plus expansion information.
pub fn span_j(tcx: TyCtxt<'_>, span: Span) -> J {
    let sm = tcx.sess.source_map();
    let exp = span.from_expansion();
    let mut o = J::obj(vec![]);
    let loc_of = |s: Span| -> String {
        if s.is_dummy() {
            return "<dummy>".into();
        }
        let lo = sm.lookup_char_pos(s.lo());
        let f = match &lo.file.name {
            rustc_span::FileName::Real(r) => real_file_name_to_string(r),
            other => format!("{:?}", other),
        };
        format!("{}:{}:{}", f, lo.line, lo.col.0 + 1)
    };
    o.push("loc", J::s(loc_of(span)));
    if !span.is_dummy() {
        let hi = sm.lookup_char_pos(span.hi());
        o.push("end_line", J::Num(hi.line as i128));
    }
    if exp {
        let data = span.ctxt().outer_expn_data();
        o.push("exp", J::s(format!("{:?}", data.kind)));
        // outermost call site in user code
        let cs = span.source_callsite();
        o.push("callsite", J::s(loc_of(cs)));
        let mut chain = Vec::new();
        let mut s = span;
        let mut n = 0;
        while s.from_expansion() && n < 16 {
            let d = s.ctxt().outer_expn_data();
            chain.push(J::s(format!("{:?}", d.kind)));
            s = d.call_site;
            n += 1;
        }
        o.push("exp_chain", J::Arr(chain));
    }
    o
}

pub fn loc_s(tcx: TyCtxt<'_>, span: Span) -> String {
    let sm = tcx.sess.source_map();
    if span.is_dummy() {
        return "<dummy>".into();
    }
    let s = if span.from_expansion() { span.source_callsite() } else { span };
    let lo = sm.lookup_char_pos(s.lo());
    let f = match &lo.file.name {
        rustc_span::FileName::Real(r) => real_file_name_to_string(r),
        other => format!("{:?}", other),
    };
    format!("{}:{}:{}", f, lo.line, lo.col.0 + 1)
}

pub fn def_path(tcx: TyCtxt<'_>, did: DefId) -> String {
    let krate = tcx.crate_name(did.krate).to_string();
    if !did.is_local() && krate.starts_with("rsbdd") {
        // items of another workspace crate: name them by their definition path, not by a re-export
        if let Some(p) = definition_path(tcx, did) {
            return p;
        }
    }
    let p = with_no_trimmed_paths!(tcx.def_path_str(did));
    if did.is_local() {
        format!("{}::{}", krate, p)
    } else {
        p
    }
}

fn definition_path(tcx: TyCtxt<'_>, did: DefId) -> Option<String> {
    use rustc_hir::definitions::DefPathData;
    let krate = tcx.crate_name(did.krate).to_string();
    if let Some(assoc) = tcx.opt_associated_item(did) {
        if matches!(assoc.container, ty::AssocContainer::InherentImpl) {
            let imp = tcx.parent(did);
            let self_ty = tcx.type_of(imp).instantiate_identity().skip_norm_wip();
            if let ty::Adt(adt, _) = self_ty.kind() {
                let base = definition_path(tcx, adt.did())?;
                return Some(format!("{}::{}", base, tcx.item_name(did)));
            }
        }
        return None;
    }
    let dp = tcx.def_path(did);
    let mut out = krate;
    for seg in dp.data.iter() {
        match seg.data {
            DefPathData::TypeNs(name) | DefPathData::ValueNs(name) => {
                out.push_str("::");
                out.push_str(name.as_str());
            }
            _ => return None,
        }
    }
    Some(out)
}

pub fn ty_s<'tcx>(_tcx: TyCtxt<'tcx>, ty: Ty<'tcx>) -> String {
    with_no_trimmed_paths!(format!("{}", ty))
}

/// Structured type description: kind + (for ADTs) def path + generic args, recursively (bounded).
pub fn ty_j<'tcx>(tcx: TyCtxt<'tcx>, ty: Ty<'tcx>) -> J {
    ty_j_d(tcx, ty, 0)
}

fn ty_j_d<'tcx>(tcx: TyCtxt<'tcx>, ty: Ty<'tcx>, depth: usize) -> J {
    let s = ty_s(tcx, ty);
    if depth > 6 {
        return J::obj(vec![("k", J::s("Deep")), ("s", J::s(s))]);
    }
    match ty.kind() {
        ty::Adt(adt, args) => J::obj(vec![
            ("k", J::s("Adt")),
            ("def", J::s(def_path(tcx, adt.did()))),
            ("args", gargs_j(tcx, args, depth + 1)),
            ("s", J::s(s)),
        ]),
        ty::Ref(_, inner, m) => J::obj(vec![
            ("k", J::s("Ref")),
            ("mut", J::Bool(m.is_mut())),
            ("to", ty_j_d(tcx, *inner, depth + 1)),
            ("s", J::s(s)),
        ]),
        ty::RawPtr(inner, m) => J::obj(vec![
            ("k", J::s("RawPtr")),
            ("mut", J::Bool(m.is_mut())),
            ("to", ty_j_d(tcx, *inner, depth + 1)),
            ("s", J::s(s)),
        ]),
        ty::Slice(inner) => J::obj(vec![
            ("k", J::s("Slice")),
            ("of", ty_j_d(tcx, *inner, depth + 1)),
            ("s", J::s(s)),
        ]),
        ty::Array(inner, _) => J::obj(vec![
            ("k", J::s("Array")),
            ("of", ty_j_d(tcx, *inner, depth + 1)),
            ("s", J::s(s)),
        ]),
        ty::Tuple(ts) => J::obj(vec![
            ("k", J::s("Tuple")),
            ("of", J::Arr(ts.iter().map(|t| ty_j_d(tcx, t, depth + 1)).collect())),
            ("s", J::s(s)),
        ]),
        ty::FnDef(did, args) => J::obj(vec![
            ("k", J::s("FnDef")),
            ("def", J::s(def_path(tcx, *did))),
            ("args", gargs_j(tcx, args, depth + 1)),
            ("s", J::s(s)),
        ]),
        ty::Closure(did, _) => J::obj(vec![
            ("k", J::s("Closure")),
            ("def", J::s(def_path(tcx, *did))),
            ("s", J::s(s)),
        ]),
        ty::Param(p) => J::obj(vec![("k", J::s("Param")), ("name", J::s(p.name.to_string())), ("s", J::s(s))]),
        ty::Bool => J::obj(vec![("k", J::s("Bool")), ("s", J::s(s))]),
        ty::Int(_) => J::obj(vec![("k", J::s("Int")), ("s", J::s(s))]),
        ty::Uint(_) => J::obj(vec![("k", J::s("Uint")), ("s", J::s(s))]),
        ty::Float(_) => J::obj(vec![("k", J::s("Float")), ("s", J::s(s))]),
        ty::Str => J::obj(vec![("k", J::s("Str")), ("s", J::s(s))]),
        ty::Char => J::obj(vec![("k", J::s("Char")), ("s", J::s(s))]),
        ty::Never => J::obj(vec![("k", J::s("Never")), ("s", J::s(s))]),
        ty::Dynamic(..) => J::obj(vec![("k", J::s("Dyn")), ("s", J::s(s))]),
        ty::FnPtr(..) => J::obj(vec![("k", J::s("FnPtr")), ("s", J::s(s))]),
        _ => J::obj(vec![("k", J::s("Other")), ("s", J::s(s))]),
    }
}

pub fn gargs_j<'tcx>(tcx: TyCtxt<'tcx>, args: GenericArgsRef<'tcx>, depth: usize) -> J {
    J::Arr(
        args.iter()
            .filter_map(|a| a.as_type().map(|t| ty_j_d(tcx, t, depth)))
            .collect(),
    )
}

/// Describe a callee: declared def (possibly a trait method) and, if resolvable in the caller's
/// typing environment, the concrete instance.
pub fn callee_j<'tcx>(
    tcx: TyCtxt<'tcx>,
    caller: DefId,
    did: DefId,
    args: GenericArgsRef<'tcx>,
) -> J {
    let mut o = J::obj(vec![
        ("def", J::s(def_path(tcx, did))),
        ("gargs", gargs_j(tcx, args, 0)),
    ]);
    if let Some(assoc) = tcx.opt_associated_item(did) {
        match assoc.container {
            ty::AssocContainer::Trait => {
                o.push("trait", J::s(def_path(tcx, tcx.parent(did))));
            }
            ty::AssocContainer::InherentImpl | ty::AssocContainer::TraitImpl(_) => {
                let imp = tcx.parent(did);
                let self_ty = tcx.type_of(imp).instantiate_identity().skip_norm_wip();
                o.push("impl_self", J::s(ty_s(tcx, self_ty)));
            }
        }
    }
    let env = ty::TypingEnv::post_analysis(tcx, caller);
    if let Ok(Some(inst)) = ty::Instance::try_resolve(tcx, env, did, args) {
        let rdid = inst.def_id();
        o.push("res", J::s(def_path(tcx, rdid)));
        o.push("res_kind", J::s(format!("{:?}", inst.def).split('(').next().unwrap_or("").to_string()));
        if rdid.is_local() {
            o.push("res_local", J::Bool(true));
        }
        if let Some(assoc) = tcx.opt_associated_item(rdid) {
            if !matches!(assoc.container, ty::AssocContainer::Trait) {
                let imp = tcx.parent(rdid);
                let self_ty = tcx.type_of(imp).instantiate_identity().skip_norm_wip();
                o.push("res_impl_self", J::s(ty_s(tcx, self_ty)));
                if tcx.is_automatically_derived(imp) {
                    o.push("res_derived", J::Bool(true));
                }
            }
        }
    }
    o
}

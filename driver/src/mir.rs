use crate::json::J;
use crate::util::*;
use rustc_hir::def_id::DefId;
use rustc_middle::mir::*;
use rustc_middle::ty::{self, TyCtxt};

pub fn dump_all(tcx: TyCtxt<'_>) -> J {
    let mut out = Vec::new();
    for ldid in tcx.hir_body_owners() {
        let did = ldid.to_def_id();
        let kind = tcx.def_kind(did);
        use rustc_hir::def::DefKind;
        let body: &Body<'_> = match kind {
            DefKind::Fn | DefKind::AssocFn | DefKind::Closure => tcx.optimized_mir(did),
            DefKind::Const { .. } | DefKind::AssocConst { .. } | DefKind::Static { .. } | DefKind::AnonConst | DefKind::InlineConst => {
                if tcx.is_const_fn(did) {
                    continue;
                }
                tcx.mir_for_ctfe(did)
            }
            _ => continue,
        };
        out.push(dump_body(tcx, did, body));
    }
    J::Arr(out)
}

fn place_j<'tcx>(p: &Place<'tcx>) -> J {
    let proj: Vec<J> = p
        .projection
        .iter()
        .map(|e| match e {
            ProjectionElem::Deref => J::s("Deref"),
            ProjectionElem::Field(f, _) => J::obj(vec![("Field", J::Num(f.as_u32() as i128))]),
            ProjectionElem::Index(l) => J::obj(vec![("Index", J::Num(l.as_u32() as i128))]),
            ProjectionElem::ConstantIndex { offset, from_end, .. } => {
                J::obj(vec![("ConstantIndex", J::Num(offset as i128)), ("from_end", J::Bool(from_end))])
            }
            ProjectionElem::Subslice { from, to, from_end } => {
                J::obj(vec![("Subslice", J::Num(from as i128)), ("to", J::Num(to as i128)), ("from_end", J::Bool(from_end))])
            }
            ProjectionElem::Downcast(_, v) => J::obj(vec![("Downcast", J::Num(v.as_u32() as i128))]),
            other => J::obj(vec![("Other", J::s(format!("{:?}", other)))]),
        })
        .collect();
    J::obj(vec![("local", J::Num(p.local.as_u32() as i128)), ("proj", J::Arr(proj))])
}

fn const_j<'tcx>(tcx: TyCtxt<'tcx>, caller: DefId, c: &ConstOperand<'tcx>) -> J {
    let ty = c.const_.ty();
    let mut o = J::obj(vec![("k", J::s("Const")), ("ty", J::s(ty_s(tcx, ty)))]);
    if let ty::FnDef(did, gargs) = ty.kind() {
        o.push("fn", callee_j(tcx, caller, *did, gargs));
    } else {
        let env = ty::TypingEnv::post_analysis(tcx, caller);
        if ty.is_integral() || ty.is_bool() || ty.is_char() {
            if let Some(si) = c.const_.try_eval_scalar_int(tcx, env) {
                let size = si.size();
                let v: i128 = if ty.is_signed() { si.to_int(size) } else { si.to_uint(size) as i128 };
                o.push("int", J::s(v.to_string()));
            }
        }
        let s = format!("{}", c.const_);
        o.push("s", J::s(s.chars().take(300).collect::<String>()));
    }
    o
}

fn operand_j<'tcx>(tcx: TyCtxt<'tcx>, caller: DefId, op: &Operand<'tcx>) -> J {
    match op {
        Operand::Copy(p) => {
            let mut o = place_j(p);
            o.push("k", J::s("Copy"));
            o
        }
        Operand::Move(p) => {
            let mut o = place_j(p);
            o.push("k", J::s("Move"));
            o
        }
        Operand::Constant(c) => const_j(tcx, caller, c),
        #[allow(unreachable_patterns)]
        other => J::obj(vec![("k", J::s("OtherOperand")), ("s", J::s(format!("{:?}", other)))]),
    }
}

fn rvalue_j<'tcx>(tcx: TyCtxt<'tcx>, caller: DefId, body: &Body<'tcx>, rv: &Rvalue<'tcx>) -> J {
    match rv {
        Rvalue::Use(op, ..) => J::obj(vec![("k", J::s("Use")), ("op", operand_j(tcx, caller, op))]),
        Rvalue::Repeat(op, _) => J::obj(vec![("k", J::s("Repeat")), ("op", operand_j(tcx, caller, op))]),
        Rvalue::Ref(_, bk, p) => J::obj(vec![
            ("k", J::s("Ref")),
            ("mut", J::Bool(matches!(bk, BorrowKind::Mut { .. }))),
            ("fake", J::Bool(matches!(bk, BorrowKind::Fake(_)))),
            ("place", place_j(p)),
        ]),
        Rvalue::RawPtr(_, p) => J::obj(vec![("k", J::s("RawPtr")), ("place", place_j(p))]),
        Rvalue::Cast(ck, op, ty) => {
            let from = op.ty(body, tcx);
            J::obj(vec![
                ("k", J::s("Cast")),
                ("cast", J::s(format!("{:?}", ck))),
                ("op", operand_j(tcx, caller, op)),
                ("from", J::s(ty_s(tcx, from))),
                ("to", J::s(ty_s(tcx, *ty))),
            ])
        }
        Rvalue::BinaryOp(op, ops) => J::obj(vec![
            ("k", J::s("BinaryOp")),
            ("op", J::s(format!("{:?}", op))),
            ("lhs", operand_j(tcx, caller, &ops.0)),
            ("rhs", operand_j(tcx, caller, &ops.1)),
            ("operand_ty", J::s(ty_s(tcx, ops.0.ty(body, tcx)))),
        ]),
        Rvalue::UnaryOp(op, a) => J::obj(vec![
            ("k", J::s("UnaryOp")),
            ("op", J::s(format!("{:?}", op))),
            ("arg", operand_j(tcx, caller, a)),
        ]),
        Rvalue::Discriminant(p) => J::obj(vec![("k", J::s("Discriminant")), ("place", place_j(p))]),
        Rvalue::Aggregate(ak, ops) => {
            let mut o = J::obj(vec![("k", J::s("Aggregate"))]);
            match &**ak {
                AggregateKind::Adt(did, vi, _, _, _) => {
                    let adt = tcx.adt_def(*did);
                    o.push("agg", J::s("Adt"));
                    o.push("adt", J::s(def_path(tcx, *did)));
                    o.push("variant", J::s(adt.variant(*vi).name.to_string()));
                }
                AggregateKind::Closure(did, _) => {
                    o.push("agg", J::s("Closure"));
                    o.push("def", J::s(def_path(tcx, *did)));
                }
                AggregateKind::Tuple => o.push("agg", J::s("Tuple")),
                AggregateKind::Array(_) => o.push("agg", J::s("Array")),
                other => o.push("agg", J::s(format!("{:?}", other).split('(').next().unwrap().to_string())),
            }
            o.push("ops", J::Arr(ops.iter().map(|x| operand_j(tcx, caller, x)).collect()));
            o
        }
        Rvalue::CopyForDeref(p) => J::obj(vec![("k", J::s("CopyForDeref")), ("place", place_j(p))]),
        Rvalue::ThreadLocalRef(did) => J::obj(vec![("k", J::s("ThreadLocalRef")), ("def", J::s(def_path(tcx, *did)))]),
        other => J::obj(vec![("k", J::s("Other")), ("s", J::s(format!("{:?}", other).chars().take(200).collect::<String>()))]),
    }
}

fn dump_body<'tcx>(tcx: TyCtxt<'tcx>, did: DefId, body: &Body<'tcx>) -> J {
    let mut o = J::obj(vec![
        ("def", J::s(def_path(tcx, did))),
        ("def_kind", J::s(format!("{:?}", tcx.def_kind(did)))),
        ("span", span_j(tcx, body.span)),
        ("arg_count", J::Num(body.arg_count as i128)),
    ]);
    // locals
    let mut names: Vec<Option<String>> = vec![None; body.local_decls.len()];
    let mut debuginfo = Vec::new();
    for vdi in &body.var_debug_info {
        match &vdi.value {
            VarDebugInfoContents::Place(p) => {
                if p.projection.is_empty() {
                    names[p.local.as_usize()] = Some(vdi.name.to_string());
                }
                debuginfo.push(J::obj(vec![("name", J::s(vdi.name.to_string())), ("place", place_j(p))]));
            }
            VarDebugInfoContents::Const(_) => {}
        }
    }
    let locals: Vec<J> = body
        .local_decls
        .iter_enumerated()
        .map(|(l, d)| {
            let mut lo = J::obj(vec![
                ("ty", ty_j(tcx, d.ty)),
                ("mutable", J::Bool(d.mutability.is_mut())),
                ("loc", J::s(loc_s(tcx, d.source_info.span))),
            ]);
            if let Some(n) = &names[l.as_usize()] {
                lo.push("name", J::s(n.clone()));
            }
            lo
        })
        .collect();
    o.push("locals", J::Arr(locals));
    o.push("debuginfo", J::Arr(debuginfo));
    let blocks: Vec<J> = body
        .basic_blocks
        .iter_enumerated()
        .map(|(_bb, data)| {
            let stmts: Vec<J> = data
                .statements
                .iter()
                .filter_map(|s| {
                    let mut so = match &s.kind {
                        StatementKind::Assign(b) => {
                            let (p, rv) = &**b;
                            J::obj(vec![("k", J::s("Assign")), ("place", place_j(p)), ("rv", rvalue_j(tcx, did, body, rv))])
                        }
                        StatementKind::StorageLive(l) => J::obj(vec![("k", J::s("StorageLive")), ("local", J::Num(l.as_u32() as i128))]),
                        StatementKind::StorageDead(l) => J::obj(vec![("k", J::s("StorageDead")), ("local", J::Num(l.as_u32() as i128))]),
                        StatementKind::SetDiscriminant { place, variant_index } => J::obj(vec![
                            ("k", J::s("SetDiscriminant")),
                            ("place", place_j(place)),
                            ("variant", J::Num(variant_index.as_u32() as i128)),
                        ]),
                        StatementKind::Nop
                        | StatementKind::FakeRead(..)
                        | StatementKind::AscribeUserType(..)
                        | StatementKind::Coverage(..)
                        | StatementKind::ConstEvalCounter
                        | StatementKind::PlaceMention(..) => return None,
                        other => J::obj(vec![("k", J::s("Other")), ("s", J::s(format!("{:?}", other).chars().take(200).collect::<String>()))]),
                    };
                    so.push("loc", J::s(loc_s(tcx, s.source_info.span)));
                    if s.source_info.span.from_expansion() {
                        so.push("exp", J::s(format!("{:?}", s.source_info.span.ctxt().outer_expn_data().kind)));
                    }
                    Some(so)
                })
                .collect();
            let term = data.terminator();
            let mut t = match &term.kind {
                TerminatorKind::Goto { target } => J::obj(vec![("k", J::s("Goto")), ("target", J::Num(target.as_u32() as i128))]),
                TerminatorKind::SwitchInt { discr, targets } => J::obj(vec![
                    ("k", J::s("SwitchInt")),
                    ("discr", operand_j(tcx, did, discr)),
                    ("discr_ty", J::s(ty_s(tcx, discr.ty(body, tcx)))),
                    (
                        "targets",
                        J::Arr(
                            targets
                                .iter()
                                .map(|(v, bb)| J::Arr(vec![J::s(v.to_string()), J::Num(bb.as_u32() as i128)]))
                                .collect(),
                        ),
                    ),
                    ("otherwise", J::Num(targets.otherwise().as_u32() as i128)),
                ]),
                TerminatorKind::Return => J::obj(vec![("k", J::s("Return"))]),
                TerminatorKind::Unreachable => J::obj(vec![("k", J::s("Unreachable"))]),
                TerminatorKind::UnwindResume => J::obj(vec![("k", J::s("UnwindResume"))]),
                TerminatorKind::UnwindTerminate(_) => J::obj(vec![("k", J::s("UnwindTerminate"))]),
                TerminatorKind::Drop { place, target, unwind, .. } => J::obj(vec![
                    ("k", J::s("Drop")),
                    ("place", place_j(place)),
                    ("target", J::Num(target.as_u32() as i128)),
                    ("unwind", unwind_j(unwind)),
                ]),
                TerminatorKind::Call { func, args, destination, target, unwind, fn_span, .. } => {
                    let mut c = J::obj(vec![("k", J::s("Call"))]);
                    let fty = func.ty(body, tcx);
                    if let ty::FnDef(fdid, gargs) = fty.kind() {
                        c.push("callee", callee_j(tcx, did, *fdid, gargs));
                    } else {
                        c.push("callee", J::Null);
                        c.push("func", operand_j(tcx, did, func));
                        c.push("func_ty", J::s(ty_s(tcx, fty)));
                    }
                    c.push("args", J::Arr(args.iter().map(|a| operand_j(tcx, did, &a.node)).collect()));
                    c.push("dest", place_j(destination));
                    c.push("target", target.map(|t| J::Num(t.as_u32() as i128)).unwrap_or(J::Null));
                    c.push("unwind", unwind_j(unwind));
                    c.push("fn_loc", J::s(loc_s(tcx, *fn_span)));
                    c
                }
                TerminatorKind::Assert { cond, expected, msg, target, unwind } => {
                    let (mk, ops): (String, Vec<J>) = match &**msg {
                        AssertKind::BoundsCheck { len, index } => {
                            ("BoundsCheck".into(), vec![operand_j(tcx, did, len), operand_j(tcx, did, index)])
                        }
                        AssertKind::Overflow(op, a, b) => {
                            (format!("Overflow({:?})", op), vec![operand_j(tcx, did, a), operand_j(tcx, did, b)])
                        }
                        AssertKind::OverflowNeg(a) => ("OverflowNeg".into(), vec![operand_j(tcx, did, a)]),
                        AssertKind::DivisionByZero(a) => ("DivisionByZero".into(), vec![operand_j(tcx, did, a)]),
                        AssertKind::RemainderByZero(a) => ("RemainderByZero".into(), vec![operand_j(tcx, did, a)]),
                        other => (format!("{:?}", other).split(|c| c == '(' || c == ' ').next().unwrap().to_string(), vec![]),
                    };
                    J::obj(vec![
                        ("k", J::s("Assert")),
                        ("cond", operand_j(tcx, did, cond)),
                        ("expected", J::Bool(*expected)),
                        ("msg", J::s(mk)),
                        ("ops", J::Arr(ops)),
                        ("target", J::Num(target.as_u32() as i128)),
                        ("unwind", unwind_j(unwind)),
                    ])
                }
                TerminatorKind::FalseEdge { real_target, .. } => {
                    J::obj(vec![("k", J::s("Goto")), ("target", J::Num(real_target.as_u32() as i128))])
                }
                TerminatorKind::FalseUnwind { real_target, .. } => {
                    J::obj(vec![("k", J::s("Goto")), ("target", J::Num(real_target.as_u32() as i128))])
                }
                other => J::obj(vec![("k", J::s("Other")), ("s", J::s(format!("{:?}", other).chars().take(200).collect::<String>()))]),
            };
            t.push("loc", J::s(loc_s(tcx, term.source_info.span)));
            if term.source_info.span.from_expansion() {
                let d = term.source_info.span.ctxt().outer_expn_data();
                t.push("exp", J::s(format!("{:?}", d.kind)));
            }
            J::obj(vec![("stmts", J::Arr(stmts)), ("term", t), ("cleanup", J::Bool(data.is_cleanup))])
        })
        .collect();
    o.push("blocks", J::Arr(blocks));
    o
}

fn unwind_j(u: &UnwindAction) -> J {
    match u {
        UnwindAction::Cleanup(bb) => J::Num(bb.as_u32() as i128),
        UnwindAction::Continue => J::s("Continue"),
        UnwindAction::Unreachable => J::s("Unreachable"),
        UnwindAction::Terminate(_) => J::s("Terminate"),
    }
}

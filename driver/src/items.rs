use crate::json::J;
use crate::util::*;
use rustc_hir::def::DefKind;
use rustc_middle::ty::{self, Ty, TyCtxt, TypeVisitableExt};

pub fn dump<'tcx>(tcx: TyCtxt<'tcx>) -> J {
    let mut adts = Vec::new();
    let mut fns = Vec::new();
    let mut impls = Vec::new();
    let mut statics = Vec::new();

    for ldid in tcx.hir_crate_items(()).definitions() {
        let did = ldid.to_def_id();
        let kind = tcx.def_kind(did);
        match kind {
            DefKind::Struct | DefKind::Enum | DefKind::Union => {
                let adt = tcx.adt_def(did);
                let variants: Vec<J> = adt
                    .variants()
                    .iter_enumerated()
                    .map(|(vi, v)| {
                        J::obj(vec![
                            ("name", J::s(v.name.to_string())),
                            ("index", J::Num(vi.as_u32() as i128)),
                            (
                                "fields",
                                J::Arr(
                                    v.fields
                                        .iter()
                                        .map(|f| {
                                            let fty = tcx.type_of(f.did).instantiate_identity().skip_norm_wip();
                                            J::obj(vec![
                                                ("name", J::s(f.name.to_string())),
                                                ("ty", ty_j(tcx, fty)),
                                                ("vis", J::s(vis_s(tcx, f.vis))),
                                            ])
                                        })
                                        .collect(),
                                ),
                            ),
                        ])
                    })
                    .collect();
                adts.push(J::obj(vec![
                    ("def", J::s(def_path(tcx, did))),
                    ("kind", J::s(format!("{:?}", adt.adt_kind()))),
                    ("vis", J::s(vis_s(tcx, tcx.visibility(did)))),
                    ("variants", J::Arr(variants)),
                    ("loc", J::s(loc_s(tcx, tcx.def_span(did)))),
                ]));
            }
            DefKind::Fn | DefKind::AssocFn => {
                let sig = tcx.fn_sig(did).instantiate_identity().skip_norm_wip().skip_binder();
                let mut o = J::obj(vec![
                    ("def", J::s(def_path(tcx, did))),
                    ("kind", J::s(format!("{:?}", kind))),
                    ("vis", J::s(vis_s(tcx, tcx.visibility(did)))),
                    ("inputs", J::Arr(sig.inputs().iter().map(|t| ty_j(tcx, *t)).collect())),
                    ("output", ty_j(tcx, sig.output())),
                    ("loc", J::s(loc_s(tcx, tcx.def_span(did)))),
                    ("name", J::s(tcx.item_name(did).to_string())),
                ]);
                if let Some(assoc) = tcx.opt_associated_item(did) {
                    if !matches!(assoc.container, ty::AssocContainer::Trait) {
                        let imp = tcx.parent(did);
                        let self_ty = tcx.type_of(imp).instantiate_identity().skip_norm_wip();
                        o.push("impl_self", ty_j(tcx, self_ty));
                        o.push("impl", J::s(def_path(tcx, imp)));
                        if let Some(tr) = tcx.impl_opt_trait_ref(imp) {
                            let tr = tr.instantiate_identity().skip_norm_wip();
                            o.push("impl_trait", J::s(def_path(tcx, tr.def_id)));
                        }
                        if tcx.is_automatically_derived(imp) {
                            o.push("derived", J::Bool(true));
                        }
                    } else {
                        o.push("in_trait", J::s(def_path(tcx, tcx.parent(did))));
                    }
                }
                if tcx.is_const_fn(did) {
                    o.push("const", J::Bool(true));
                }
                fns.push(o);
            }
            DefKind::Impl { of_trait } => {
                let self_ty = tcx.type_of(did).instantiate_identity().skip_norm_wip();
                let mut o = J::obj(vec![
                    ("def", J::s(def_path(tcx, did))),
                    ("self", ty_j(tcx, self_ty)),
                    ("of_trait", J::Bool(of_trait)),
                    ("derived", J::Bool(tcx.is_automatically_derived(did))),
                    ("loc", J::s(loc_s(tcx, tcx.def_span(did)))),
                ]);
                if let Some(tr) = tcx.impl_opt_trait_ref(did) {
                    let tr = tr.instantiate_identity().skip_norm_wip();
                    o.push("trait", J::s(def_path(tcx, tr.def_id)));
                    o.push("trait_ref", J::s(rustc_middle::ty::print::with_no_trimmed_paths!(format!("{}", tr))));
                }
                let items: Vec<J> = tcx
                    .associated_items(did)
                    .in_definition_order()
                    .map(|it| J::s(def_path(tcx, it.def_id)))
                    .collect();
                o.push("items", J::Arr(items));
                impls.push(o);
            }
            DefKind::Static { mutability, .. } => {
                let ty = tcx.type_of(did).instantiate_identity().skip_norm_wip();
                statics.push(J::obj(vec![
                    ("def", J::s(def_path(tcx, did))),
                    ("mutable", J::Bool(mutability.is_mut())),
                    ("ty", ty_j(tcx, ty)),
                    ("freeze", J::Bool(is_freeze(tcx, ty, did))),
                    ("loc", J::s(loc_s(tcx, tcx.def_span(did)))),
                ]));
            }
            _ => {}
        }
    }

    J::obj(vec![
        ("adts", J::Arr(adts)),
        ("fns", J::Arr(fns)),
        ("impls", J::Arr(impls)),
        ("statics", J::Arr(statics)),
        ("freeze", freeze_facts(tcx)),
    ])
}

fn vis_s(tcx: TyCtxt<'_>, v: ty::Visibility<rustc_hir::def_id::DefId>) -> String {
    match v {
        ty::Visibility::Public => "pub".into(),
        ty::Visibility::Restricted(d) => {
            if d.is_crate_root() {
                "crate".into()
            } else {
                format!("in {}", def_path(tcx, d))
            }
        }
    }
}

fn is_freeze<'tcx>(tcx: TyCtxt<'tcx>, ty: Ty<'tcx>, ctx: rustc_hir::def_id::DefId) -> bool {
    let env = ty::TypingEnv::post_analysis(tcx, ctx);
    ty.is_freeze(tcx, env)
}

/// For every fully monomorphic ADT type of a *workspace* crate that occurs as the type of a MIR
/// local anywhere in this crate (looking through Rc/Box/&/Vec/Option/RefCell wrappers), record
/// whether it is `Freeze` (no interior mutability reachable without indirection).
fn freeze_facts<'tcx>(tcx: TyCtxt<'tcx>) -> J {
    use std::collections::BTreeMap;
    let mut seen: BTreeMap<String, bool> = BTreeMap::new();
    fn visit<'tcx>(tcx: TyCtxt<'tcx>, ty: Ty<'tcx>, ctx: rustc_hir::def_id::DefId, seen: &mut BTreeMap<String, bool>, depth: usize) {
        if depth > 8 {
            return;
        }
        match ty.kind() {
            ty::Adt(adt, args) => {
                let krate = tcx.crate_name(adt.did().krate).to_string();
                let interesting = matches!(krate.as_str(), "rsbdd" | "rsbdd_fixtures");
                if interesting && !ty.has_param() && !ty.has_infer() && !ty.has_erasable_regions() {
                    let s = ty_s(tcx, ty);
                    if !seen.contains_key(&s) {
                        seen.insert(s, is_freeze(tcx, ty, ctx));
                    }
                }
                for a in args.iter() {
                    if let Some(t) = a.as_type() {
                        visit(tcx, t, ctx, seen, depth + 1);
                    }
                }
            }
            ty::Ref(_, t, _) | ty::RawPtr(t, _) | ty::Slice(t) | ty::Array(t, _) => visit(tcx, *t, ctx, seen, depth + 1),
            ty::Tuple(ts) => {
                for t in ts.iter() {
                    visit(tcx, t, ctx, seen, depth + 1);
                }
            }
            _ => {}
        }
    }
    for ldid in tcx.hir_body_owners() {
        let did = ldid.to_def_id();
        if !matches!(tcx.def_kind(did), DefKind::Fn | DefKind::AssocFn | DefKind::Closure) {
            continue;
        }
        let body = tcx.optimized_mir(did);
        for d in body.local_decls.iter() {
            visit(tcx, d.ty, did, &mut seen, 0);
        }
    }
    J::Arr(seen.into_iter().map(|(k, v)| J::obj(vec![("ty", J::s(k)), ("freeze", J::Bool(v))])).collect())
}

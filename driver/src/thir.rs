use crate::json::J;
use crate::util::*;
use rustc_hir::def_id::{DefId, LocalDefId};
use rustc_middle::thir::*;
use rustc_middle::ty::{self, TyCtxt};

pub fn dump_all(tcx: TyCtxt<'_>) -> Vec<J> {
    let mut out = Vec::new();
    for ldid in tcx.hir_body_owners() {
        let Ok((thir, root)) = tcx.thir_body(ldid) else { continue };
        let thir = thir.borrow();
        if thir.exprs.is_empty() {
            continue;
        }
        let cx = Cx { tcx, thir: &thir, owner: ldid };
        let did = ldid.to_def_id();
        let mut o = J::obj(vec![
            ("def", J::s(def_path(tcx, did))),
            ("def_kind", J::s(format!("{:?}", tcx.def_kind(did)))),
            ("span", span_j(tcx, tcx.def_span(did))),
        ]);
        let params: Vec<J> = thir
            .params
            .iter()
            .map(|p| {
                let mut po = J::obj(vec![("ty", ty_j(tcx, p.ty))]);
                if let Some(pat) = &p.pat {
                    po.push("pat", cx.pat(pat));
                }
                if let Some(sk) = p.self_kind {
                    po.push("self_kind", J::s(format!("{:?}", sk)));
                }
                po
            })
            .collect();
        o.push("params", J::Arr(params));
        o.push("body", cx.expr(root));
        out.push(o);
    }
    out
}

struct Cx<'a, 'tcx> {
    tcx: TyCtxt<'tcx>,
    thir: &'a Thir<'tcx>,
    owner: LocalDefId,
}

impl<'a, 'tcx> Cx<'a, 'tcx> {
    fn var(&self, id: LocalVarId) -> J {
        let name = self.tcx.hir_name(id.0);
        J::s(format!("{}#{}", name, id.0.local_id.as_u32()))
    }

    fn expr(&self, id: ExprId) -> J {
        let e = &self.thir[id];
        // transparent wrappers
        match &e.kind {
            ExprKind::Scope { value, .. } => return self.expr(*value),
            _ => {}
        }
        let tcx = self.tcx;
        let mut o = J::obj(vec![]);
        let k: &str;
        match &e.kind {
            ExprKind::Scope { .. } => unreachable!(),
            ExprKind::If { cond, then, else_opt, .. } => {
                k = "If";
                o.push("cond", self.expr(*cond));
                o.push("then", self.expr(*then));
                o.push("else", else_opt.map(|x| self.expr(x)).unwrap_or(J::Null));
            }
            ExprKind::Call { ty, fun, args, from_hir_call, fn_span } => {
                k = "Call";
                if let ty::FnDef(did, gargs) = ty.kind() {
                    o.push("callee", callee_j(tcx, self.owner.to_def_id(), *did, gargs));
                } else {
                    o.push("callee", J::Null);
                    o.push("fun", self.expr(*fun));
                    o.push("fun_ty", ty_j(tcx, *ty));
                }
                o.push("args", J::Arr(args.iter().map(|a| self.expr(*a)).collect()));
                o.push("from_hir_call", J::Bool(*from_hir_call));
                o.push("fn_loc", J::s(loc_s(tcx, *fn_span)));
            }
            ExprKind::ByUse { expr, .. } => {
                k = "Use";
                o.push("source", self.expr(*expr));
            }
            ExprKind::Deref { arg } => {
                k = "Deref";
                o.push("arg", self.expr(*arg));
            }
            ExprKind::Binary { op, lhs, rhs } => {
                k = "Binary";
                o.push("op", J::s(format!("{:?}", op)));
                o.push("lhs", self.expr(*lhs));
                o.push("rhs", self.expr(*rhs));
            }
            ExprKind::LogicalOp { op, lhs, rhs } => {
                k = "LogicalOp";
                o.push("op", J::s(format!("{:?}", op)));
                o.push("lhs", self.expr(*lhs));
                o.push("rhs", self.expr(*rhs));
            }
            ExprKind::Unary { op, arg } => {
                k = "Unary";
                o.push("op", J::s(format!("{:?}", op)));
                o.push("arg", self.expr(*arg));
            }
            ExprKind::Cast { source } => {
                k = "Cast";
                o.push("source", self.expr(*source));
                o.push("from_ty", ty_j(tcx, self.thir[*source].ty));
            }
            ExprKind::Use { source } => {
                k = "Use";
                o.push("source", self.expr(*source));
            }
            ExprKind::NeverToAny { source } => {
                k = "NeverToAny";
                o.push("source", self.expr(*source));
            }
            ExprKind::PointerCoercion { cast, source, is_from_as_cast } => {
                k = "PointerCoercion";
                o.push("cast", J::s(format!("{:?}", cast)));
                o.push("source", self.expr(*source));
                o.push("as_cast", J::Bool(*is_from_as_cast));
            }
            ExprKind::Loop { body } => {
                k = "Loop";
                o.push("body", self.expr(*body));
            }
            ExprKind::Let { expr, pat } => {
                k = "Let";
                o.push("expr", self.expr(*expr));
                o.push("pat", self.pat(pat));
            }
            ExprKind::Match { scrutinee, arms, match_source } => {
                k = "Match";
                o.push("scrutinee", self.expr(*scrutinee));
                o.push("source", J::s(format!("{:?}", match_source)));
                o.push(
                    "arms",
                    J::Arr(
                        arms.iter()
                            .map(|a| {
                                let arm = &self.thir[*a];
                                J::obj(vec![
                                    ("pat", self.pat(&arm.pattern)),
                                    ("guard", arm.guard.map(|g| self.expr(g)).unwrap_or(J::Null)),
                                    ("body", self.expr(arm.body)),
                                    ("span", span_j(tcx, arm.span)),
                                ])
                            })
                            .collect(),
                    ),
                );
            }
            ExprKind::Block { block } => {
                k = "Block";
                let b = &self.thir[*block];
                let stmts: Vec<J> = b
                    .stmts
                    .iter()
                    .map(|s| match &self.thir[*s].kind {
                        StmtKind::Expr { expr, .. } => {
                            J::obj(vec![("k", J::s("Expr")), ("expr", self.expr(*expr))])
                        }
                        StmtKind::Let { pattern, initializer, else_block, span, .. } => {
                            let mut so = J::obj(vec![
                                ("k", J::s("Let")),
                                ("pat", self.pat(pattern)),
                                ("init", initializer.map(|i| self.expr(i)).unwrap_or(J::Null)),
                                ("span", span_j(tcx, *span)),
                            ]);
                            if let Some(eb) = else_block {
                                so.push("else", self.block_as_expr(*eb));
                            }
                            so
                        }
                    })
                    .collect();
                o.push("stmts", J::Arr(stmts));
                o.push("expr", b.expr.map(|x| self.expr(x)).unwrap_or(J::Null));
                o.push("targeted_by_break", J::Bool(b.targeted_by_break));
                if !matches!(b.safety_mode, BlockSafety::Safe) {
                    o.push("unsafe", J::s(format!("{:?}", b.safety_mode).split('(').next().unwrap().to_string()));
                }
            }
            ExprKind::Assign { lhs, rhs } => {
                k = "Assign";
                o.push("lhs", self.expr(*lhs));
                o.push("rhs", self.expr(*rhs));
            }
            ExprKind::AssignOp { op, lhs, rhs } => {
                k = "AssignOp";
                o.push("op", J::s(format!("{:?}", op)));
                o.push("lhs", self.expr(*lhs));
                o.push("rhs", self.expr(*rhs));
            }
            ExprKind::Field { lhs, variant_index, name } => {
                k = "Field";
                o.push("lhs", self.expr(*lhs));
                o.push("variant", J::Num(variant_index.as_u32() as i128));
                o.push("field", J::Num(name.as_u32() as i128));
                let lty = self.thir[*lhs].ty;
                if let ty::Adt(adt, _) = lty.kind() {
                    let v = adt.variant(*variant_index);
                    if let Some(f) = v.fields.get(*name) {
                        o.push("field_name", J::s(f.name.to_string()));
                    }
                    o.push("adt", J::s(def_path(tcx, adt.did())));
                }
            }
            ExprKind::Index { lhs, index } => {
                k = "Index";
                o.push("lhs", self.expr(*lhs));
                o.push("index", self.expr(*index));
            }
            ExprKind::VarRef { id } => {
                k = "VarRef";
                o.push("var", self.var(*id));
            }
            ExprKind::UpvarRef { var_hir_id, .. } => {
                k = "UpvarRef";
                o.push("var", self.var(*var_hir_id));
            }
            ExprKind::Borrow { borrow_kind, arg } => {
                k = "Borrow";
                o.push("mut", J::Bool(matches!(borrow_kind, rustc_middle::mir::BorrowKind::Mut { .. })));
                o.push("arg", self.expr(*arg));
            }
            ExprKind::RawBorrow { mutability, arg } => {
                k = "RawBorrow";
                o.push("mut", J::Bool(mutability.is_mut()));
                o.push("arg", self.expr(*arg));
            }
            ExprKind::Break { value, .. } => {
                k = "Break";
                o.push("value", value.map(|v| self.expr(v)).unwrap_or(J::Null));
            }
            ExprKind::Continue { .. } => {
                k = "Continue";
            }
            ExprKind::Return { value } => {
                k = "Return";
                o.push("value", value.map(|v| self.expr(v)).unwrap_or(J::Null));
            }
            ExprKind::Repeat { value, .. } => {
                k = "Repeat";
                o.push("value", self.expr(*value));
            }
            ExprKind::Array { fields } => {
                k = "Array";
                o.push("fields", J::Arr(fields.iter().map(|f| self.expr(*f)).collect()));
            }
            ExprKind::Tuple { fields } => {
                k = "Tuple";
                o.push("fields", J::Arr(fields.iter().map(|f| self.expr(*f)).collect()));
            }
            ExprKind::Adt(adt) => {
                k = "Adt";
                let v = adt.adt_def.variant(adt.variant_index);
                o.push("adt", J::s(def_path(tcx, adt.adt_def.did())));
                o.push("adt_kind", J::s(format!("{:?}", adt.adt_def.adt_kind())));
                o.push("variant", J::s(v.name.to_string()));
                o.push("variant_index", J::Num(adt.variant_index.as_u32() as i128));
                o.push(
                    "fields",
                    J::Arr(
                        adt.fields
                            .iter()
                            .map(|f| {
                                J::obj(vec![
                                    ("idx", J::Num(f.name.as_u32() as i128)),
                                    ("name", J::s(v.fields[f.name].name.to_string())),
                                    ("expr", self.expr(f.expr)),
                                ])
                            })
                            .collect(),
                    ),
                );
                match &adt.base {
                    AdtExprBase::None => {}
                    AdtExprBase::Base(fru) => o.push("base", self.expr(fru.base)),
                    AdtExprBase::DefaultFields(_) => o.push("base", J::s("DefaultFields")),
                }
            }
            ExprKind::PlaceTypeAscription { source, .. } | ExprKind::ValueTypeAscription { source, .. } => {
                return self.expr(*source);
            }
            ExprKind::Closure(c) => {
                k = "Closure";
                o.push("def", J::s(def_path(tcx, c.closure_id.to_def_id())));
                o.push("upvars", J::Arr(c.upvars.iter().map(|u| self.expr(*u)).collect()));
            }
            ExprKind::Literal { lit, neg } => {
                k = "Literal";
                o.push("neg", J::Bool(*neg));
                use rustc_ast::LitKind;
                match &lit.node {
                    LitKind::Str(s, _) => {
                        o.push("lit", J::s("Str"));
                        o.push("value", J::s(s.as_str()));
                    }
                    LitKind::ByteStr(b, _) | LitKind::CStr(b, _) => {
                        o.push("lit", J::s("ByteStr"));
                        o.push("value", J::Arr(b.as_byte_str().iter().map(|x| J::Num(*x as i128)).collect()));
                    }
                    LitKind::Byte(b) => {
                        o.push("lit", J::s("Byte"));
                        o.push("value", J::Num(*b as i128));
                    }
                    LitKind::Char(c) => {
                        o.push("lit", J::s("Char"));
                        o.push("value", J::s(c.to_string()));
                    }
                    LitKind::Int(n, _) => {
                        o.push("lit", J::s("Int"));
                        o.push("value", J::s(n.get().to_string()));
                    }
                    LitKind::Float(s, _) => {
                        o.push("lit", J::s("Float"));
                        o.push("value", J::s(s.as_str()));
                    }
                    LitKind::Bool(b) => {
                        o.push("lit", J::s("Bool"));
                        o.push("value", J::Bool(*b));
                    }
                    LitKind::Err(_) => {
                        o.push("lit", J::s("Err"));
                    }
                }
            }
            ExprKind::NonHirLiteral { lit, .. } => {
                k = "NonHirLiteral";
                o.push("value", J::s(format!("{:?}", lit)));
            }
            ExprKind::ZstLiteral { .. } => {
                k = "ZstLiteral";
                if let ty::FnDef(did, gargs) = e.ty.kind() {
                    o.push("fn", callee_j(tcx, self.owner.to_def_id(), *did, gargs));
                }
            }
            ExprKind::NamedConst { def_id, .. } => {
                k = "NamedConst";
                o.push("def", J::s(def_path(tcx, *def_id)));
            }
            ExprKind::ConstParam { def_id, .. } => {
                k = "ConstParam";
                o.push("def", J::s(def_path(tcx, *def_id)));
            }
            ExprKind::StaticRef { def_id, .. } => {
                k = "StaticRef";
                o.push("def", J::s(def_path(tcx, *def_id)));
                o.push("mutable", J::Bool(tcx.is_mutable_static(*def_id)));
            }
            ExprKind::ThreadLocalRef(def_id) => {
                k = "ThreadLocalRef";
                o.push("def", J::s(def_path(tcx, *def_id)));
            }
            ExprKind::ConstBlock { did, .. } => {
                k = "ConstBlock";
                o.push("def", J::s(def_path(tcx, *did)));
            }
            ExprKind::InlineAsm(_) => {
                k = "InlineAsm";
            }
            other => {
                k = "Unsupported";
                o.push("dbg", J::s(format!("{:?}", other).chars().take(200).collect::<String>()));
            }
        }
        let mut res = J::obj(vec![("k", J::s(k)), ("ty", ty_j(tcx, e.ty)), ("loc", J::s(loc_s(tcx, e.span)))]);
        if e.span.from_expansion() {
            let d = e.span.ctxt().outer_expn_data();
            res.push("exp", J::s(format!("{:?}", d.kind)));
        }
        if let J::Obj(kvs) = o {
            for (k, v) in kvs {
                res.push(&k, v);
            }
        }
        res
    }

    fn block_as_expr(&self, id: BlockId) -> J {
        let b = &self.thir[id];
        let stmts: Vec<J> = b
            .stmts
            .iter()
            .map(|s| match &self.thir[*s].kind {
                StmtKind::Expr { expr, .. } => J::obj(vec![("k", J::s("Expr")), ("expr", self.expr(*expr))]),
                StmtKind::Let { pattern, initializer, .. } => J::obj(vec![
                    ("k", J::s("Let")),
                    ("pat", self.pat(pattern)),
                    ("init", initializer.map(|i| self.expr(i)).unwrap_or(J::Null)),
                ]),
            })
            .collect();
        J::obj(vec![
            ("k", J::s("Block")),
            ("stmts", J::Arr(stmts)),
            ("expr", b.expr.map(|x| self.expr(x)).unwrap_or(J::Null)),
        ])
    }

    pub fn pat(&self, p: &Pat<'tcx>) -> J {
        let tcx = self.tcx;
        let mut o = J::obj(vec![("ty", ty_j(tcx, p.ty)), ("loc", J::s(loc_s(tcx, p.span)))]);
        match &p.kind {
            PatKind::Missing => o.push("k", J::s("Missing")),
            PatKind::Wild => o.push("k", J::s("Wild")),
            PatKind::Binding { name, mode, var, subpattern, .. } => {
                o.push("k", J::s("Binding"));
                o.push("name", J::s(name.to_string()));
                o.push("var", self.var(*var));
                o.push("by_ref", J::Bool(!matches!(mode.0, rustc_hir::ByRef::No)));
                o.push("mutable", J::Bool(mode.1.is_mut()));
                if let Some(sp) = subpattern {
                    o.push("sub", self.pat(sp));
                }
            }
            PatKind::Variant { adt_def, variant_index, subpatterns, .. } => {
                o.push("k", J::s("Variant"));
                let v = adt_def.variant(*variant_index);
                o.push("adt", J::s(def_path(tcx, adt_def.did())));
                o.push("variant", J::s(v.name.to_string()));
                o.push("variant_index", J::Num(variant_index.as_u32() as i128));
                o.push("nfields", J::Num(v.fields.len() as i128));
                o.push(
                    "subs",
                    J::Arr(
                        subpatterns
                            .iter()
                            .map(|fp| J::obj(vec![("field", J::Num(fp.field.as_u32() as i128)), ("pat", self.pat(&fp.pattern))]))
                            .collect(),
                    ),
                );
            }
            PatKind::Leaf { subpatterns } => {
                o.push("k", J::s("Leaf"));
                if let ty::Adt(adt, _) = p.ty.kind() {
                    o.push("adt", J::s(def_path(tcx, adt.did())));
                    if adt.is_enum() && adt.variants().len() == 1 {
                        o.push("variant", J::s(adt.variants().iter().next().unwrap().name.to_string()));
                    }
                }
                o.push(
                    "subs",
                    J::Arr(
                        subpatterns
                            .iter()
                            .map(|fp| J::obj(vec![("field", J::Num(fp.field.as_u32() as i128)), ("pat", self.pat(&fp.pattern))]))
                            .collect(),
                    ),
                );
            }
            PatKind::Deref { subpattern, .. } => {
                o.push("k", J::s("Deref"));
                o.push("sub", self.pat(subpattern));
            }
            PatKind::DerefPattern { subpattern, .. } => {
                o.push("k", J::s("DerefPattern"));
                o.push("sub", self.pat(subpattern));
            }
            PatKind::Constant { value } => {
                o.push("k", J::s("Constant"));
                o.push("value", J::s(format!("{}", value)));
                if let Some(s) = try_str_value(tcx, *value) {
                    o.push("str", J::s(s));
                }
            }
            PatKind::Range(r) => {
                o.push("k", J::s("Range"));
                o.push("value", J::s(format!("{}", r)));
            }
            PatKind::Slice { prefix, slice, suffix } | PatKind::Array { prefix, slice, suffix } => {
                o.push("k", J::s("Slice"));
                o.push("prefix", J::Arr(prefix.iter().map(|x| self.pat(x)).collect()));
                o.push("slice", slice.as_ref().map(|x| self.pat(x)).unwrap_or(J::Null));
                o.push("suffix", J::Arr(suffix.iter().map(|x| self.pat(x)).collect()));
            }
            PatKind::Or { pats } => {
                o.push("k", J::s("Or"));
                o.push("pats", J::Arr(pats.iter().map(|x| self.pat(x)).collect()));
            }
            PatKind::Guard { subpattern, condition } => {
                o.push("k", J::s("Guard"));
                o.push("sub", self.pat(subpattern));
                o.push("cond", self.expr(*condition));
            }
            PatKind::Never => o.push("k", J::s("Never")),
            PatKind::Error(_) => o.push("k", J::s("Error")),
        }
        o
    }
}

fn try_str_value<'tcx>(tcx: TyCtxt<'tcx>, v: ty::Value<'tcx>) -> Option<String> {
    // &str constants in patterns: valtree of a reference to a str
    let ty = v.ty;
    if let ty::Ref(_, inner, _) = ty.kind() {
        if inner.is_str() {
            let bytes = v.try_to_raw_bytes(tcx)?;
            return String::from_utf8(bytes.to_vec()).ok();
        }
    }
    None
}

#[allow(dead_code)]
fn _unused(_: DefId) {}

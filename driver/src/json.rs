//! Minimal JSON value + serializer (the driver has zero cargo dependencies).

#[derive(Clone, Debug)]
pub enum J {
    Null,
    Bool(bool),
    Num(i128),
    Str(String),
    Arr(Vec<J>),
    Obj(Vec<(String, J)>),
}

impl J {
    pub fn s<T: Into<String>>(s: T) -> J {
        J::Str(s.into())
    }
    pub fn obj(kvs: Vec<(&str, J)>) -> J {
        J::Obj(kvs.into_iter().map(|(k, v)| (k.to_string(), v)).collect())
    }
    pub fn push(&mut self, k: &str, v: J) {
        if let J::Obj(kvs) = self {
            kvs.push((k.to_string(), v));
        }
    }
    pub fn write(&self, out: &mut String) {
        match self {
            J::Null => out.push_str("null"),
            J::Bool(b) => out.push_str(if *b { "true" } else { "false" }),
            J::Num(n) => out.push_str(&n.to_string()),
            J::Str(s) => write_str(s, out),
            J::Arr(a) => {
                out.push('[');
                for (i, x) in a.iter().enumerate() {
                    if i > 0 {
                        out.push(',');
                    }
                    x.write(out);
                }
                out.push(']');
            }
            J::Obj(kvs) => {
                out.push('{');
                for (i, (k, v)) in kvs.iter().enumerate() {
                    if i > 0 {
                        out.push(',');
                    }
                    write_str(k, out);
                    out.push(':');
                    v.write(out);
                }
                out.push('}');
            }
        }
    }
}

fn write_str(s: &str, out: &mut String) {
    out.push('"');
    for c in s.chars() {
        match c {
            '"' => out.push_str("\\\""),
            '\\' => out.push_str("\\\\"),
            '\n' => out.push_str("\\n"),
            '\r' => out.push_str("\\r"),
            '\t' => out.push_str("\\t"),
            c if (c as u32) < 0x20 => out.push_str(&format!("\\u{:04x}", c as u32)),
            c => out.push(c),
        }
    }
    out.push('"');
}

#!/usr/bin/env python3
"""second campaign: statement deletions and a few structural slips"""
import re, json, random
FILES = ['src/bdd.rs', 'src/parser.rs', 'src/set.rs', 'src/truth_table.rs', 'src/bdd_io.rs', 'src/parser_io.rs', 'src/bin/rsbdd.rs',
         'n_queens_gen/src/main.rs', 'max_clique_gen/src/main.rs', 'sudoku_gen/src/main.rs', 'random_graph_gen/src/main.rs']
out = []
for f in FILES:
    lines = open('/repo/' + f).read().split('\n')
    in_tests = False
    for i, ln in enumerate(lines):
        st = ln.strip()
        if st.startswith('#[cfg(test)]'): in_tests = True
        if in_tests or not st or st.startswith('//'): continue
        # a complete one-line statement that is not a declaration: delete it
        if st.endswith(';') and not st.startswith(('let ', 'use ', 'return', 'pub ', 'const ', 'static ', 'type ', 'mod ', 'break', 'continue', '}', ')')) and st.count('(') == st.count(')') and st.count('{') == st.count('}'):
            out.append(dict(file=f, line=i + 1, col=0, old=ln, new='', op='delete-statement'))
        # `.clone()` of the other of two similarly named variables: l <-> r, a <-> b, left <-> right (whole words, once per line)
        for a, b in (('left', 'right'), ('true_subtree', 'false_subtree'), ('v1', 'v2'), ('ov1', 'ov2'), ('c1', 'c2')):
            for m in re.finditer(r'\b%s\b' % a, ln):
                out.append(dict(file=f, line=i + 1, col=m.start(), old=a, new=b, op='other-name'))
                break
        # numeric literal off by one
        for m in re.finditer(r'\b([2-9]|10)\b', ln):
            if ln[:m.start()].count('"') % 2 == 0:
                out.append(dict(file=f, line=i + 1, col=m.start(), old=m.group(0), new=str(int(m.group(0)) + 1), op='literal+1'))
                break
random.seed(11)
random.shuffle(out)
json.dump(out, open('/tmp/mut2/sites.json', 'w'))
print(len(out))

#!/usr/bin/env python3
"""fourth campaign: text inside string literals, writeln/write, swallowed errors, swapped right-hand sides of adjacent one-line match arms"""
import re, json, random, collections
FILES = ['src/bdd.rs', 'src/parser.rs', 'src/set.rs', 'src/truth_table.rs', 'src/bdd_io.rs', 'src/parser_io.rs', 'src/bin/rsbdd.rs',
         'n_queens_gen/src/main.rs', 'max_clique_gen/src/main.rs', 'sudoku_gen/src/main.rs', 'random_graph_gen/src/main.rs']
STR_OPS = [(' & ', ' | '), (' &"', ' |"'), ('<= 1', '>= 1'), ('= 1', '= 0'), ('>= ', '<= '), ('forall', 'exists'), ('=>', '<='), ('-(', '('), ('v_', 'w_'), ('_is_', '_in_'),
           ('true', 'false'), ('" -- "', '" -> "'), (' -- ', ' -> '), (' -> ', ' -- '), ('{},{}', '{};{}'), ('graph G', 'digraph G'), ('"T"', '"F"'), ('"F"', '"T"'),
           ('n_true', 'n_false'), ('"true"', '"false"'), ('"false"', '"true"'), ('", "', '" "'), ('[{}]', '({})'), ('"*"', '"+"'), ('{};', '{}')]
out = []
def add(f, i, col, old, new, op): out.append(dict(file=f, line=i + 1, col=col, old=old, new=new, op=op))
for f in FILES:
    lines = open('/repo/' + f).read().split('\n')
    in_tests = False
    for i, ln in enumerate(lines):
        st = ln.strip()
        if st.startswith('#[cfg(test)]'): in_tests = True
        if in_tests or not st or st.startswith('//') or st.startswith('#[') or st.startswith('use '): continue
        # inside string literals
        for m in re.finditer(r'"(?:[^"\\]|\\.)*"', ln):
            lit = m.group(0)
            if lit.startswith('"\\"'): continue        # a remark of the generated file
            for a, b in STR_OPS:
                a2 = a.strip('"') if a.startswith('"') and a.endswith('"') and len(a) > 2 else a
                if a.startswith('"') and a.endswith('"') and len(a) > 2:
                    if lit == a: add(f, i, m.start(), lit, b, 'string:' + a)
                    continue
                k = lit.find(a)
                if k > 0: add(f, i, m.start() + k, a, b, 'string:' + a)
        for m in re.finditer(r'\bwriteln!\(', ln): add(f, i, m.start(), 'writeln!(', 'write!(', 'writeln-write')
        for m in re.finditer(r'\bprintln!\(', ln): add(f, i, m.start(), 'println!(', 'print!(', 'println-print')
        if st.endswith(')?;') and not st.startswith(('let ', 'return')) and '=' not in st.split('(')[0]:
            k = ln.rfind('?;'); add(f, i, k, '?;', '.ok();', 'error-swallowed')
        # adjacent one-line arms: swap right-hand sides
        m1 = re.match(r'^(\s*)(.+?) => (.+),$', ln)
        if m1 and i + 1 < len(lines):
            m2 = re.match(r'^(\s*)(.+?) => (.+),$', lines[i + 1])
            if m2 and m1.group(1) == m2.group(1) and m1.group(3) != m2.group(3) and '{' not in m1.group(3) + m2.group(3):
                out.append(dict(file=f, line=i + 1, col=0, old=ln + '\n' + lines[i + 1], new='%s%s => %s,\n%s%s => %s,' % (m1.group(1), m1.group(2), m2.group(3), m2.group(1), m2.group(2), m1.group(3)), op='swap-arm-bodies', two_lines=True))
random.seed(3)
random.shuffle(out)
json.dump(out, open('/tmp/mut4/sites.json', 'w'))
print(len(out), dict(collections.Counter(x['op'].split(':')[0] for x in out)))

#!/usr/bin/env python3
"""third campaign: swapped arguments, dropped conjuncts, thinned iterations, constant conditions, index slips"""
import re, json, random
FILES = ['src/bdd.rs', 'src/parser.rs', 'src/set.rs', 'src/truth_table.rs', 'src/bdd_io.rs', 'src/parser_io.rs', 'src/bin/rsbdd.rs',
         'n_queens_gen/src/main.rs', 'max_clique_gen/src/main.rs', 'sudoku_gen/src/main.rs', 'random_graph_gen/src/main.rs']
out = []
def add(f, i, col, old, new, op): out.append(dict(file=f, line=i + 1, col=col, old=old, new=new, op=op))
for f in FILES:
    lines = open('/repo/' + f).read().split('\n')
    in_tests = False
    for i, ln in enumerate(lines):
        st = ln.strip()
        if st.startswith('#[cfg(test)]'): in_tests = True
        if in_tests or not st or st.startswith('//') or st.startswith('#[') or st.startswith('use '): continue
        def outside_string(pos): return ln[:pos].count('"') % 2 == 0
        for m in re.finditer(r'\((&?\w+(?:\.\w+\(\))?), (&?\w+(?:\.\w+\(\))?)\)', ln):
            if outside_string(m.start()) and m.group(1) != m.group(2): add(f, i, m.start(), m.group(0), '(%s, %s)' % (m.group(2), m.group(1)), 'swap-args')
        for m in re.finditer(r' (&&|\|\|) ', ln):
            if outside_string(m.start()):
                # drop everything from the operator to the end of the condition on this line when it ends with ` {`
                tail = ln[m.start():]
                if tail.rstrip().endswith('{') and tail.count('(') == tail.count(')'):
                    add(f, i, m.start(), tail, ' {', 'drop-right-operand')
        for m in re.finditer(r'\.iter\(\)', ln):
            if outside_string(m.start()):
                add(f, i, m.start(), '.iter()', '.iter().skip(1)', 'iter-skip1')
                add(f, i, m.start(), '.iter()', '.iter().rev()', 'iter-rev')
        m = re.match(r'^(\s*)(\} else )?if (?!let )(.*) \{$', ln)
        if m and outside_string(len(ln)):
            pre = m.group(1) + (m.group(2) or '')
            add(f, i, len(pre), ln[len(pre):], 'if true {', 'if-true')
            add(f, i, len(pre), ln[len(pre):], 'if false {', 'if-false')
        for m in re.finditer(r'\[0\]', ln):
            if outside_string(m.start()): add(f, i, m.start(), '[0]', '[1]', 'index0')
        for m in re.finditer(r'\[1\]', ln):
            if outside_string(m.start()): add(f, i, m.start(), '[1]', '[0]', 'index1')
        for m in re.finditer(r'(?<![\w.])0(?![\w.])', ln):
            if outside_string(m.start()) and '..' not in ln[max(0, m.start() - 2):m.end() + 2]: add(f, i, m.start(), '0', '1', 'zero-one')
        for m in re.finditer(r'a\.id\.cmp\(&b\.id\)', ln): add(f, i, m.start(), m.group(0), 'b.id.cmp(&a.id)', 'sort-reversed')
random.seed(5)
random.shuffle(out)
json.dump(out, open('/tmp/mut3/sites.json', 'w'))
import collections
print(len(out), dict(collections.Counter(x['op'] for x in out)))

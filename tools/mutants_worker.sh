#!/bin/bash
# usage: worker.sh <k> <start> <step>   - processes mutants start, start+step, ...
K=$1; START=$2; STEP=$3
D=${MUT_DIR:-/tmp/mut}; WT=$D/w$K; TG=$D/t$K; EV=$D/ev$K; OUT=$D/out$K.jsonl
git -C /repo worktree remove --force $WT 2>/dev/null; rm -rf $WT
git -C /repo worktree add -q $WT HEAD || exit 2
mkdir -p $EV; : > $OUT
N=$(python3 -c "import json;print(len(json.load(open('${MUT_DIR:-/tmp/mut}/sites.json'))))")
LIMIT=${LIMIT:-$N}
i=$START
while [ $i -lt $N ] && [ $i -lt $LIMIT ]; do
  cd $WT && git checkout -q -- .
  python3 - $i <<'PY'
import json,sys
i=int(sys.argv[1]); m=json.load(open('${MUT_DIR:-/tmp/mut}/sites.json'))[i]
import os
p=os.path.join(os.getcwd(), m['file']); L=open(p).read().split('\n'); ln=L[m['line']-1]
L[m['line']-1]=ln[:m['col']]+m['new']+ln[m['col']+len(m['old']):]
open(p,'w').write('\n'.join(L))
PY
  status=survived; fired=""
  if ! CARGO_TARGET_DIR=$TG cargo build --workspace --offline -q >/dev/null 2>&1; then status=nocompile
  elif ! CARGO_TARGET_DIR=$TG timeout 600 cargo test --workspace --offline -q >/dev/null 2>&1; then status=killed
  else
    for p in C01 C02 C03 C04 C05 C06 C07 C08 C09 C10 C11 C12 C13 C14 C15 C16 C17 C18 C19 C20; do
      RSBDD_REPO=$WT RSBDD_EVIDENCE_DIR=$EV RSBDD_NO_CONTROLS=1 /verif/check $p >/dev/null 2>&1 || fired="$fired $p"
    done
  fi
  echo "{\"i\": $i, \"status\": \"$status\", \"fired\": \"$fired\"}" >> $OUT
  i=$((i+STEP))
done
cd /; git -C /repo worktree remove --force $WT 2>/dev/null
echo WORKERDONE >> $OUT

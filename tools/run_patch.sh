#!/bin/bash
# usage: tools/run_patch.sh <patch.diff> <tag> [checks...]
# Applies one patch to a scratch worktree of /repo HEAD (outside /repo and /verif), runs the quick tier of every check (or the
# listed ones) against it without positive controls, prints `FIRED: <ids>` and the violation lines, removes the worktree.
set -u
PATCH=$(readlink -f "$1"); TAG=$2; shift 2
CHECKS=${*:-C01 C02 C03 C04 C05 C06 C07 C08 C09 C10 C11 C12 C13 C14 C15 C16 C17 C18 C19 C20}
WT=$(mktemp -d /tmp/rp-$TAG-XXXX); rmdir $WT
EV=$(mktemp -d /tmp/rp-ev-$TAG-XXXX)
git -C /repo worktree add -q $WT HEAD || exit 2
trap 'cd /; git -C /repo worktree remove --force $WT 2>/dev/null; rm -rf $EV' EXIT
cd $WT
if ! git apply $PATCH 2>/dev/null; then echo "PATCH DOES NOT APPLY: $PATCH"; exit 3; fi
FIRED=""
for p in $CHECKS; do
  o=$(RSBDD_REPO=$WT RSBDD_EVIDENCE_DIR=$EV RSBDD_NO_CONTROLS=1 /verif/check $p 2>&1); rc=$?
  if [ $rc -ne 0 ]; then FIRED="$FIRED $p"; echo "--- $p exit=$rc"; echo "$o" | grep -E "^ *violation" | cut -c1-${RP_WIDTH:-300}; fi
done
echo "FIRED[$TAG]:$FIRED"

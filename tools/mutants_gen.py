#!/usr/bin/env python3
"""enumerate small textual mutations of the non-test sources; prints a JSON list of (file, line, col, old, new, op)"""
import re, json, random, sys
FILES = ['src/bdd.rs', 'src/parser.rs', 'src/set.rs', 'src/truth_table.rs', 'src/bdd_io.rs', 'src/parser_io.rs', 'src/bin/rsbdd.rs',
         'n_queens_gen/src/main.rs', 'max_clique_gen/src/main.rs', 'sudoku_gen/src/main.rs', 'random_graph_gen/src/main.rs']
OPS = [
 (r' == ', ' != ', 'eq'), (r' != ', ' == ', 'ne'),
 (r' <= ', ' < ', 'le'), (r' >= ', ' > ', 'ge'), (r' < ', ' <= ', 'lt'), (r' > ', ' >= ', 'gt'),
 (r' \+ 1\b', ' - 1', 'plus1'), (r' - 1\b', ' + 1', 'minus1'), (r' \+ ', ' - ', 'plus'), (r' \* ', ' + ', 'times'),
 (r' && ', ' || ', 'and'), (r' \|\| ', ' && ', 'or'),
 (r'\btrue\b', 'false', 'true'), (r'\bfalse\b', 'true', 'false'),
 (r'if !', 'if ', 'ifnot'), (r'\(!', '(', 'parennot'),
 (r'\.0\b', '.1', 'dot0'), (r'\.1\b', '.0', 'dot1'),
 (r'0\.\.', '1..', 'range0'), (r'\.\.=', '..', 'rangeincl'),
 (r'::True\b', '::False', 'True'), (r'::False\b', '::True', 'False'), (r'::Any\b', '::True', 'Any'),
 (r'\bmin\(', 'max(', 'min'), (r'\bmax\(', 'min(', 'max'),
 (r'\.is_some\(\)', '.is_none()', 'is_some'), (r'\.is_ok\(\)', '.is_err()', 'is_ok'), (r'\.is_err\(\)', '.is_ok()', 'is_err'),
 (r'\bOr\b', 'And', 'OrAnd'), (r'\bExists\b', 'Forall', 'Exists'), (r'\bAtLeast\b', 'AtMost', 'AtLeast'), (r'\bLessThan\b', 'MoreThan', 'LessThan'),
 (r'\bGFP\b', 'LFP', 'GFP'), (r'count_leq\(', 'count_geq(', 'count_leq'), (r'\.aln\(', '.amn(', 'aln'), (r'\.and\(', '.or(', 'and_call'), (r'\.or\(', '.and(', 'or_call'),
 (r'\.exists\(', '.all(', 'exists_call'), (r'\(l\b', '(r', 'l_r'), (r'\(a, b\)', '(b, a)', 'swap_ab'),
]
out = []
for f in FILES:
    lines = open('/repo/' + f).read().split('\n')
    in_tests = False
    for i, ln in enumerate(lines):
        st = ln.strip()
        if st.startswith('#[cfg(test)]'): in_tests = True
        if in_tests: continue
        if not st or st.startswith('//') or st.startswith('#[') or st.startswith('use ') or st.startswith('///'): continue
        code = ln.split('//')[0] if '//' in ln and '"' not in ln else ln
        for rx, rep, op in OPS:
            for m in re.finditer(rx, code):
                # not inside a string literal (rough: even number of quotes before)
                if code[:m.start()].count('"') % 2 == 1 and op not in ('true', 'false'): continue
                if code[:m.start()].count('"') % 2 == 1: continue
                out.append(dict(file=f, line=i + 1, col=m.start(), old=m.group(0), new=rep, op=op))
random.seed(int(sys.argv[1]) if len(sys.argv) > 1 else 1)
random.shuffle(out)
json.dump(out, open('/tmp/mut/sites.json', 'w'))
print(len(out))

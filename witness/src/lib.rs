//! Type-level witnesses (nightly doc-tests) used by the thorough tier of C13.
//! Each positive witness is paired with a compile_fail twin that differs only in the offending type,
//! so that a witness whose path is merely wrong cannot pass.

/// Diagram nodes have no interior mutability of their own (`Freeze`): a shared `Rc<BDD<_>>` can never change.
/// ```
/// #![feature(freeze)]
/// fn frozen<T: core::marker::Freeze>() {}
/// frozen::<rsbdd::bdd::BDD<usize>>();
/// frozen::<rsbdd::bdd::BDD<rsbdd::NamedSymbol>>();
/// frozen::<rsbdd::NamedSymbol>();
/// ```
///
/// The twin: the environment (which holds the `RefCell` table) is *not* `Freeze`, so the bound is not vacuous.
/// ```compile_fail,E0277
/// #![feature(freeze)]
/// fn frozen<T: core::marker::Freeze>() {}
/// frozen::<rsbdd::bdd::BDDEnv<usize>>();
/// ```
pub struct FreezeWitness;

/// A node reached through a shared `Rc` cannot be mutated in place: `Rc<BDD<_>>` hands out only `&BDD`.
/// ```
/// use std::rc::Rc;
/// let env = rsbdd::bdd::BDDEnv::<usize>::new();
/// let x: Rc<rsbdd::bdd::BDD<usize>> = env.var(0);
/// let _r: &rsbdd::bdd::BDD<usize> = x.as_ref();
/// ```
/// ```compile_fail,E0594
/// use std::rc::Rc;
/// let env = rsbdd::bdd::BDDEnv::<usize>::new();
/// let x: Rc<rsbdd::bdd::BDD<usize>> = env.var(0);
/// *x = rsbdd::bdd::BDD::True;
/// ```
pub struct SharedNodeWitness;

/// The unique table can only be reached through its `RefCell`: there is no `&mut` path to it from a shared environment.
/// ```
/// let env = rsbdd::bdd::BDDEnv::<usize>::new();
/// let _n = env.nodes.borrow().len();
/// ```
/// ```compile_fail,E0596
/// let env = std::rc::Rc::new(rsbdd::bdd::BDDEnv::<usize>::new());
/// env.nodes.get_mut().clear();
/// ```
pub struct TableWitness;

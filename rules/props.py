"""One function per claimed property: runs the engines on the extracted facts and reports."""
import os, time
import framework
from framework import Report, finish
from facts import canon, walk, callee_name
from engine import Engine
from absint import Undecidable
import spec_bdd

TRUSTED = ['rustc nightly front end: THIR/MIR are what gets compiled',
           'fact extractor /verif/driver (serialisation of THIR/MIR/items to JSON)',
           'abstract interpreter /verif/rules/absint.py and decision procedure /verif/rules/logic.py',
           'specification table /verif/rules/spec_*.py (transcribed from the property statements)',
           'meta-theorems M1-M4, M6 of DESIGN.md (denotation, structural induction, pointwise composition, Bryant canonicity, lawful Ord)']

def short_label(l):
    return l.split('(result')[0].split(' (cofactor')[0].strip()

def run_S(report, E, fnames, prefix=spec_bdd.B, closure=True):
    """Explore every function, turn obligations into report entries.  Returns {fname: exploration}.
    With closure=True the summaries the explored bodies rely on are themselves verified (transitively), so that no proof rests on an
    unchecked summary: every specified function that is called and has a body and a post-condition is explored as well."""
    results = {}
    work = [prefix + n if not n.startswith('rsbdd') else n for n in fnames]
    requested = set(work)
    while work:
        full = work.pop(0)
        if full in results or full in report.s_done: continue
        report.s_done.add(full)
        if E.thir(full) is None:
            import facts as _facts
            if _facts.baseline_private(full):
                # a private helper of the pinned tree that no longer exists (merged into its callers): nothing to prove about it;
                # its callers are proved against their own specifications with whatever they call now
                report.count('private-helpers-gone'); continue
        try:
            res = E.explore(full)
        except Undecidable as u:
            report.violation('%s / UNDECIDABLE / %s' % (full, u.construct), 'UNDECIDABLE',
                             'cannot analyse %s: %s (fail closed)' % (full, u.construct), u.loc)
            continue
        results[full] = res
        if closure:
            for (I, params, r, obls) in res:
                for ev in I.events:
                    if ev[0] == 'call' and ev[1] not in results and ev[1] not in work and ev[1] in E.specs and E.specs[ev[1]].post is not None and E.thir(ev[1]) is not None:
                        work.append(ev[1])
        report.functions.append({'fn': full, 'worlds': len(res), 'obligations': sum(len(o) for _, _, _, o in res), 'requested': full in requested})
        report.count('functions')
        report.count('worlds', len(res))
        for (I, params, r, obls) in res:
            for ev in I.events:
                if ev[0] == 'mk_choice': report.count('mk_choice-sites-x-worlds')
            for o in obls:
                ident = '%s | %s | %s' % (full, short_label(o.label), o.world)
                report.obligation(o.ok, ident)
                if o.ok:
                    if o.kind == 'valid': report.sample({'fn': full, 'world': o.world, 'obligation': o.label, 'goal': o.detail.get('goal'), 'assumptions': o.detail.get('assumptions'), 'cases': o.detail.get('cases')})
                else:
                    rule = short_label(o.label).split(':')[0]
                    report.violation('%s / %s / world[%s]' % (full, short_label(o.label), o.world), rule,
                                     '%s fails in abstract world [%s]' % (o.label, o.world), o.loc, o.detail)
    return results

def static_mk_choice_sites(crate, fnames, prefix=spec_bdd.B):
    n = 0
    for f in fnames:
        t = getattr(crate, 'ithir', crate.thir).get(prefix + f)
        if not t: continue
        for e in walk(t['body']):
            if e['k'] == 'Call' and callee_name(e) == spec_bdd.B + 'mk_choice': n += 1
    return n

def make_engine(F):
    E = Engine(F)
    spec_bdd.install(E)
    return E

def fixed_point_arms(R, E):
    """the FixedPoint / Subtree / Quantifier arms of eval_recursive (engine S): one call of fp from const(initial) with the transformer
    y -> eval(body[X := Subtree y]); Subtree evaluates to the stored diagram; a quantifier is exists / all over the listed names"""
    res = E.explore(EVF)
    n = 0
    for (I, params, r, obls) in res:
        v = spec_parser.variant_of(I, params[1].term)
        if v not in ('FixedPoint', 'Subtree', 'Quantifier'): continue
        for o in obls:
            n += 1
            R.obligation(o.ok, '%s | %s | %s' % (EVF, short_label(o.label), o.world))
            if not o.ok:
                R.violation('%s / %s / world[%s]' % (EVF, short_label(o.label), o.world), short_label(o.label).split(':')[0], '%s fails in abstract world [%s]' % (o.label, o.world), o.loc, o.detail)
    R.count('evaluator-fixed-point-obligations', n)

def check_C03(F, tier, t0):
    R = Report('C03')
    E = make_engine(F)
    fns = spec_bdd.BDD_SCOPE['C03']
    run_S(R, E, fns)
    R.count('mk_choice-call-sites', static_mk_choice_sites(F.lib(), fns))
    # language level: every spelling of the connectives, the token -> operator table of the parser, the evaluator's dispatch
    guarded(R, 'T tokens', engine_t.rule_tokens, F, R, {'And', 'Or', 'Xor', 'Not', 'Nor', 'Nand', 'Implies', 'ImpliesInv', 'Iff', 'If', 'Then', 'Else'})
    guarded(R, 'T binary operators', engine_t.rule_operator_tables, F, R, ('binop',))
    for _cons in ('BinaryOp', 'Not', 'Ite'):
        guarded(R, 'A3 (%s constructor)' % _cons, a3_filtered, F, R, _cons, 'A3:connective-constructors')
    guarded(R, 'A2 (connective syntax)', a2_filtered, F, R, ('If', 'Not', '<simple>', 'OpenParen'), 'A2:connective-syntax')
    guarded(R, 'S eval_recursive (connective arms)', arm_obligations, R, E, EVF, ('BinaryOp', 'Not', 'Ite', 'Const'), 'evaluator-connective-obligations')
    R.floor('functions', 10); R.floor('worlds', 12); R.floor('mk_choice-call-sites', 1); R.floor('mk_choice-sites-x-worlds', 4); R.floor('T:binary-operator-rows', 8); R.floor('evaluator-connective-obligations', 4)
    guarded(R, 'T regex', engine_t.rule_regex, F, R)      # names are read as written (tokenizer regex)
    guarded(R, 'X5', engine_x.rule_X5, F, R)      # distinct names are distinct symbols
    return finish(R, 'proof', tier, t0,
        'Inductive proof, by exhaustive enumeration of abstract worlds (leaf/choice shape of each operand, total pre-order of the compared symbols) of each '
        'function body taken from type-checked THIR, that and/or/not/implies/ite/eq/xor/nor/nand/var return the specified pointwise truth function for ALL operand '
        'diagrams and all symbol orders; recursive calls use the summary as induction hypothesis (size-change checked); each obligation is a propositional identity '
        'decided by truth table. Also: every mk_choice call is order-respecting and support(result) is within support(operands). mk_const is an axiom here (rule E3 in C13).',
        TRUSTED, ['operands are ordered diagrams over a common lawful total order (precondition of the property)'],
        './check C03')

def check_C04(F, tier, t0):
    R = Report('C04')
    E = make_engine(F)
    fns = spec_bdd.BDD_SCOPE['C04']
    run_S(R, E, fns)
    R.count('mk_choice-call-sites', static_mk_choice_sites(F.lib(), fns))
    # language level: the four quantifier keywords, the parser's Quantifier constructor, the evaluator's and the substitution's Quantifier arm
    guarded(R, 'T tokens', engine_t.rule_tokens, F, R, {'Exists', 'Forall'})
    guarded(R, 'A3 (Quantifier constructor)', a3_filtered, F, R, ('Quantifier', 'parse_variable_list'), 'A3:quantifier-constructor')
    guarded(R, 'A2 (quantifier syntax)', a2_filtered, F, R, ('Exists', 'Forall'), 'A2:quantifier-syntax')
    guarded(R, 'S eval_recursive (Quantifier arm)', arm_obligations, R, E, EVF, ('Quantifier',), 'evaluator-quantifier-obligations')
    guarded(R, 'S replace_var (Quantifier arm)', arm_obligations, R, E, RVF, ('Quantifier',), 'substitution-quantifier-obligations')
    R.floor('functions', 3); R.floor('worlds', 3); R.floor('mk_choice-call-sites', 1); R.floor('T:keyword-spellings', 4); R.floor('evaluator-quantifier-obligations', 1)
    guarded(R, 'T regex', engine_t.rule_regex, F, R)      # names are read as written (tokenizer regex)
    guarded(R, 'X5', engine_x.rule_X5, F, R)      # distinct names are distinct symbols
    return finish(R, 'proof', tier, t0,
        'exists_impl(s,b) = b|s=1 or b|s=0 proved by structural induction in the cofactor-pair domain (every atom is the pair of its two cofactors; children of an '
        'ordered node testing s are independent of s); s is not in the support of the result and support(result) is within support(b); exists(V,b) is exactly the fold of '
        'exists_impl over V (term identity with the defining equations) and all(V,b) exactly the dual not(exists(V,not b)). Order/repetition independence and identity on '
        'disjoint V are mathematical consequences of these equations. Language level: exists/any and forall/all are the quantifier keywords, the parser builds the '
        'Quantifier node from them, and the evaluator maps it to exists/all over the whole binder list.',
        TRUSTED, ['operands are ordered diagrams over a common lawful total order'], './check C04')

def check_C20(F, tier, t0):
    R = Report('C20')
    E = make_engine(F)
    fns = spec_bdd.BDD_SCOPE['C20']
    run_S(R, E, fns)
    guarded(R, 'S helper predicates', run_S, R, E, spec_bdd.HELPER_FNS, spec_bdd.B, False)
    guarded(R, 'X4 retain', engine_x.rule_X4, F, R, ('retain',))
    guarded(R, 'T filter spellings', engine_t.rule_tte, F, R)       # the value of -c is parsed by the same FromStr
    guarded(R, 'E1', engine_e.rule_E1, F, R)                        # every rebuilt node goes through mk_choice (reduced, shared)
    R.count('mk_choice-call-sites', static_mk_choice_sites(F.lib(), fns))
    R.floor('functions', 1); R.floor('worlds', 8); R.floor('mk_choice-call-sites', 1)
    return finish(R, 'proof', tier, t0,
        'Per filter value, inductive proof over all shapes of the two recursively rebuilt children that retain(True) is implied by f, retain(False) implies f, retain(Any) is f '
        'itself; every rebuilt node is order-respecting (mk_choice obligations) and support(result) is within support(f). Reducedness is inherited from mk_choice (C02).',
        TRUSTED, ['operand is an ordered diagram'], './check C20')

# =================================================================================================
import spec_parser, spec_set, engine_e, engine_g, engine_p, engine_t, engine_a, engine_x, engine_l
from spec_parser import EVF, RVF, FRF
from engine_p import Discharger, SITE_TABLE

def make_engine(F):            # (re-definition: full set of specs)
    E = Engine(F)
    spec_bdd.install(E); spec_bdd.install_structure(E)
    spec_parser.install(E)
    spec_bdd.install_fp(E)
    spec_set.install(E)
    spec_bdd.install_helpers(E)
    return E

def guarded(R, what, fn, *args):
    """run a rule; an internal error of the checker is reported as UNDECIDABLE (fail closed), never swallowed"""
    try:
        return fn(*args)
    except Undecidable as u:
        R.violation('%s / UNDECIDABLE / %s' % (what, u.construct[:80]), 'UNDECIDABLE', 'cannot analyse (%s): %s' % (what, u.construct), u.loc)
    except Exception as ex:
        import traceback
        R.violation('%s / CHECKER-ERROR / %s' % (what, type(ex).__name__), 'UNDECIDABLE', 'rule %s could not be evaluated on this tree: %s: %s' % (what, type(ex).__name__, ex),
                    detail=traceback.format_exc()[-1500:])

STRUCT = 'clause-level static check; decides the named structural clauses, which are necessary conditions of the property, not the behaviour as a whole'

def check_C01(F, tier, t0):
    R = Report('C01')
    E = make_engine(F)
    guarded(R, 'S eval_recursive', run_S, R, E, [EVF, RVF])
    # the operations the evaluator dispatches to (their own properties C03-C06 run the same engine; evaluation is only right if all hold)
    guarded(R, 'S operations', run_S, R, E, spec_bdd.BDD_SCOPE['C03'] + spec_bdd.BDD_SCOPE['C04'] + spec_bdd.BDD_SCOPE['C05'] + ['fp'])
    guarded(R, 'T tokens', engine_t.rule_tokens, F, R, 'all')
    guarded(R, 'T operators', engine_t.rule_operator_tables, F, R)
    guarded(R, 'T regex', engine_t.rule_regex, F, R)
    guarded(R, 'T input text', engine_t.rule_input_text, F, R)
    guarded(R, 'X5', engine_x.rule_X5, F, R)      # two names of one formula must not share an id: they would be one variable of the diagram
    R.floor('functions', 28); R.floor('worlds', 40); R.floor('T:symbol-spellings', 20); R.floor('T:keyword-spellings', 23)
    R.floor('T:binary-operator-rows', 8); R.floor('T:counting-operator-rows', 5); R.floor('T:fixed-point-rows', 2)
    return finish(R, 'other', tier, t0,
        'Decides the dispatch chain spelling -> token -> operator -> BDDEnv operation -> truth function for every construct: the symbol/keyword tables of tokenize and the '
        'operator tables of the parser are extracted from constant matches and compared with the documented table; eval_recursive is checked arm by arm (engine S, all 11 '
        'in-scope syntax-node kinds and every operator value) to return the documented function of the values of its children, argument order included; no lossy integer '
        'conversion lies between a parsed constant and the bound handed to the counting operations. The operations the evaluator dispatches to (connectives, quantifiers, '
        'counting, fp, replace_var) are re-proved here with the obligations of C03-C06, because evaluation is right only if every link is; the tree the parser builds is C08. Not decided: regex-engine matching of arbitrary text, fixed-point convergence, {reference} nodes.',
        TRUSTED, ['README operator table and property statement are the oracle for the reference tables'], './check C01')

def check_C02(F, tier, t0):
    R = Report('C02')
    E = make_engine(F)
    # scope: EVERY non-test function of the workspace that calls mk_choice (computed, not listed) + the node-construction layer
    MK = spec_bdd.B + 'mk_choice'
    callers = set()
    for c in F.crates:
        if c.kind == 'test': continue
        for name, t in c.thir.items():
            if any(e['k'] == 'Call' and callee_name(e) == MK for e in walk(t['body'])):
                callers.add(name.split('::{closure')[0])
    fns = []
    import facts as _facts
    for name in sorted(callers):
        if name.startswith(spec_bdd.B) and name in E.specs and E.specs[name].post is not None:
            fns.append(name.split('::')[-1])
        elif name not in _facts.baseline_fns() and _facts.baseline_roots(F.lib(), name) and \
                all(r_.startswith(spec_bdd.B) and r_ in E.specs and E.specs[r_].post is not None for r_ in _facts.baseline_roots(F.lib(), name)):
            # a new helper shared by specified operations: its mk_choice calls are judged where it is inlined, in the proofs of those operations
            R.count('O:helpers-judged-in-callers')
            for r_ in _facts.baseline_roots(F.lib(), name):
                if r_.split('::')[-1] not in fns: fns.append(r_.split('::')[-1])
        else:
            R.obligation(False, 'O scope ' + name)
            R.violation('%s / O / mk_choice without an order proof' % name, 'O',
                        '%s builds decision nodes with mk_choice but has no specification against which the order obligation can be discharged' % name)
    res = guarded(R, 'S/O node-building functions', run_S, R, E, fns + [f for f in ['simplify', 'mk_choice', 'mk_const', 'find', 'new'] if f not in fns]) or {}
    R.count('mk_choice-call-sites', static_mk_choice_sites(F.lib(), [n.split('::')[-1] for n in F.lib().thir if n.startswith(spec_bdd.B) and '{closure' not in n]))
    guarded(R, 'E1', engine_e.rule_E1, F, R)
    guarded(R, 'E5', engine_e.rule_E5_events, R, res)
    guarded(R, 'H', engine_e.rule_H, F, R)
    guarded(R, 'X5', engine_x.rule_X5, F, R)      # distinct variable names get distinct ids: two variables that alias are one symbol to the diagram
    guarded(R, 'S eval_recursive', run_S, R, E, [EVF, RVF])      # formula evaluation is one of the construction routes: a valid formula is the true leaf only if every arm computes its construct
    # functions that do not call mk_choice must not build nodes any other way: covered by E1 (constructor sites) workspace-wide
    R.floor('mk_choice-call-sites', 6); R.floor('E1:Choice-constructor-sites', 2); R.floor('functions', 12); R.floor('H:impl-bodies', 4); R.floor('mk_choice-sites-x-worlds', 8)
    return finish(R, 'other', tier, t0,
        'Inductive invariant "every diagram handed out is ordered and reduced", decided as its code-dependent premises: (O) every one of the mk_choice call sites is '
        'order-respecting under every total pre-order of the symbols consistent with the guards of its path (engine S/O worlds); (R) all nodes are born in mk_choice, '
        'after simplify, whose test is structural equality of the two children, and a hit in the unique table is structurally the key (E1, E2); (H) Eq/Ord/Hash of '
        'NamedSymbol read the same key and the diagram type uses derived structural Eq/Hash. With Bryant\'s canonicity theorem these give "equal iff same function". '
        'Not decided: the theorem itself.',
        TRUSTED, ['Bryant: ordered + reduced => canonical (M4)'], './check C02')

def arm_obligations(R, E, fname, variants, counter, which_param=1):
    """the obligations of the syntax-directed function `fname` (eval_recursive / replace_var) in the worlds whose formula is one of `variants`"""
    res = E.explore(fname)
    n = 0
    for (I, params, r, obls) in res:
        v = spec_parser.variant_of(I, params[which_param].term)
        if v not in variants: continue
        for o in obls:
            n += 1
            R.obligation(o.ok, '%s | %s | %s' % (fname, short_label(o.label), o.world))
            if not o.ok:
                R.violation('%s / %s / world[%s]' % (fname, short_label(o.label), o.world), short_label(o.label).split(':')[0], '%s fails in abstract world [%s]' % (o.label, o.world), o.loc, o.detail)
    R.count(counter, n)

def a3_filtered(F, R, needle, counter):
    """constructor provenance (A3) restricted to one syntax constructor"""
    sub = Report('A3')
    engine_a.rule_A3(F, sub)
    needles = (needle,) if isinstance(needle, str) else tuple(needle)
    hits = [v for v in sub.violations if any(n_ in v.key or n_ in v.msg for n_ in needles)]
    for v in sub.violations:
        if v in hits or v.rule == 'UNDECIDABLE': R.violation(v.key, v.rule, v.msg, v.loc, v.detail)
    R.obligations += 1; R.discharged += 0 if hits else 1
    R.count(counter, 1)

def a2_filtered(F, R, tokens, counter):
    """grammar equivalence (A2) restricted to differences whose shortest distinguishing prefix starts with one of `tokens`"""
    sub = Report('A2')
    engine_a.rule_A2(F, sub)
    hits = []
    for v in sub.violations:
        if v.rule == 'UNDECIDABLE': hits.append(v); continue
        m = __import__('re').search(r'prefix: \[([^\]]*)\]', v.msg)
        first = m.group(1).split()[0] if m and m.group(1).split() else ''
        if first in tokens: hits.append(v)
    for v in hits: R.violation(v.key, v.rule, v.msg, v.loc, v.detail)
    R.obligations += 1; R.discharged += 0 if hits else 1
    R.count(counter, 1)

def check_C05(F, tier, t0):
    R = Report('C05')
    E = make_engine(F)
    guarded(R, 'S counting', run_S, R, E, spec_bdd.BDD_SCOPE['C05'])
    # language level: the CountableConst / CountableVariable arms of the evaluator, the operator table, the cast rule
    def lang():
        res = E.explore(EVF)
        n = 0
        for (I, params, r, obls) in res:
            v = spec_parser.variant_of(I, params[1].term)
            if v not in ('CountableConst', 'CountableVariable'): continue
            for o in obls:
                n += 1
                ident = '%s | %s | %s' % (EVF, short_label(o.label), o.world)
                R.obligation(o.ok, ident)
                if not o.ok:
                    R.violation('%s / %s / world[%s]' % (EVF, short_label(o.label), o.world), short_label(o.label).split(':')[0], '%s fails in abstract world [%s]' % (o.label, o.world), o.loc, o.detail)
        R.count('evaluator-counting-obligations', n)
    guarded(R, 'S eval_recursive (counting arms)', lang)
    guarded(R, 'S replace_var (counting arms)', arm_obligations, R, E, RVF, ('CountableConst', 'CountableVariable'), 'substitution-counting-obligations')
    def no_overflow_in_evaluator():
        # the proofs above treat the offsets n-1 / n+1 of the strict comparisons as integers; that is only right if the machine arithmetic cannot
        # overflow for any constant the syntax accepts (saturating or clamped arithmetic): no overflow-capable site in the evaluator
        lib = F.lib()
        reach = {n: (lib, b) for n, b in lib.mir.items() if n.split('::{closure')[0] == EVF}
        sites = [s_ for s_ in engine_p.inventory(F, reach) if s_.what.startswith(('Overflow', 'DivisionByZero', 'RemainderByZero'))]
        R.count('evaluator-arithmetic-sites-checked', len(reach))
        R.obligation(not sites, 'C05 evaluator arithmetic')
        for s_ in sites:
            R.violation('%s / P / %s on the comparison constant' % (s_.fn, s_.what), 'P', 'the evaluator computes on the comparison constant with %s: for a constant near the integer limits the offset of a strict comparison overflows (panic in debug, a wrapped bound in release)' % s_.what, s_.loc)
    guarded(R, 'P evaluator arithmetic', no_overflow_in_evaluator)
    guarded(R, 'T counting operators', engine_t.rule_operator_tables, F, R, ('countop',))
    # which parsed list / number ends up on which side of the comparison, and that every parsed operand is in its list
    guarded(R, 'A3 (counting constructors)', a3_filtered, F, R, ('Countable', 'parse_formula_list', 'parse_countable'), 'A3:counting-constructors')
    guarded(R, 'A2 (counting syntax)', a2_filtered, F, R, ('OpenSquare',), 'A2:counting-syntax')
    guarded(R, 'T tokens', engine_t.rule_tokens, F, R, {'Eq', 'ImpliesInv', 'Geq', 'Lt', 'Gt'})
    R.floor('functions', 12); R.floor('evaluator-counting-obligations', 5); R.floor('T:counting-operator-rows', 5)
    guarded(R, 'T regex', engine_t.rule_regex, F, R)      # names are read as written (tokenizer regex)
    guarded(R, 'T number text', engine_t.rule_number_text, F, R)      # a number in the text is that number, or an error
    guarded(R, 'X5', engine_x.rule_X5, F, R)      # distinct names are distinct symbols
    return finish(R, 'proof', tier, t0,
        'Inductive proof (list induction, linear-integer normal forms decided exactly per linear form) that cmp_count(bs,n,cmp) = cmp(n - #true(bs)), aln/amn/exn = '
        '[#true >= / <= / = n], cmp_count_compare(a,b,n,cmp) = cmp(b, n + #true(a)) and the five list-versus-list comparisons, for arbitrary operand functions, repeated '
        'operands, the empty list and every integer n (mathematical integers: the property excludes n +/- len overflowing). Language level: the evaluator maps '
        '<=,>=,=,<,> to at-most/at-least/exactly with offsets -1/+1 for the strict forms, the tokens map to those operators, and the constant reaches the bound without a '
        'lossy conversion (clamping conversions are accepted: no list has 2^63 true operands).',
        TRUSTED, ['integers are treated as mathematical integers (property precondition: no i64 overflow of n +/- len)'], './check C05')

def check_C06(F, tier, t0):
    R = Report('C06')
    E = make_engine(F)
    guarded(R, 'FP loop shape', run_S, R, E, ['fp'])
    guarded(R, 'XR references', engine_x.rule_references, F, R)      # a definition that mentions the bound name is substituted into, looked into and evaluated
    guarded(R, 'S replace_var', run_S, R, E, [RVF])
    def fixarm():
        res = E.explore(EVF)
        n = 0
        for (I, params, r, obls) in res:
            v = spec_parser.variant_of(I, params[1].term)
            if v not in ('FixedPoint', 'Subtree', 'Quantifier'): continue
            for o in obls:
                n += 1
                R.obligation(o.ok, '%s | %s | %s' % (EVF, short_label(o.label), o.world))
                if not o.ok:
                    R.violation('%s / %s / world[%s]' % (EVF, short_label(o.label), o.world), short_label(o.label).split(':')[0], '%s fails in abstract world [%s]' % (o.label, o.world), o.loc, o.detail)
        R.count('evaluator-fixed-point-obligations', n)
    guarded(R, 'S eval_recursive (FixedPoint / Subtree / Quantifier arms)', fixarm)
    guarded(R, 'T fixed point', engine_t.rule_operator_tables, F, R, ('fixpoint',))
    guarded(R, 'T tokens', engine_t.rule_tokens, F, R, {'GFP', 'LFP'})
    def a3_fixed_point():
        sub = Report('A3')
        engine_a.rule_A3(F, sub)
        for v in sub.violations:
            if 'FixedPoint' in v.key or 'FixedPoint' in v.msg or v.rule == 'UNDECIDABLE':
                R.violation(v.key, v.rule, v.msg, v.loc, v.detail)
        R.obligations += 2; R.discharged += 2 - min(2, len([v for v in sub.violations if 'FixedPoint' in v.key or 'FixedPoint' in v.msg]))
        R.count('A3:fixed-point-constructor-paths', 2)
    guarded(R, 'A3 (FixedPoint constructor)', a3_fixed_point)
    R.floor('functions', 2); R.floor('evaluator-fixed-point-obligations', 4); R.floor('T:fixed-point-rows', 2)
    guarded(R, 'T regex', engine_t.rule_regex, F, R)      # names are read as written (tokenizer regex)
    guarded(R, 'X5', engine_x.rule_X5, F, R)      # distinct names are distinct symbols
    # the transformer is the *meaning of the body*: every construct the body may use (connectives, if-then-else, quantifiers, counting) must
    # evaluate to its documented meaning, and the body must be read as written - the evaluation and front-end bundles of C07 / C09 / C10
    front_end(R, F)
    evaluation(R, E)
    return finish(R, 'other', tier, t0,
        'Decides the code-dependent premises of Kleene iteration: (a) fp\'s loop, by one symbolic iteration from an arbitrary state: the state starts as the argument, the '
        'loop exits only when t(s) is structurally s, otherwise the next state is t(s), and the value returned is the state t maps to itself; (b) gfp/nu start from true, '
        'lfp/mu from false (token table, parser dispatch, constructor provenance, evaluator); (c) the evaluator\'s transformer is y -> eval(body[X := Subtree(y)]), Subtree '
        'evaluates to the stored diagram, and a quantifier inside the body quantifies its whole list over the evaluated body (so it also ranges over the current iterate); (d) replace_var is the capture-free homomorphic substitution on all in-scope constructors, stopping under a quantifier list '
        'containing the name or an inner fixed point on the same name. Not decided: least/greatest-ness and termination, which follow from Knaster-Tarski/Kleene on the '
        'finite lattice given monotonicity and C02 - mathematics with no code content left once (a)-(d) hold.',
        TRUSTED, ['monotone bodies (property precondition); Kleene fixed-point theorem on a finite lattice'], './check C06')

def front_end(R, F):
    """the language front end every formula-level property rests on: spellings of symbols and keywords, operator tables, tokenizer regex"""
    guarded(R, 'T tokens', engine_t.rule_tokens, F, R, 'all')
    guarded(R, 'T operators', engine_t.rule_operator_tables, F, R)
    guarded(R, 'T regex', engine_t.rule_regex, F, R)
    guarded(R, 'T input text', engine_t.rule_input_text, F, R)
    guarded(R, 'T number text', engine_t.rule_number_text, F, R)
    guarded(R, 'T reference text', engine_t.rule_reference_text, F, R)
    # ... and the grammar: what the parser accepts, and which parsed piece ends up in which field of a syntax node
    guarded(R, 'A1', engine_a.rule_A1, F, R)
    guarded(R, 'A helpers', engine_a.rule_helpers, F, R)
    guarded(R, 'A2', engine_a.rule_A2, F, R)
    guarded(R, 'A3', engine_a.rule_A3, F, R)

def evaluation(R, E):
    """the evaluator and the operations it dispatches to (the proofs of C01 / C03 / C04 / C05), for properties stated about `the formula`"""
    guarded(R, 'S eval_recursive', run_S, R, E, [EVF, RVF])
    guarded(R, 'S operations', run_S, R, E, spec_bdd.BDD_SCOPE['C03'] + spec_bdd.BDD_SCOPE['C04'] + spec_bdd.BDD_SCOPE['C05'] + ['fp'])

def check_C07(F, tier, t0):
    R = Report('C07')
    E = make_engine(F)
    guarded(R, 'S model/infer', run_S, R, E, spec_bdd.BDD_SCOPE['C07'])
    guarded(R, 'X4 model', engine_x.rule_X4, F, R, ('model', 'parse', 'vars', 'tablefilter'))
    # `rsbdd -m -t` prints the model of *the formula* as a truth-table row: front end, evaluation and the table printer are links of that chain
    front_end(R, F)
    evaluation(R, E)
    guarded(R, 'X1', engine_x.rule_X1_printers, F, R)
    guarded(R, 'X2', engine_x.rule_X2, F, R, ('table',))
    guarded(R, 'X3', engine_x.rule_X3, F, R)
    guarded(R, 'S var_is_free', run_S, R, E, [FRF], spec_bdd.B, False)
    R.floor('functions', 2); R.floor('worlds', 4); R.floor('X4:model-before-printing', 1)
    return finish(R, 'other', tier, t0,
        'Engine S, inductively over all shapes of the node and of the two recursive results: model(a) implies a pointwise; a leaf is returned unchanged; the False result is '
        'returned only when the models of both children are False; every other result conjoins exactly one literal of the node\'s variable with the recursive model that was '
        'tested to be non-False (cube shape, support within support(a)); infer(a,v) answers (is_leaf(ff), ff is True) for ff = implies(a, var v). CLI: with -m the result is '
        'replaced by model(result) after evaluation and before every printer. Because `rsbdd -m -t` prints the model of *the formula* as a table row, the check also '
        'includes the shared links of that chain: the language front end (token tables, operator tables, tokenizer regex), the evaluator and the operations it '
        'dispatches to (the proofs of C01/C03/C04/C05), the free-variable analysis behind the header, and the table printer rules X1/X2/X3. Not decided: "a non-False '
        'reduced diagram is satisfiable" (canonicity, M4).',
        TRUSTED, ['Bryant canonicity (M4) for "False iff unsatisfiable"'], './check C07')

def check_C08(F, tier, t0):
    R = Report('C08')
    guarded(R, 'A1', engine_a.rule_A1, F, R)
    guarded(R, 'A helpers', engine_a.rule_helpers, F, R)
    guarded(R, 'A2', engine_a.rule_A2, F, R)
    guarded(R, 'A3', engine_a.rule_A3, F, R)
    guarded(R, 'T tokens', engine_t.rule_tokens, F, R, 'all')
    guarded(R, 'T operators', engine_t.rule_operator_tables, F, R)
    guarded(R, 'T regex', engine_t.rule_regex, F, R)
    guarded(R, 'T input text', engine_t.rule_input_text, F, R)
    guarded(R, 'T number text', engine_t.rule_number_text, F, R)
    guarded(R, 'T reference text', engine_t.rule_reference_text, F, R)
    R.floor('A1:consuming-parse-functions', 10); R.floor('A1:calls-to-consuming-functions', 30); R.floor('A2:parse-functions-walked', 10)
    R.floor('A3:constructor-paths', 20); R.floor('A3:constructors-expected', 13); R.floor('T:regex-symbols', 20); R.floor('T:regex-groups', 6)
    return finish(R, 'other', tier, t0,
        'Grammar-shape clauses: (A1) no Result of a token-consuming parse function is inspected instead of propagated (a failed attempt is never rewound, so this is necessary '
        'for "never accepted with some other meaning"); (A2) the right-hand sides of <formula>, <sub>, <simple> extracted from the parse functions (paths enumerated from THIR, '
        'loops as stars, look-ahead tests as labels) are language-equivalent to the reference grammar, decided by product construction, not by bounded enumeration; '
        '(A3) every syntax-node constructor receives the parsed pieces the grammar prescribes (right-associativity, negation scope, body extents, argument order); '
        '(T) symbol/keyword/operator tables equal the documented ones; the tokenizer pattern lists longer symbols before their prefixes, numbers before identifiers, and its '
        'groups/alternatives agree with what tokenize handles. Not decided: character-level behaviour of the regex engine on arbitrary Unicode text.',
        TRUSTED, ['reference grammar in engine_a.reference_grammar() transcribed from README + property statement', 'regex crate: leftmost-first alternation semantics'], './check C08')

def check_C09(F, tier, t0):
    R = Report('C09')
    E = make_engine(F)
    guarded(R, 'S var_is_free', run_S, R, E, [FRF])
    # a fixed-point name never reaches the evaluator as a variable only if the substitution replaces every occurrence in scope
    guarded(R, 'S replace_var', run_S, R, E, [RVF])
    guarded(R, 'S/O quantifier support', run_S, R, E, ['exists_impl', 'exists', 'all'])
    guarded(R, 'X4 vars', engine_x.rule_X4, F, R, ('vars', 'export'))      # -r lists every variable of the text (vars, not free_vars)
    guarded(R, 'X5', engine_x.rule_X5, F, R)      # every name its own id: a name that shares an id with another drops out of the variable list
    guarded(R, 'S eval_recursive (FixedPoint / Subtree / Quantifier arms)', fixed_point_arms, R, E)      # a fixed-point name leaves the answer only through the substitution
    guarded(R, 'X3 order', engine_x.rule_X3, F, R)
    guarded(R, 'X2 listing', engine_x.rule_X2, F, R, ('table',))      # the names a -v line shows are the headers of the free-variable columns, entry by entry
    guarded(R, 'whole sequences', engine_x.rule_whole_sequences, F, R, ('vars', 'ordering'))      # every name of the text, every variable of the ordering
    front_end(R, F)
    R.floor('functions', 5); R.floor('worlds', 16); R.floor('X4:extract_vars', 1); R.floor('X4:free_vars-fill', 1)
    return finish(R, 'other', tier, t0,
        'var_is_free is checked against the textbook definition for every in-scope constructor (binders of quantifiers and fixed points shadow; disjunction over children '
        'otherwise); vars = every Var token once, sorted by id; free_vars = exactly those v of vars with var_is_free(whole formula, v), in that order; the quantified symbol '
        'never occurs in exists_impl\'s result and exists/all are its fold/dual, and replace_var substitutes every in-scope occurrence of a fixed-point name (capture-free homomorphism), '
        'so bound names never leak into a result; table columns are positions in free_vars. '
        'Not decided: formulas with {reference} nodes (excluded by the property).',
        TRUSTED, [], './check C09')

def check_C10(F, tier, t0):
    R = Report('C10')
    guarded(R, 'X1', engine_x.rule_X1_printers, F, R)
    guarded(R, 'X2', engine_x.rule_X2, F, R, ('table',))
    guarded(R, 'X3', engine_x.rule_X3, F, R)
    guarded(R, 'X4', engine_x.rule_X4, F, R, ('parse', 'model', 'retain', 'vars', 'tablefilter', 'order'))
    front_end(R, F)
    guarded(R, 'X9', engine_x.rule_X9, F, R)
    guarded(R, 'X12', engine_x.rule_X12, F, R)
    guarded(R, 'X12 header', engine_x.rule_X12_header, F, R)
    guarded(R, 'X12 outcome', engine_x.rule_X12_outcome, F, R)
    guarded(R, 'X4 header call', engine_x.rule_X4_header_call, F, R)
    guarded(R, 'X4 flags', engine_x.rule_X4_flags, F, R)
    # the header is free_vars: it is right only if the free-variable analysis is
    E = make_engine(F)
    guarded(R, 'S var_is_free', run_S, R, E, [FRF], spec_bdd.B, False)
    guarded(R, 'S helper predicates', run_S, R, E, spec_bdd.HELPER_FNS, spec_bdd.B, False)
    guarded(R, 'T filter spellings', engine_t.rule_tte, F, R)
    # the rows are those of *the formula* (and of its model under -m, its retained form under -c): evaluation, model and retain are links of the chain
    evaluation(R, E)
    guarded(R, 'S model / retain', run_S, R, E, spec_bdd.BDD_SCOPE['C07'] + spec_bdd.BDD_SCOPE['C20'])
    R.floor('X1:recursive-descent-sites', 2); R.floor('X2:row-filter-cases', 6); R.floor('X3:index-sites', 4); R.floor('T:filter-spelling-rows', 3)
    return finish(R, 'other', tier, t0,
        'Clauses: branch polarity of both printers (true-branch records True); the row predicate over filter x leaf (printed iff filter=Any or filter=leaf) and -v printing '
        'exactly at the True leaf; index domains of every column access (to_free_index yields a position in free_vars, which is sorted by id; every index stays below the '
        'length of the sequence it indexes); one parser call fed by all three input channels; model/retain applied before every printer; the header is free_vars, filled from the '
        'textbook free-variable analysis (engine S on var_is_free); filter spellings disjoint and on '
        'the right variant; --filter reaches the printer unchanged and is handed down the recursion unchanged (value provenance). The rows are those of *the formula*: the '
        'language front end, the evaluator and its operations (C01/C03/C04/C05 proofs), model (-m) and retain (-c) are included as links of the chain. '
        'With "rows are the root-to-leaf paths of an ordered diagram" (C02) these give disjointness and coverage. Not decided: text layout, clap/argfile/wild.',
        TRUSTED, [], './check C10')

def check_C11(F, tier, t0):
    R = Report('C11')
    guarded(R, 'X5', engine_x.rule_X5, F, R)
    guarded(R, 'X3', engine_x.rule_X3, F, R)
    guarded(R, 'X4', engine_x.rule_X4, F, R, ('order', 'export', 'vars'))
    guarded(R, 'H', engine_e.rule_H, F, R)
    guarded(R, 'E8', engine_e.rule_E8, F, R)      # one environment per formula: names are told apart by ids that every formula counts from 0
    front_end(R, F)      # the ordering file is read by the formula tokenizer: what counts as a name, and that stray punctuation is skipped, is the regex
    # the semantic core: every operation is proved for an arbitrary total order of an arbitrary symbol type (C01 / C03 / C04 / C05)
    E = make_engine(F)
    evaluation(R, E)
    guarded(R, 'S var_is_free', run_S, R, E, [FRF], spec_bdd.B, False)      # the same named variables under every order: the free-variable analysis must not depend on ids
    R.floor('X5:id-registration-sites', 1); R.floor('X4:ordering-flow', 1); R.floor('X4:export-ordering', 1)
    guarded(R, 'whole sequences', engine_x.rule_whole_sequences, F, R, ('vars',))      # every name of the text is in the variable list
    return finish(R, 'other', tier, t0,
        'Clauses: counter invariant of tokenize (after every registration the fresh-id counter exceeds every registered id, names are looked up before a fresh id is taken); '
        'column look-up by id in the id-sorted free_vars (no position/id confusion); the -o file flows through tokenize + extract_vars into the parser\'s ordering argument; '
        '-r prints vars sorted by id; NamedSymbol orders by id. The semantic core - that meaning does not depend on the order - is that every operation the evaluator '
        'dispatches to is proved for an arbitrary total order on an arbitrary symbol type: those proofs (evaluator, C03/C04/C05 operations, fp) are run here too. '
        'Not decided: that -r output re-tokenises to the same names (regex engine).',
        TRUSTED, [], './check C11')

def check_C12(F, tier, t0):
    R = Report('C12')
    E = make_engine(F)
    # G first: RefCell panics
    conflict_cells = set()
    def g():
        for (key, rule, msg, loc, cell) in engine_g.guard_regions(F, R):
            conflict_cells.add(cell)
            R.violation(key, rule, msg, loc)
        engine_g.key_type_impls_clean(F, R)
    guarded(R, 'G', g)
    inl_callers = {}
    for c in F.crates:
        for caller, callee in getattr(c, 'inlined', []): inl_callers.setdefault(callee, set()).add(caller)
    def attributed(fn, depth=0):
        if fn not in inl_callers or depth > 4: return {fn}
        out = set()
        for c in inl_callers[fn]: out |= attributed(c, depth + 1)
        return out
    def p():
        reach = engine_p.reachable(F, engine_p.ENTRIES)
        R.count('P:reachable-functions', len(reach))
        sites = engine_p.inventory(F, reach)
        D = Discharger(F, E, conflict_cells, reach)
        import copy as _copy, facts as _facts
        for s in sites:
            R.count('P:sites')
            reason = None
            # a site inside a new helper that was split out of one function of the pinned tree is judged as a site of that function
            # (the rules read the caller's body with the helper inlined)
            variants = [s]
            base = s.fn.split('::{closure')[0]
            if base not in _facts.baseline_fns():
                roots = _facts.baseline_roots(s.crate, base)
                # ... among the functions that can run at all from the entry points (a helper shared with a function nobody calls on these
                # paths, e.g. BDDEnv::find, is not judged on that function's behalf)
                live = [r_ for r_ in sorted(roots or ()) if r_ in reach] or sorted(roots or ())
                for r_ in live:
                    s2 = _copy.copy(s); s2.fn = r_; variants.append(s2)
            def discharge(sv):
                for rule in (D.R0, D.R11, D.R8, D.R4, D.R10, D.R14, D.R15, D.R6, D.R16, D.RS):
                    try:
                        rr = rule(sv)
                    except Exception as ex:
                        rr = None
                    if rr: return rr
                return None
            reason = discharge(variants[0])
            if reason is None and len(variants) > 1:
                # every function the helper runs on behalf of must discharge the site
                rs = [discharge(sv) or engine_p.site_table_reason(sv, F) for sv in variants[1:]]
                if all(rs): reason = rs[0] + (' (judged as a site of %s)' % ', '.join(v.fn.split('::')[-1] for v in variants[1:]))
            # a site inside a new helper function belongs to the anchored functions the helper was inlined into (X3 / X6 analysed it there)
            owners = attributed(s.fn.split('::{closure')[0])
            if reason is None and s.what.startswith(('Index', 'IndexMut', 'BoundsCheck')) and owners and owners <= {'rsbdd::print_truth_table_recursive', 'rsbdd::print_true_vars_recursive', 'rsbdd::print_sized_line'}:
                if not x3_bad: reason = 'R5: index-domain typing X3 proves every index into the truth-table sequences below their length'
            if reason is None and s.what == 'expect' and owners and all(o.endswith('GraphWalk>::edges') and 'SymbolicParseTree' in o for o in owners):
                if not x6_bad: reason = 'R12: position(..) finds every child because nodes_recursive visits exactly the fields edges() asks for (X6)'
            if reason is None: reason = engine_p.site_table_reason(s, F)
            R.obligation(reason is not None, s.key)
            if reason:
                R.count('P:discharged-by-' + reason.split(':')[0].split(' ')[0])
                R.sample({'site': s.key, 'loc': s.loc, 'discharged by': reason})
            else:
                R.violation(s.key, 'P', 'panic-capable site (%s) reachable from the parser / evaluator / CLI is not discharged by any rule' % s.what, s.loc)
        if tier == 'thorough':
            import clippy_xref
            clippy_xref.cross_reference(F, R, reach, sites, framework.REPO)
    # X3 / X6 are used as discharge rules R5 / R12; evaluate them into a scratch report
    scratch = Report('scratch')
    guarded(scratch, 'X3', engine_x.rule_X3, F, scratch)
    x3_bad = [v for v in scratch.violations]
    scratch6 = Report('scratch')
    guarded(scratch6, 'X6', engine_x.rule_X6, F, scratch6, ('coverage',))
    x6_bad = [v for v in scratch6.violations]
    guarded(R, 'P', p)
    # the `is not a free variable` panic of to_free_index is unreachable only if the free-variable analysis is right
    guarded(R, 'S var_is_free', run_S, R, E, [FRF], spec_bdd.B, False)
    guarded(R, 'X4 free_vars', engine_x.rule_X4, F, R, ('vars',))          # ... and is what fills free_vars (a variable that is free but not listed panics in to_free_index)
    guarded(R, 'S replace_var', run_S, R, E, [RVF])                      # ... and only if no bound name leaks into the diagram (C09):
    guarded(R, 'S/O quantifier support', run_S, R, E, ['exists_impl', 'exists', 'all'])      # substitution is capture-free, quantified symbols are eliminated
    R.samples = R.samples[:12]
    R.floor('P:sites', 25); R.floor('P:reachable-functions', 50); R.floor('G:guards', 5)
    return finish(R, 'other', tier, t0,
        'Exhaustive inventory, from MIR, of the panic-capable sites (overflow / bounds / division asserts, unwrap/expect, Index, RefCell borrows, explicit panics) in every '
        'function reachable from tokenize, ParsedFormula::new/eval and the binary\'s main (callbacks of dot/fmt traits included); each site must be discharged by a named '
        'rule - constant operand, engine S proving the panicking arm dead in all abstract worlds, dominance by an emptiness test, caller-side shape refinement, absence of a '
        'producer, counters bounded by a collection, index-domain typing, engine G for RefCell - or by a one-site entry of the site table with its reason; anything else is a '
        'violation, so a new unwrap/index/unchecked arithmetic is reported by construction. Reasons that name a guard are decided, not trusted: the run-time statistics '
        '(which index the middle of the sample vector) must sit under a condition implying at least one sample (R9, value provenance), and the `is not a free variable` panic '
        'is dead only because the free-variable analysis is proved here as well. A site inside a new helper is judged as a site of the function it was split out of. Not decided: stack exhaustion (the property bounds nesting), allocation failure, '
        'panics inside dependencies beyond their documented contract, write errors on a closed stdout, non-convergent fixed points.',
        TRUSTED + ['site table in engine_p.SITE_TABLE (%d named sites with reasons)' % len(SITE_TABLE)], ['API callers pass ordering ids below usize::MAX'], './check C12')

def check_C13(F, tier, t0):
    R = Report('C13')
    E = make_engine(F)
    res = guarded(R, 'S structure', run_S, R, E, ['simplify', 'mk_choice', 'mk_const', 'find', 'new', 'clean']) or {}
    ops = [n.split('::')[-1] for n in F.lib().thir if n.startswith(spec_bdd.B) and '{closure' not in n and n.split('::')[-1] not in ('size', 'duplicates', 'fp', 'new', 'mk_choice', 'simplify', 'mk_const', 'find', 'clean')]
    res2 = guarded(R, 'S provenance', run_S, Report('scratch'), E, ops) or {}
    guarded(R, 'E5', engine_e.rule_E5_events, R, res2)
    guarded(R, 'E1', engine_e.rule_E1, F, R)
    guarded(R, 'E3', engine_e.rule_E3, F, R)
    guarded(R, 'E3 flow', engine_e.rule_E3_field_flow, F, R)
    guarded(R, 'E4', engine_e.rule_E4, F, R)
    guarded(R, 'E6', engine_e.rule_E6, F, R)
    guarded(R, 'E8', engine_e.rule_E8, F, R)
    guarded(R, 'E9', engine_e.rule_E9, F, R)
    guarded(R, 'E10', engine_e.rule_E10, F, R)      # a set never creates a second environment
    guarded(R, 'whole sequences', engine_x.rule_whole_sequences, F, R, ('node_list',))      # node counts run over every node
    guarded(R, 'X5', engine_x.rule_X5, F, R)      # in a shared environment a second formula's new variable must not take an id that is in use
    guarded(R, 'X7', engine_x.rule_X7, F, R)      # the exported diagram shows a shared node once (de-duplicated node and edge lists)
    guarded(R, 'XR', engine_x.rule_references, F, R)      # evaluating a formula leaves its definitions alone (a second evaluation sees what the first saw)
    guarded(R, 'FP loop shape', run_S, R, E, ['fp'])      # the iterator stops on structural equality of two iterates, not on anything the table remembers
    guarded(R, 'H', engine_e.rule_H, F, R)      # the table is keyed by the diagram: Eq / Ord / Hash of the symbol must read the same key
    def g():
        for (key, rule, msg, loc, cell) in engine_g.guard_regions(F, R):
            if cell[0] == 'rsbdd::bdd::BDDEnv': R.violation(key, rule, msg, loc)
        engine_g.key_type_impls_clean(F, R)
    guarded(R, 'G2', g)
    if tier == 'thorough':
        def w():
            import witness
            r = witness.run(framework.REPO)
            R.count('W:witness-doctests', r['passed'])
            ok = r['exit'] == 0 and r['failed'] == 0 and r['passed'] >= 6
            R.obligation(ok, 'W witnesses')
            R.sample({'rule': 'W', 'doc-tests': r['tests']})
            if not ok:
                R.violation('rsbdd / W / type-level witnesses', 'W', 'a type-level witness (Freeze of diagram nodes / no &mut path to a shared node or to the table) or its compile_fail twin no longer holds: %s' % (r['tests'] or r['tail'][-400:]))
        guarded(R, 'W', w)
        R.floor('W:witness-doctests', 6)
    R.floor('E1:Choice-constructor-sites', 2); R.floor('E3:table.insert', 1); R.floor('E3:nodes.borrow_mut', 1); R.floor('E3:nodes.borrow', 2)
    R.floor('E4:Rc<BDD>::new-sites', 2); R.floor('E5:functions', 10); R.floor('E6:functions-reachable-from-ops', 20); R.floor('G2:key-impls', 6)
    return finish(R, 'other', tier, t0,
        'Effect / ownership rules over the resolved program: the unique table has one writer (mk_choice; new() seeds exactly the two leaves), every insert stores key == *value, '
        'a look-up hit is returned as is, nothing removes or replaces entries, the table cell never escapes; diagram nodes are allocated only in new/mk_choice/the From '
        'conversion, are never uniquely borrowed, are Freeze and contain no interior mutability at any depth; every BDDEnv operation builds its result only from arguments, '
        'their sub-nodes, leaves and other operations (no fresh allocation); nothing reachable from an operation or the evaluator reads hidden mutable state; no operation '
        're-enters the table while it is mutably borrowed; a formula built with new_with_env keeps the environment it was given (an Rc handle, never a copy: E8); '
        'Eq / Ord / Hash of the symbol type read the same key (the table is keyed by the diagram: H). These are the static content of "history never changes results, nodes are shared and stay valid". '
        'Not decided: pointer-identity consequences inside the dot crate.',
        TRUSTED, ['std HashMap / Rc / RefCell contracts'], './check C13')

def check_C14(F, tier, t0):
    R = Report('C14')
    guarded(R, 'X1 dot', engine_x.rule_X1_dot, F, R)
    guarded(R, 'X2', engine_x.rule_X2, F, R, ('dot',))
    guarded(R, 'S helper predicates', run_S, R, make_engine(F), spec_bdd.HELPER_FNS, spec_bdd.B, False)
    guarded(R, 'X6', engine_x.rule_X6, F, R)
    guarded(R, 'X4 dot filter', engine_x.rule_X4, F, R, ('dotfilter',))
    guarded(R, 'X10 node labels', engine_x.rule_X10, F, R)
    guarded(R, 'X8 buffered', engine_x.rule_buffered_writers, F, R)      # a failed export is reported, not swallowed by a dropped buffer
    guarded(R, 'E1', engine_e.rule_E1, F, R)      # node identity is the address of the interned node: every node must be born in mk_choice
    guarded(R, 'X4 lineage', engine_x.rule_X4, F, R, ('model', 'retain'))      # the exported diagram is the one the table shows (after --retain-choices and --model)
    guarded(R, 'X7', engine_x.rule_X7, F, R)
    guarded(R, 'X4 rendered', engine_x.rule_X4_rendered, F, R)      # an export that is asked for is written
    guarded(R, 'whole sequences', engine_x.rule_whole_sequences, F, R, ('dot', 'parsetree', 'node_list'))
    guarded(R, 'X7 children', engine_x.rule_X7_children, F, R)      # both children of a decision node, the child itself as the target of a parse-tree edge
    guarded(R, 'X8', engine_x.rule_X8, F, R, 'rsbdd', 'executable')
    guarded(R, 'T filter spellings', engine_t.rule_tte, F, R)
    R.floor('X1:edge-tuples', 2); R.floor('X2:dot-leaf-cases', 6); R.floor('X2:dot-edge-cases', 18); R.floor('X6:variants', 12); R.floor('X6:recursive-fields', 11)
    return finish(R, 'other', tier, t0,
        'Sibling-agreement clauses: T/F edge flags and labels follow the true/false branch; leaf ids and labels sit on the matching variants; for every filter x child kind an '
        'edge into a leaf is emitted iff that leaf is declared, and a leaf is declared iff filter=Any or filter=leaf; for each of the 12 syntax-node kinds the node list visits '
        'exactly the recursive fields for which edges are emitted, edge labels of one kind are distinct, and every kind has its own label arm; every label is built as plain text '
        'that the dot writer escapes (LabelText::label / LabelStr, never escaped / html); the node and edge lists are de-duplicated (a shared node is exported once); child lists '
        'are walked element by element; --filter reaches BDDGraph::new unchanged (value provenance). '
        'Not decided: the escaping and rendering done inside the dot crate, the implementation of itertools::unique.',
        TRUSTED, [], './check C14')

def check_C15(F, tier, t0):
    R = Report('C15')
    import engine_n
    guarded(R, 'L-W', engine_l.rule_width, F, R, 'n_queens_gen')
    guarded(R, 'N', engine_n.rule_queens, F, R)
    guarded(R, 'S model', run_S, R, make_engine(F), spec_bdd.BDD_SCOPE['C07'])      # `rsbdd -m` on the emitted formula: one placement, or nothing for the boards without one
    guarded(R, 'X8', engine_x.rule_X8, F, R, 'n_queens_gen')
    guarded(R, 'X8 flush', engine_x.rule_X8_flush, F, R, 'n_queens_gen')
    guarded(R, 'X8 writer choice', engine_x.rule_X8_writer_choice, F, R, 'n_queens_gen')
    guarded(R, 'L remarks', engine_l.rule_comment_holes, F, R, 'n_queens_gen')
    front_end(R, F)       # the emitted text means what the language's tokenizer and operator tables say it means
    guarded(R, 'X5', engine_x.rule_X5, F, R)      # ... with every name of the emitted formula a variable of its own
    E_ = make_engine(F); evaluation(R, E_)       # ... and what the evaluator and the operations it dispatches to compute for it
    guarded(R, 'S var_is_free', run_S, R, E_, [FRF], spec_bdd.B, False)      # ... the columns of the listing are the formula's free variables (seed C16-r11a: a vertex that only occurs in a counting list lost its column)
    guarded(R, 'X4 free_vars', engine_x.rule_X4, F, R, ('vars',))
    guarded(R, 'X3', engine_x.rule_X3, F, R); guarded(R, 'T filter spellings', engine_t.rule_tte, F, R)       # ... and the models are listed through the table printer (-t / -v, -f)
    R.floor('L-W:arithmetic-sites', 6); R.floor('L-W:ranges', 4); R.floor('N:loop-nests', 6); R.floor('N:proved-lines', 6); R.floor('N:families', 4)
    return finish(R, 'proof', tier, t0,
        'Affine loop-nest analysis, symbolic in n (nothing is instantiated): each of the constraint loops is read from THIR as `for i in a..b { [ for j in c..d { v_E(i,j,n), } ] OP 1 }`; '
        'the index polynomial E is decomposed as row*n + col with 0 <= row, col < n proved from the loop bounds by Fourier-Motzkin elimination; every list is shown to be a whole '
        'line of the board (row, column, diagonal col-row constant, anti-diagonal row+col constant; the cells just outside the j-range are off the board), rows and columns carry '
        '`= 1`, diagonals `<= 1`, and the line identifiers of the families cover every row, column, diagonal and anti-diagonal for all n >= 1. That is the standard characterisation of '
        'n mutually non-attacking queens over variables v_(row*n+col). Plus: no index arithmetic in an integer narrower than 32 bits. Not decided: well-formedness of the emitted '
        'text as a whole (trailing commas are C08), overflow of n*n beyond usize.',
        TRUSTED + ['n-queens = exactly one queen per row and per column and at most one per diagonal and anti-diagonal'], ['n >= 1; n*n fits in usize'], './check C15')

def check_C16(F, tier, t0):
    R = Report('C16')
    guarded(R, 'L', engine_l.rule_max_clique, F, R)
    guarded(R, 'L templates', engine_l.rule_max_clique_templates, F, R)
    guarded(R, 'X8', engine_x.rule_X8, F, R, 'max_clique_gen')
    guarded(R, 'X8 flush', engine_x.rule_X8_flush, F, R, 'max_clique_gen')
    guarded(R, 'X8 writer choice', engine_x.rule_X8_writer_choice, F, R, 'max_clique_gen')
    guarded(R, 'X8 reader choice', engine_x.rule_X8_reader_choice, F, R, 'max_clique_gen')
    guarded(R, 'L csv', engine_l.rule_csv_records, F, R, 'max_clique_gen')
    guarded(R, 'L complete walks', engine_l.rule_complete_walks, F, R, 'max_clique_gen', ('max_clique_gen::main',))
    guarded(R, 'no early return', engine_x.rule_no_early_return, F, R, 'max_clique_gen')
    guarded(R, 'L remarks', engine_l.rule_comment_holes, F, R, 'max_clique_gen')
    front_end(R, F)       # the emitted text means what the language's tokenizer and operator tables say it means
    guarded(R, 'X5', engine_x.rule_X5, F, R)      # ... with every name of the emitted formula a variable of its own
    E_ = make_engine(F); evaluation(R, E_)       # ... and what the evaluator and the operations it dispatches to compute for it
    guarded(R, 'S var_is_free', run_S, R, E_, [FRF], spec_bdd.B, False)      # ... the columns of the listing are the formula's free variables (seed C16-r11a: a vertex that only occurs in a counting list lost its column)
    guarded(R, 'X4 free_vars', engine_x.rule_X4, F, R, ('vars',))
    guarded(R, 'X3', engine_x.rule_X3, F, R); guarded(R, 'T filter spellings', engine_t.rule_tte, F, R)       # ... and the models are listed through the table printer (-t / -v, -f)
    R.floor('L:complement-push-sites', 1); R.floor('L:truth-table-rows', 16); R.floor('L:vertex-list-uses', 3); R.floor('L:template-skeleton-pieces', 6)
    return finish(R, 'other', tier, t0,
        'Clauses: the complement-edge guard as a truth table over {v1==v2, -u, E(v1,v2), E(v2,v1), already-emitted(v2,v1)} equals the specification (directed: constrained '
        'unless the edge exists; undirected: unless either direction exists, once per unordered pair); v1,v2 both range over the vertex set; both copies of the constraints are '
        'generated from the same list; --all replaces the maximality conjunct by true; binder list and both counting lists come from the vertex set; the emitted pieces of text, '
        'tokenised with the language\'s own token table (whitespace, comments and operator spelling are immaterial), form the reference skeleton `-(A & B) & ... (true | forall L # (-(v_A & v_B) & ...) => [V] >= [v_V])`. '
        'Not decided: CSV parsing; that vertex names are identifiers (property precondition).',
        TRUSTED, [], './check C16')

def check_C18(F, tier, t0):
    R = Report('C18')
    guarded(R, 'L', engine_l.rule_random_graph, F, R)
    guarded(R, 'L writers', engine_l.rule_graph_writers, F, R)
    guarded(R, 'L colours', engine_l.rule_colour_vertices, F, R)
    guarded(R, 'X8', engine_x.rule_X8, F, R, 'random_graph_gen')
    guarded(R, 'X8 flush', engine_x.rule_X8_flush, F, R, 'random_graph_gen')
    guarded(R, 'X8 writer choice', engine_x.rule_X8_writer_choice, F, R, 'random_graph_gen')
    guarded(R, 'L csv', engine_l.rule_csv_records, F, R, 'random_graph_gen')
    guarded(R, 'L complete walks', engine_l.rule_complete_walks, F, R, 'random_graph_gen', ('random_graph_gen::generate_graph', 'random_graph_gen::augment_colors', 'random_graph_gen::read_graph', 'random_graph_gen::main'))
    guarded(R, 'X8 order', engine_x.rule_X8_after_input, F, R, 'random_graph_gen', ('random_graph_gen::read_graph', 'random_graph_gen::generate_graph', 'random_graph_gen::augment_colors'))
    R.floor('L:refuse-not-truncate', 1); R.floor('L:candidate-push-sites', 1); R.floor('L:complete-count', 1); R.floor('L:truth-table-rows', 22); R.floor('L:edge-writer-sites', 3)
    return finish(R, 'other', tier, t0,
        'Clauses: generate_graph returns Ok only with the checked slice candidates[0..E] and Err otherwise (refuse, never truncate; exactly E edges by the slice contract); '
        'directed candidates are inserted iff i != j, undirected ones are taken from vertices[(i+1)..] (no self pair, each pair once); --complete requests V(V-1) resp. '
        'V(V-1)/2 (polynomial normal form); --convert keeps an edge unless -u and its reverse is already present; the colouring product graph connects (v,c),(w,d) iff '
        'v != w and (c != d or v,w not adjacent in either direction); each writer emits every edge of the selection once, source first, `--` inside `graph` iff -u, `->` inside `digraph` otherwise. Not decided: randomness of the shuffle, CSV parsing, the graph-theoretic reduction itself.',
        TRUSTED, [], './check C18')

def rule_categorize_bit(F, R):
    """C19: the sets are sets of b-bit integers only if `categorize(e, c)` of usize is a function of exactly bit c of e (seed C19-r11b: a table of
    masks with one wrong row made two elements share a minterm).  Decided on the shape of the body: `((e >> c) & 1) ==/!= 0|1`, `(e & (1 << c)) ==/!= 0`,
    `((e >> c) % 2) ==/!= 0|1`, operands in either order, possibly negated; anything else is reported as undecidable (fail closed)."""
    from facts import walk as _walk, pp as _pp
    lib = F.lib()
    ks = [k for k in lib.ithir if k.endswith('BDDCategorizable>::categorize') and '<usize as' in k and lib.ithir[k].get('body')]
    if not ks:
        R.violation('rsbdd::set::BDDCategorizable for usize / categorize', 'UNDECIDABLE', 'the implementation of categorize for usize was not found'); return
    t = lib.ithir[ks[0]]
    pv = [q.get('pat', {}).get('var') for q in t['params']]
    if len(pv) != 2 or None in pv:
        R.violation(ks[0] + ' / bit c of e', 'UNDECIDABLE', 'parameters of categorize are not two plain bindings'); return
    e_, c_ = pv
    def strip(x):
        while x is not None:
            if x['k'] in ('Borrow', 'Deref', 'Use', 'Scope'): x = x.get('arg') or x.get('source') or x.get('value')
            elif x['k'] == 'Block' and not x.get('stmts') and x.get('expr'): x = x['expr']
            else: break
        return x
    def is_var(x, v): x = strip(x); return x is not None and x['k'] == 'VarRef' and x['var'] == v
    def lit(x):
        x = strip(x)
        return int(x['value']) if x is not None and x['k'] == 'Literal' and x.get('lit') == 'Int' and not x.get('neg') and str(x.get('value', '')).isdigit() else None
    def binop(x):
        x = strip(x)
        if x is None: return None
        if x['k'] == 'Binary': return (x['op'], x['lhs'], x['rhs'])
        if x['k'] == 'Call' and len(x.get('args', [])) == 2:
            d = (x['callee'].get('trait') or x['callee'].get('def') or '')
            for tr, op in (('std::ops::Shr', 'Shr'), ('std::ops::Shl', 'Shl'), ('std::ops::BitAnd', 'BitAnd'), ('std::ops::Rem', 'Rem')):
                if d.startswith(tr): return (op, x['args'][0], x['args'][1])
        return None
    def shifted_down(x):          # e >> c
        b = binop(x); return b is not None and b[0] == 'Shr' and is_var(b[1], e_) and is_var(b[2], c_)
    def one_at_c(x):              # 1 << c
        b = binop(x); return b is not None and b[0] == 'Shl' and lit(b[1]) == 1 and is_var(b[2], c_)
    def bit_value(x):
        """'01' if x is bit c of e as 0/1, 'mask' if it is e & (1 << c), None otherwise"""
        b = binop(x)
        if b is None: return None
        op, l, r = b
        if op == 'BitAnd':
            for a1, a2 in ((l, r), (r, l)):
                if shifted_down(a1) and lit(a2) == 1: return '01'
                if is_var(a1, e_) and one_at_c(a2): return 'mask'
        if op == 'Rem' and shifted_down(l) and lit(r) == 2: return '01'
        return None
    def test(x):
        x = strip(x)
        if x is None: return False
        if x['k'] == 'Unary' and x.get('op') == 'Not': return test(x['arg'])
        b = binop(x)
        if b is None or b[0] not in ('Eq', 'Ne'): return False
        for a1, a2 in ((b[1], b[2]), (b[2], b[1])):
            kind = bit_value(a1); n = lit(a2)
            if kind == '01' and n in (0, 1): return True
            if kind == 'mask' and n == 0: return True
        return False
    ok = test(t['body'])
    R.count('categorize-bit-test'); R.obligation(ok, 'categorize reads bit c')
    if not ok:
        R.violation(ks[0] + ' / bit c of e', 'UNDECIDABLE', 'cannot show that categorize(e, c) is a function of exactly bit c of e (two elements that differ in a bit must differ in a literal of their minterms): the body is `%s`' % _pp(t['body']).strip()[:200], t['body'].get('loc'))

def check_C19(F, tier, t0):
    R = Report('C19')
    E = make_engine(F)
    E.merge_ifs = True
    spec_set.mark_inline(E)
    guarded(R, 'S set operations', run_S, R, E, spec_set.SET_FNS, spec_set.S_)
    guarded(R, 'E10', engine_e.rule_E10, F, R)      # the operations work in the set's one environment
    guarded(R, 'categorize', rule_categorize_bit, F, R)      # ... and the literal chosen for position i is bit i of the element
    def aliased():
        E.alias_params = (0, 1)
        try:
            sub = Report('alias')
            run_S(sub, E, ['union', 'intersect', 'complement'], spec_set.S_, closure=False)
            for v in sub.violations: R.violation(v.key + ' [same set as both operands]', v.rule, v.msg + ' (run with the operand aliased to the receiver)', v.loc, v.detail)
            R.obligations += sub.obligations; R.discharged += sub.discharged; R.idents |= set('alias ' + str(i) for i in sub.idents)
            R.count('aliased-runs', 3)
        finally:
            E.alias_params = None
    guarded(R, 'S aliased operands', aliased)
    guarded(R, 'E7', engine_g.rule_E7, F, R)
    def g():
        for (key, rule, msg, loc, cell) in engine_g.guard_regions(F, R):
            if cell[0] == 'rsbdd::set::BDDSet': R.violation(key, rule, msg, loc)
    guarded(R, 'G1', g)
    R.floor('functions', 7); R.floor('E7:query-methods', 1); R.floor('G:guards', 5); R.floor('aliased-runs', 3)
    return finish(R, 'other', tier, t0,
        'Signatures of the set operations by engine S on the tracked RefCell content: union/intersect/complement write the receiver\'s cell once with old-self or/and/and-not '
        'old-other (also with the operand aliased to the receiver), never the operand\'s; insert ors in the minterm whose i-th literal is chosen by categorize(e,i) for i in '
        '0..bits; empty/universe store the constants; contains returns the structural test (content and {e}) == {e}. Effects: a query method never writes the cell of the set '
        'it is asked of (E7, receiver-sensitive through calls); no RefCell guard is alive across a write of a cell that may be the same one (G1: self-aliasing operands). '
        'Membership agreement with a reference set under every history follows from these signatures and C02/C03. categorize(e,i) for usize is a test of exactly bit i of e (shape of its body). Not decided: injectivity of categorize beyond bit i '
        'deciding literal i.',
        TRUSTED, [], './check C19')


def check_C17(F, tier, t0):
    R = Report('C17')
    import engine_u
    guarded(R, 'U', engine_u.rule_sudoku, F, R)
    guarded(R, 'X8', engine_x.rule_X8, F, R, 'sudoku_gen')
    guarded(R, 'X8 flush', engine_x.rule_X8_flush, F, R, 'sudoku_gen')
    guarded(R, 'X8 writer choice', engine_x.rule_X8_writer_choice, F, R, 'sudoku_gen')
    guarded(R, 'X8 reader choice', engine_x.rule_X8_reader_choice, F, R, 'sudoku_gen')
    guarded(R, 'no early return', engine_x.rule_no_early_return, F, R, 'sudoku_gen')
    guarded(R, 'L remarks', engine_l.rule_comment_holes, F, R, 'sudoku_gen')
    front_end(R, F)       # the emitted text means what the language's tokenizer and operator tables say it means
    guarded(R, 'X5', engine_x.rule_X5, F, R)      # ... with every name of the emitted formula a variable of its own
    E_ = make_engine(F); evaluation(R, E_)       # ... and what the evaluator and the operations it dispatches to compute for it
    guarded(R, 'S var_is_free', run_S, R, E_, [FRF], spec_bdd.B, False)      # ... the columns of the listing are the formula's free variables (seed C16-r11a: a vertex that only occurs in a counting list lost its column)
    guarded(R, 'X4 free_vars', engine_x.rule_X4, F, R, ('vars',))
    guarded(R, 'X3', engine_x.rule_X3, F, R); guarded(R, 'T filter spellings', engine_t.rule_tte, F, R)       # ... and the models are listed through the table printer (-t / -v, -f)
    guarded(R, 'L-W', engine_l.rule_width, F, R, 'sudoku_gen')
    R.floor('U:list-emissions', 4); R.floor('U:proved-families', 4); R.floor('U:families-required', 4); R.floor('U:hint-rule', 1); R.floor('U:whitespace-filter', 1)
    return finish(R, 'proof', tier, t0,
        'Constraint-family analysis, symbolic in root (nothing is instantiated): every `[..] = 1` list of the emitted formula is read from THIR as a stack of numeric loops plus one '
        '`(range).map(|m| format!("_{}_is_{}", CELL, NUM)).join(", ")`; CELL and NUM are brought to polynomial normal form over the loop indices and the sizes root, '
        'square = root*root, numcells = square*square (m / root and m % root of an index over [0, root*root) become two digit variables); each list is shown to be one of the four sudoku '
        'families, complete in all its indices - per cell exactly one number in 1..=square; per row and number exactly one column; per column and number exactly one row; per box '
        '(a,b) in [0,root)^2 and number exactly one cell (a*root+p, b*root+q) - with cell = row*square + col, and all four families are present. Hints: cell i receives the i-th character of '
        'the whitespace-stripped input iff it is a decimal digit. These constraints are the standard exact encoding, so models correspond one-to-one to completed grids that keep the givens. '
        'Trusted arithmetic lemmas: row-major and div/mod bijections on [0, r*r), and a*r+p in [0, r*r) for digits a, p. Not decided: well-formedness of the text as a whole (C08), '
        'givens outside 1..r^2 (excluded by the property), overflow of root^4.',
        TRUSTED + ['lemmas L1-L3 of rules/engine_u.py (div/mod and mixed-radix bijections)', 'sudoku = each cell one value, each value once per row / column / box, givens kept'],
        ['root >= 1; givens are digits between 1 and root^2'], './check C17')

"""One function per claimed property: runs the engines on the extracted facts and reports."""
import os, time
import framework
from framework import Report, finish
from facts import canon, walk, callee_name
from engine import Engine
from absint import Undecidable
import spec_bdd

TRUSTED = ['rustc nightly front end: THIR/MIR are what gets compiled',
           'fact extractor /verif/driver (serialisation of THIR/MIR/items to JSON)',
           'abstract interpreter /verif/rules/absint.py and decision procedure /verif/rules/logic.py',
           'specification table /verif/rules/spec_*.py (transcribed from the property statements)',
           'meta-theorems M1-M4, M6 of DESIGN.md (denotation, structural induction, pointwise composition, Bryant canonicity, lawful Ord)']

def short_label(l):
    return l.split('(result')[0].split(' (cofactor')[0].strip()

def run_S(report, E, fnames, prefix=spec_bdd.B):
    """Explore every function, turn obligations into report entries.  Returns {fname: exploration}."""
    results = {}
    for n in fnames:
        full = prefix + n if not n.startswith('rsbdd') else n
        try:
            res = E.explore(full)
        except Undecidable as u:
            report.violation('%s / UNDECIDABLE / %s' % (full, u.construct), 'UNDECIDABLE',
                             'cannot analyse %s: %s (fail closed)' % (full, u.construct), u.loc)
            continue
        results[full] = res
        report.functions.append({'fn': full, 'worlds': len(res), 'obligations': sum(len(o) for _, _, _, o in res)})
        report.count('functions')
        report.count('worlds', len(res))
        for (I, params, r, obls) in res:
            for ev in I.events:
                if ev[0] == 'mk_choice': report.count('mk_choice-sites-x-worlds')
            for o in obls:
                ident = '%s | %s | %s' % (full, short_label(o.label), o.world)
                report.obligation(o.ok, ident)
                if o.ok:
                    if o.kind == 'valid': report.sample({'fn': full, 'world': o.world, 'obligation': o.label, 'goal': o.detail.get('goal'), 'assumptions': o.detail.get('assumptions'), 'cases': o.detail.get('cases')})
                else:
                    rule = short_label(o.label).split(':')[0]
                    report.violation('%s / %s / world[%s]' % (full, short_label(o.label), o.world), rule,
                                     '%s fails in abstract world [%s]' % (o.label, o.world), o.loc, o.detail)
    return results

def static_mk_choice_sites(crate, fnames, prefix=spec_bdd.B):
    n = 0
    for f in fnames:
        t = crate.thir.get(prefix + f)
        if not t: continue
        for e in walk(t['body']):
            if e['k'] == 'Call' and callee_name(e) == spec_bdd.B + 'mk_choice': n += 1
    return n

def make_engine(F):
    E = Engine(F)
    spec_bdd.install(E)
    return E

def check_C03(F, tier, t0):
    R = Report('C03')
    E = make_engine(F)
    fns = spec_bdd.BDD_SCOPE['C03']
    run_S(R, E, fns)
    R.count('mk_choice-call-sites', static_mk_choice_sites(F.lib(), fns))
    R.floor('functions', 10); R.floor('worlds', 27); R.floor('mk_choice-call-sites', 8)
    return finish(R, 'proof', tier, t0,
        'Inductive proof, by exhaustive enumeration of abstract worlds (leaf/choice shape of each operand, total pre-order of the compared symbols) of each '
        'function body taken from type-checked THIR, that and/or/not/implies/ite/eq/xor/nor/nand/var return the specified pointwise truth function for ALL operand '
        'diagrams and all symbol orders; recursive calls use the summary as induction hypothesis (size-change checked); each obligation is a propositional identity '
        'decided by truth table. Also: every mk_choice call is order-respecting and support(result) is within support(operands). mk_const is an axiom here (rule E3 in C13).',
        TRUSTED, ['operands are ordered diagrams over a common lawful total order (precondition of the property)'],
        './check C03')

def check_C04(F, tier, t0):
    R = Report('C04')
    E = make_engine(F)
    fns = spec_bdd.BDD_SCOPE['C04']
    run_S(R, E, fns)
    R.count('mk_choice-call-sites', static_mk_choice_sites(F.lib(), fns))
    R.floor('functions', 3); R.floor('worlds', 7); R.floor('mk_choice-call-sites', 1)
    return finish(R, 'proof', tier, t0,
        'exists_impl(s,b) = b|s=1 or b|s=0 proved by structural induction in the cofactor-pair domain (every atom is the pair of its two cofactors; children of an '
        'ordered node testing s are independent of s); s is not in the support of the result and support(result) is within support(b); exists(V,b) is exactly the fold of '
        'exists_impl over V (term identity with the defining equations) and all(V,b) exactly the dual not(exists(V,not b)). Order/repetition independence and identity on '
        'disjoint V are mathematical consequences of these equations. The language-level dispatch to exists/all is checked in C01.',
        TRUSTED, ['operands are ordered diagrams over a common lawful total order'], './check C04')

def check_C20(F, tier, t0):
    R = Report('C20')
    E = make_engine(F)
    fns = spec_bdd.BDD_SCOPE['C20']
    run_S(R, E, fns)
    R.count('mk_choice-call-sites', static_mk_choice_sites(F.lib(), fns))
    R.floor('functions', 1); R.floor('worlds', 20); R.floor('mk_choice-call-sites', 3)
    return finish(R, 'proof', tier, t0,
        'Per filter value, inductive proof over all shapes of the two recursively rebuilt children that retain(True) is implied by f, retain(False) implies f, retain(Any) is f '
        'itself; every rebuilt node is order-respecting (mk_choice obligations) and support(result) is within support(f). Reducedness is inherited from mk_choice (C02).',
        TRUSTED, ['operand is an ordered diagram'], './check C20')

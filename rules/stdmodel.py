"""Models of std / dependency functions, keyed by canonical resolved or declared def path.
Anything not listed here (and not a specified or inlinable local function) is UNDECIDABLE."""

from logic import *
from absint import *
from absint import _contains

def install(E):
    S = E.std

    def ident(I, args, e, c): return args[0]
    for n in ('std::clone::Clone::clone', 'std::convert::AsRef::as_ref', 'std::ops::Deref::deref',
              'std::ops::DerefMut::deref_mut', 'std::borrow::Borrow::borrow', 'std::boxed::Box::new',
              'std::slice::<impl [T]>::to_vec', 'std::borrow::ToOwned::to_owned', 'std::iter::Iterator::cloned',
              'std::iter::Iterator::copied', 'std::option::Option::cloned', 'std::option::Option::copied',
              'std::convert::Into::into', 'std::iter::IntoIterator::into_iter'):
        S['trait:' + n] = ident
        S[n] = ident

    def rc_new(I, args, e, c):
        I.events.append(('rc_new', e['loc']))
        return args[0]
    S['std::rc::Rc::new'] = rc_new

    def is_empty(I, args, e, c):
        v = args[0]
        if isinstance(v, VList): return VBool(const(I.list_empty(v.term)))
        raise Undecidable('is_empty on %r' % (v,), e['loc'])
    S['core::slice::<impl [T]>::is_empty'] = is_empty
    S['std::vec::Vec::is_empty'] = is_empty

    def index(I, args, e, c): return I.index(args[0], args[1], e['loc'])
    S['trait:std::ops::Index::index'] = index

    def to_iter(I, args, e, c):
        v = args[0]
        if isinstance(v, VList): return VIter(v.term, v.elem)
        if isinstance(v, VIter): return v
        if isinstance(v, VItems): return v
        raise Undecidable('iter on %r' % (v,), e['loc'])
    S['core::slice::<impl [T]>::iter'] = to_iter
    S['trait:std::iter::IntoIterator::into_iter'] = to_iter
    S['std::iter::IntoIterator::into_iter'] = to_iter

    def cls_of(I, v):
        if isinstance(v, VBdd): return ('bdd',)
        if isinstance(v, VSym): return ('sym',)
        if isinstance(v, VBool): return ('bool',)
        if isinstance(v, VInt): return ('int', 'i64')
        if isinstance(v, (VData, VCons)): return ('data', canon(v.adt))
        return ('opaque',)

    def as_iter(I, it):
        if isinstance(it, VCons) and canon(it.adt) == 'std::ops::Range':
            return VIter(('range', I.term_of(it.fields[0]), I.term_of(it.fields[1])), ('int', 'usize'))
        return it
    def it_map(I, args, e, c):
        it, f = args
        it = as_iter(I, it)
        if not isinstance(it, VIter): raise Undecidable('map on %r' % (it,), e['loc'])
        ev = I.fresh(it.elem, ('elem', it.term))
        r = I.apply(f, [ev], e['loc'])
        return VIter(('map', I.term_of(r), it.term), cls_of(I, r))
    S['trait:std::iter::Iterator::map'] = it_map
    S['std::iter::Iterator::map'] = it_map

    def it_collect(I, args, e, c):
        it = args[0]
        if not isinstance(it, VIter): raise Undecidable('collect on %r' % (it,), e['loc'])
        cls = ty_class(e['ty'], I.symparams)
        if cls[0] != 'list': raise Undecidable('collect into non-list ' + e['ty']['s'], e['loc'])
        return VList(it.term, it.elem)
    S['trait:std::iter::Iterator::collect'] = it_collect
    S['std::iter::Iterator::collect'] = it_collect

    def it_chain(I, args, e, c):
        a, b = args
        def as_part(x):
            if isinstance(x, VList): return VIter(x.term, x.elem)
            if isinstance(x, (VIter, VItems)): return x
            raise Undecidable('chain on %r' % (x,), e['loc'])
        return VItems([as_part(a), as_part(b)], spelt=False)
    S['trait:std::iter::Iterator::chain'] = it_chain
    S['std::iter::Iterator::chain'] = it_chain
    def it_any(I, args, e, c):
        it, f = args
        if isinstance(it, VItems):
            # any over a spelt-out sequence / a chain: the disjunction over its members / parts, in order
            parts = []
            for x in it.parts:
                if it.spelt:
                    r = I.apply(f, [x], e['loc'])
                    if not isinstance(r, VBool): raise Undecidable('any with non-bool closure', e['loc'])
                    parts.append(r.t)
                else:
                    r = it_any(I, [x, f], e, c)
                    parts.append(r.t)
            return VBool(Or(*parts)) if parts else VBool(const(False))
        if not isinstance(it, VIter): raise Undecidable('any on %r' % (it,), e['loc'])
        ev = I.fresh(it.elem, ('elem', it.term))
        r = I.apply(f, [ev], e['loc'])
        if not isinstance(r, VBool): raise Undecidable('any with non-bool closure', e['loc'])
        return VBool(atom(('any', r.t, it.term)))
    S['trait:std::iter::Iterator::any'] = it_any

    def contains(I, args, e, c):
        l, x = args
        if isinstance(l, VList):
            return VBool(atom(('contains', l.term, I.term_of(x))))
        raise Undecidable('contains on %r' % (l,), e['loc'])
    S['core::slice::<impl [T]>::contains'] = contains

    # ---- comparisons ----
    def variant_of(I, v, loc):
        if isinstance(v, VCons): return v.variant
        if isinstance(v, VData):
            variants = I.E.variants(canon(v.adt))
            if variants is None or any(x['fields'] for x in variants):
                raise Undecidable('equality on enum with fields ' + v.adt, loc)
            return I.W.decide(('variant', v.term), [x['name'] for x in variants])
        raise Undecidable('variant_of %r' % (v,), loc)

    def eq_impl(I, a, b, e, c):
        loc = e['loc']
        if isinstance(a, VSym) and isinstance(b, VSym):
            return VBool(const(I.W.decide_eq(a.term, b.term)))
        if isinstance(a, VBdd) and isinstance(b, VBdd):
            return VBool(const(I.bdd_eq(a.term, b.term)))
        if isinstance(a, VInt) and isinstance(b, VInt):
            return VBool(('eq0', a.lin - b.lin))
        if isinstance(a, VBool) and isinstance(b, VBool):
            return VBool(Iff(a.t, b.t))
        if isinstance(a, (VData, VCons)) and isinstance(b, (VData, VCons)):
            if isinstance(a, VCons) and a.fields or isinstance(b, VCons) and b.fields:
                raise Undecidable('equality on constructed value with fields', loc)
            return VBool(const(variant_of(I, a, loc) == variant_of(I, b, loc)))
        if isinstance(a, VOpaque) and isinstance(b, VOpaque) and a.term == b.term:
            return VBool(TRUE)
        raise Undecidable('equality between %r and %r' % (a, b), loc)

    def eq(I, args, e, c): return eq_impl(I, args[0], args[1], e, c)
    def ne(I, args, e, c):
        r = eq_impl(I, args[0], args[1], e, c)
        return VBool(Not(r.t))
    S['trait:std::cmp::PartialEq::eq'] = eq
    S['trait:std::cmp::PartialEq::ne'] = ne

    def mk_minmax(is_max):
        def mm(I, args, e, c):
            a, b = args[0], args[1]
            if not (isinstance(a, VInt) and isinstance(b, VInt)): raise Undecidable('min/max on %r' % (a,), e['loc'])
            d = b.lin - a.lin                  # b - a
            if d.is_const():
                a_le_b = d.k >= 0
            else:
                a_le_b = I.truth(VBool(('le0', a.lin - b.lin)), e['loc'])     # case split: a <= b ?
            return (b if a_le_b else a) if is_max else (a if a_le_b else b)
        return mm
    S['trait:std::cmp::Ord::max'] = mk_minmax(True)
    S['std::cmp::Ord::max'] = mk_minmax(True)
    S['trait:std::cmp::Ord::min'] = mk_minmax(False)
    S['std::cmp::Ord::min'] = mk_minmax(False)
    S['std::cmp::max'] = mk_minmax(True)
    S['std::cmp::min'] = mk_minmax(False)

    def ptr_eq(I, args, e, c):
        """Rc::ptr_eq: pointer identity implies structural equality, never the converse - a structurally equal diagram may
        have been allocated elsewhere (another environment, From, Rc::new), so both outcomes are explored when the operands are equal"""
        a, b = args[0], args[1]
        if not (isinstance(a, VBdd) and isinstance(b, VBdd)):
            raise Undecidable('Rc::ptr_eq on %r' % (a,), e['loc'])
        if not I.bdd_eq(a.term, b.term): return VBool(FALSE)
        key = ('ptreq',) + tuple(sorted((I.W.rep(a.term), I.W.rep(b.term)), key=repr))
        return VBool(const(I.W.decide(key, [True, False])))
    S['std::rc::Rc::ptr_eq'] = ptr_eq
    S['alloc::rc::Rc::ptr_eq'] = ptr_eq

    def mk_ord(test):
        def h(I, args, e, c):
            a, b = args
            if isinstance(a, VSym) and isinstance(b, VSym):
                r = I.W.decide_rel(a.term, b.term)
                return VBool(const(test(r)))
            if isinstance(a, VInt) and isinstance(b, VInt):
                d = a.lin - b.lin
                return VBool({'lt': ('le0', d + 1), 'le': ('le0', d), 'gt': ('le0', -d + 1), 'ge': ('le0', -d)}[test.__name__])
            raise Undecidable('ordering comparison between %r and %r' % (a, b), e['loc'])
        return h
    def lt(r): return r == 'lt'
    def le(r): return r in ('lt', 'eq')
    def gt(r): return r == 'gt'
    def ge(r): return r in ('gt', 'eq')
    for nm, t in (('lt', lt), ('le', le), ('gt', gt), ('ge', ge)):
        S['trait:std::cmp::PartialOrd::' + nm] = mk_ord(t)

    # ---- closures / fn traits ----
    def fn_call(I, args, e, c):
        f, tup = args
        items = tup.items if isinstance(tup, VTuple) else ([] if isinstance(tup, VUnit) else [tup])
        return I.apply(f, items, e['loc'], e)
    for n in ('std::ops::Fn::call', 'std::ops::FnMut::call_mut', 'std::ops::FnOnce::call_once'):
        S['trait:' + n] = fn_call
        S[n] = fn_call

    # ---- panics ----
    def panic(I, args, e, c):
        raise Diverge('panic', e['loc'])
    for n in ('std::rt::panic_fmt', 'core::panicking::panic', 'core::panicking::panic_fmt', 'core::panicking::unreachable_display',
              'core::panicking::panic_explicit', 'std::rt::begin_panic', 'core::panicking::panic_display', 'std::process::abort'):
        S[n] = panic

    # ---- formatting / output (effect only) ----
    def opaque(I, args, e, c): return VOpaque(('fmt', e['loc']))
    for n in ('core::fmt::rt::Argument::new_debug', 'core::fmt::rt::Argument::new_display', 'std::fmt::Arguments::new',
              'std::fmt::Arguments::from_str_nonconst', 'std::fmt::Arguments::from_str', 'std::fmt::Arguments::new_const', 'std::fmt::Arguments::new_v1'):
        S[n] = opaque
    def output(I, args, e, c):
        I.events.append(('output', e['loc']))
        return UNIT
    for n in ('std::io::_eprint', 'std::io::_print'):
        S[n] = output

    # ---- Option ----
    def opt_tag(I, v, loc):
        if not isinstance(v, VOption): raise Undecidable('Option method on %r' % (v,), loc)
        if v.tag == 'opaque':
            return I.W.decide(('opt', v.term), ['none', 'some'])
        return v.tag
    def opt_inner(I, v):
        return v.value if v.tag == 'some' else v.mk(('some', v.term))
    def map_or_else(I, args, e, c):
        o, d, f = args
        if opt_tag(I, o, e['loc']) == 'none': return I.apply(d, [], e['loc'])
        return I.apply(f, [opt_inner(I, o)], e['loc'])
    S['std::option::Option::map_or_else'] = map_or_else
    def opt_expect(I, args, e, c):
        o = args[0]
        if opt_tag(I, o, e['loc']) == 'none': raise Diverge('expect/unwrap on None', e['loc'])
        return opt_inner(I, o)
    S['std::option::Option::expect'] = opt_expect
    S['std::option::Option::unwrap'] = opt_expect

    # ---- integers (clamping conversions are value-preserving on the range that counts can take) ----
    def try_from(I, args, e, c):
        v = args[0]
        if isinstance(v, VInt):
            return VCons('CLAMPABLE', 'TryFrom', [v])
        raise Undecidable('try_from on %r' % (v,), e['loc'])
    S['trait:std::convert::TryFrom::try_from'] = try_from
    S['trait:std::convert::TryInto::try_into'] = try_from
    def unwrap_or(I, args, e, c):
        v, d = args
        if isinstance(v, VCons) and v.adt == 'CLAMPABLE':
            # try_from(x).unwrap_or(d): x when it fits, d otherwise.  Treating this as the identity on x is justified only if d is at
            # least as large as every value a count can take (lists have at most isize::MAX members), i.e. d >= 2^63 - 1.
            ok = isinstance(d, VInt) and d.lin.is_const() and d.lin.k >= 2**63 - 1
            I.events.append(('clamp' if ok else 'clamp_bad', repr(d), e['loc']))
            return v.fields[0]
        if isinstance(v, VOption):
            if opt_tag(I, v, e['loc']) == 'none': return d
            return opt_inner(I, v)
        raise Undecidable('unwrap_or on %r' % (v,), e['loc'])
    S['std::result::Result::unwrap_or'] = unwrap_or
    S['std::option::Option::unwrap_or'] = unwrap_or
    def sat(sign, unsigned=False):
        def h(I, args, e, c):
            a, b = args
            if isinstance(a, VInt) and isinstance(b, VInt):
                I.events.append(('saturating', e['loc']))
                if unsigned and sign < 0:
                    # an unsigned subtraction saturates at 0, a value counts do take: a - b when b <= a, else 0 (case split)
                    if I.truth(VBool(('le0', b.lin - a.lin)), e['loc']): return VInt(a.lin - b.lin)
                    return VInt(a.lin - a.lin)
                # the upper ends (and i64::MIN) are beyond every count: exact arithmetic there
                return VInt(a.lin + b.lin if sign > 0 else a.lin - b.lin)
            raise Undecidable('saturating op', e['loc'])
        return h
    for t in ('i64', 'isize', 'i32'):
        S['core::num::<impl %s>::saturating_add' % t] = sat(1)
        S['core::num::<impl %s>::saturating_sub' % t] = sat(-1)
    for t in ('usize', 'u64', 'u32'):
        S['core::num::<impl %s>::saturating_add' % t] = sat(1)
        S['core::num::<impl %s>::saturating_sub' % t] = sat(-1, True)

    # ---- RefCell / HashMap (unique table `nodes`, BDDSet.bdd) ----
    def cell_content(I, cell, e, inner_ty):
        if not isinstance(cell, VCell): raise Undecidable('RefCell method on %r' % (cell,), e['loc'])
        if cell.key not in I.cells:
            cls = ty_class(inner_ty, I.symparams) if inner_ty is not None else ('opaque',)
            I.cells[cell.key] = I.fresh(cls, ('cellval', cell.key), inner_ty)
        return I.cells[cell.key]
    def ref_inner(e):
        t = e['ty']
        if t['k'] == 'Adt' and t['args']: return t['args'][0]
        return None
    def cell_borrow(I, args, e, c):
        I.events.append(('cell_borrow', args[0].key if isinstance(args[0], VCell) else None, False, e['loc']))
        return cell_content(I, args[0], e, ref_inner(e))
    def cell_borrow_mut(I, args, e, c):
        I.events.append(('cell_borrow', args[0].key if isinstance(args[0], VCell) else None, True, e['loc']))
        return cell_content(I, args[0], e, ref_inner(e))
    def cell_replace(I, args, e, c):
        cell, v = args
        old = cell_content(I, cell, e, e['ty'])
        I.cells[cell.key] = v
        I.events.append(('cell_write', cell.key, I.term_of(v), e['loc']))
        return old
    def cell_replace_with(I, args, e, c):
        # cell.replace_with(|current| f(current)): one mutable borrow, the new content is f(old), the old content is handed back
        cell, f = args
        old = cell_content(I, cell, e, e['ty'])
        I.events.append(('cell_borrow', cell.key if isinstance(cell, VCell) else None, True, e['loc']))
        new = I.apply(f, [old], e['loc'], e)
        I.cells[cell.key] = new
        I.events.append(('cell_write', cell.key, I.term_of(new), e['loc']))
        return old
    S['std::cell::RefCell::replace_with'] = cell_replace_with
    def cell_new(I, args, e, c):
        k = ('newcell', e['loc'])
        I.cells[k] = args[0]
        return VCell(k)
    S['std::cell::RefCell::borrow'] = cell_borrow
    S['std::cell::RefCell::borrow_mut'] = cell_borrow_mut
    S['std::cell::RefCell::replace'] = cell_replace
    def cell_take(I, args, e, c):
        cell = args[0]
        old = cell_content(I, cell, e, e['ty'])
        cls = ty_class(e['ty'], I.symparams)
        if cls[0] != 'bdd': raise Undecidable('RefCell::take on a cell that does not hold a diagram', e['loc'])
        I.cells[cell.key] = VBdd(('leaf', False))          # Default for Rc<BDD<_>> is the False leaf
        I.events.append(('cell_write', cell.key, ('leaf', False), e['loc']))
        return old
    S['std::cell::RefCell::take'] = cell_take
    def cell_into_inner(I, args, e, c):
        # consumes the cell and yields what it holds (no borrow is taken: the cell is owned)
        return cell_content(I, args[0], e, e['ty'])
    S['std::cell::RefCell::into_inner'] = cell_into_inner
    S['std::cell::RefCell::new'] = cell_new

    def hm_get(I, args, e, c):
        table, key = args
        if not isinstance(key, VBdd): raise Undecidable('HashMap::get with key %r' % (key,), e['loc'])
        kt = I.W.rep(key.term)
        tt = I.term_of(table)
        I.events.append(('table_get', tt, kt, e['loc']))
        is_nodes = isinstance(tt, tuple) and tt[0] == 'cellval' and isinstance(tt[1], tuple) and tt[1][0] == 'fld' and tt[1][3] == 'nodes'
        if not is_nodes:
            # any other map (e.g. a memo cache): nothing is known about the stored value
            return VOption('opaque', term=('get', tt, kt), mk=lambda t, tt=tt, kt=kt: VBdd(('mapval', tt, kt)))
        if kt[0] == 'leaf':
            # R2: the table always holds both leaves (seeded by new(), never removed: rules E2/E3)
            return VOption('some', VBdd(kt))
        # axiom key == *value (rule E2): a hit is structurally the key
        return VOption('opaque', term=('get', I.term_of(table), kt), mk=lambda t, kt=kt: VBdd(kt))
    S['std::collections::HashMap::get'] = hm_get
    def hm_insert(I, args, e, c):
        table, k, v = args
        I.events.append(('table_insert', I.term_of(table), I.term_of(k), I.term_of(v), e['loc']))
        return VOpaque(('insert-result', e['loc']))
    S['std::collections::HashMap::insert'] = hm_insert
    def hm_len(I, args, e, c): return VInt(Lin.var(('int', 'len(%s)' % show_key(I.term_of(args[0])))))
    S['std::collections::HashMap::len'] = hm_len
    def default(I, args, e, c):
        cls = ty_class(e['ty'], I.symparams)
        return I.fresh(cls, ('default', e['loc']), e['ty'])
    S['trait:std::default::Default::default'] = default

    def fold_core(I, it, init, step, loc, closure_thir=None):
        """fold(it, init, step).  Two ways to give it a meaning:
        (1) induction: `it` walks a list parameter L of the function under analysis (front to back, or back to front via rev) and
            the fold is the function's result.  Then, with the function's own summary F as induction hypothesis on the tail,
              rev:      fold(rev(h::t), init, f)  = f(fold(rev t, init, f), h)          = f(F[L:=t], h)
              forward:  fold(h::t, b, f)          = fold(t, f(b, h), f)                 = F[L:=t, b:=f(b,h)]   (b a parameter)
            (explore() checks afterwards that the fold really is what the function returns, and the size-change rule sees the call);
        (2) a conjunction of members: step(acc, x) = and(acc, g(x))  ->  FOLD_AND(init, map(g, it))."""
        it = as_iter(I, it)
        if not isinstance(it, VIter) or not isinstance(init, VBdd): raise Undecidable('fold on %r' % (it,), loc)
        t = it.term; rev = False
        if t[0] == 'rev': rev = True; t = t[1]
        params = getattr(I, 'top_params', None)
        sp = I.E.specs.get(I.fname)
        if params is not None and sp is not None and len(I.inline_stack) == 1 and not getattr(sp, 'inline_calls', False):
            idx = [i for i, p in enumerate(params) if isinstance(p, VList) and p.term == t]
            if idx:
                idx = idx[0]
                th = I.E.thir(I.fname)
                pv = th['params'][idx].get('pat', {})
                pvar = pv.get('var') if pv.get('k') == 'Binding' else None
                if closure_thir is not None and pvar is not None and any(x.get('var') == pvar for x in walk(closure_thir)):
                    raise Undecidable('fold whose step function reads the list it folds over', loc)
                if I.list_empty(t): 
                    I.events.append(('fold_induction', I.term_of(init), loc)); I.fold_used = True
                    return init
                L = params[idx]
                h = I.fresh(L.elem, I.list_head(t, L.elem, loc)); tl = VList(I.list_tail(t, loc), L.elem)
                args2 = list(params); args2[idx] = tl
                if rev:
                    ih = I.E.apply_spec(I, sp, args2, loc)
                    r = step(ih, h)
                else:
                    j = [i for i, p in enumerate(params) if isinstance(p, VBdd) and p.term == init.term]
                    if not j: raise Undecidable('front-to-back fold over a list parameter whose initial value is not a parameter', loc)
                    args2[j[0]] = step(init, h)
                    r = I.E.apply_spec(I, sp, args2, loc)
                I.events.append(('fold_induction', I.term_of(r), loc)); I.fold_used = True
                return r
        if rev: raise Undecidable('fold over a reversed sequence that is not a list parameter of the function', loc)
        acc = VBdd(('p', 'FOLD_ACC'))
        el = I.fresh(it.elem, ('elem', it.term))
        r = step(acc, el)
        AND = 'rsbdd::bdd::BDDEnv::and'
        if isinstance(r, VBdd) and r.term[0] == 'app' and r.term[1] == AND and len(r.term) == 4:
            x = r.term[3] if r.term[2] == acc.term else r.term[2] if r.term[3] == acc.term else None
            if x is not None and x == I.term_of(el):
                I.events.append(('fold', init.term, it.term, r.term, loc))
                return VBdd(('app', 'FOLD_AND', init.term, it.term))
            if x is not None and not _contains(x, acc.term):
                mp = ('map', x, it.term)
                I.events.append(('fold', init.term, mp, r.term, loc))
                return VBdd(('app', 'FOLD_AND', init.term, mp))
        I.events.append(('fold', init.term, it.term, I.term_of(r), loc))
        raise Undecidable('fold with a combining function other than conjunction', loc)
    I_fold = fold_core
    S['__fold_core__'] = fold_core

    def it_fold(I, args, e, c):
        it, init, f = args
        cth = I.E.thir(f.name)['body'] if isinstance(f, VClosure) and I.E.thir(f.name) is not None else None
        return fold_core(I, it, init, lambda a, x: I.apply(f, [a, x], e['loc']), e['loc'], cth)
    def it_rev(I, args, e, c):
        it = as_iter(I, args[0])
        if not isinstance(it, VIter): raise Undecidable('rev on %r' % (it,), e['loc'])
        if it.term[0] == 'rev': return VIter(it.term[1], it.elem)
        return VIter(('rev', it.term), it.elem)
    S['trait:std::iter::Iterator::rev'] = it_rev
    S['std::iter::Iterator::rev'] = it_rev
    S['trait:std::iter::Iterator::fold'] = it_fold
    S['std::iter::Iterator::fold'] = it_fold
    def categorize(I, args, e, c):
        return VBool(atom(('categorize', I.term_of(args[0]), I.term_of(args[1]))))
    S['rsbdd::set::BDDCategorizable::categorize'] = categorize

    # ---- slices / options used by plausible refactorings ----
    def slice_first(I, args, e, c):
        v = args[0]
        if not isinstance(v, VList): raise Undecidable('first on %r' % (v,), e['loc'])
        if I.list_empty(v.term): return VOption('none')
        return VOption('some', I.fresh(v.elem, I.list_head(v.term, v.elem, e['loc'])))
    S['core::slice::<impl [T]>::first'] = slice_first
    def slice_split_first(I, args, e, c):
        v = args[0]
        if not isinstance(v, VList): raise Undecidable('split_first on %r' % (v,), e['loc'])
        if I.list_empty(v.term): return VOption('none')
        return VOption('some', VTuple([I.fresh(v.elem, I.list_head(v.term, v.elem, e['loc'])), VList(I.list_tail(v.term, e['loc']), v.elem)]))
    S['core::slice::<impl [T]>::split_first'] = slice_split_first
    def opt_map(I, args, e, c):
        o, f = args
        if opt_tag(I, o, e['loc']) == 'none': return VOption('none')
        return VOption('some', I.apply(f, [opt_inner(I, o)], e['loc']))
    S['std::option::Option::map'] = opt_map
    def opt_is_some(I, args, e, c): return VBool(const(opt_tag(I, args[0], e['loc']) == 'some'))
    def opt_is_none(I, args, e, c): return VBool(const(opt_tag(I, args[0], e['loc']) == 'none'))
    S['std::option::Option::is_some'] = opt_is_some
    S['std::option::Option::is_none'] = opt_is_none
    def slice_len(I, args, e, c):
        v = args[0]
        if isinstance(v, VList):
            if v.term[0] == 'nil': return VInt(Lin.const(0))
            return VInt(Lin.var(('int', 'len(%s)' % show_key(v.term))))
        raise Undecidable('len on %r' % (v,), e['loc'])
    S['core::slice::<impl [T]>::len'] = slice_len
    S['std::vec::Vec::len'] = slice_len

    def it_filter(I, args, e, c):
        it, f = args
        it = as_iter(I, it)
        if not isinstance(it, VIter): raise Undecidable('filter on %r' % (it,), e['loc'])
        ev = I.fresh(it.elem, ('elem', it.term))
        r = I.apply(f, [ev], e['loc'])
        if not isinstance(r, VBool): raise Undecidable('filter with non-bool closure', e['loc'])
        return VIter(('filter', ('b', r.t), it.term), it.elem)
    S['trait:std::iter::Iterator::filter'] = it_filter
    S['std::iter::Iterator::filter'] = it_filter

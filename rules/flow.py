"""Value provenance: a small symbolic evaluator for the straight-line, functional fragment of THIR (lets, blocks, `?`, if-let on
Option, Option::map, closures, calls of local helper functions).  It answers "which expression over the inputs is this value?"
without caring how the code is laid out: a helper function, a closure passed to `map`, or an `if let .. { Some(..) } else { None }`
all normalise to the same term.  Plumbing that does not change the value is transparent (borrows, clones, Box/BufReader wrappers,
Ok(..), `?`, transpose, as_deref).

terms:  ('field', base, name) | ('param', var) | ('bound', k) | ('call', callee, (args..)) | ('some', t) | ('none',) | ('lit', v)
        | ('optmap', opt, body)      -- body mentions ('bound', k) for the payload
        | ('tuple', (..)) | ('unknown', why)"""

from facts import canon, walk, callee_name, callee_decl, pp

TRANSPARENT_DECL = {'std::clone::Clone::clone', 'std::convert::AsRef::as_ref', 'std::ops::Deref::deref', 'std::ops::DerefMut::deref_mut',
                    'std::borrow::ToOwned::to_owned', 'std::convert::Into::into', 'std::convert::From::from', 'std::ops::Try::branch',
                    'std::borrow::Borrow::borrow'}
TRANSPARENT_NAME = {'std::boxed::Box::new', 'std::io::BufReader::new', 'std::option::Option::transpose', 'std::option::Option::as_deref',
                    'std::option::Option::as_ref', 'std::option::Option::as_mut', 'std::path::PathBuf::as_path',
                    'std::option::Option::cloned', 'std::option::Option::copied', 'std::result::Result::transpose'}

class Flow:
    def __init__(self, crate, max_depth=6):
        self.c = crate
        self.k = 0
        self.max_depth = max_depth
    def thir(self, name):
        t = getattr(self.c, 'ithir', self.c.thir)
        return t.get(name) or self.c.thir.get(name)
    def fresh(self):
        self.k += 1
        return ('bound', self.k)
    def bind(self, pat, val, env):
        p = pat
        while p['k'] in ('Deref', 'DerefPattern'): p = p['sub']
        if p['k'] == 'Binding':
            env[p['var']] = val      # block() replaces this by 'unknown' when the variable is assigned again
            return True
        if p['k'] == 'Wild': return True
        if p['k'] == 'Leaf' and 'adt' not in p:
            for s in p['subs']:
                if val[0] == 'tuple' and s['field'] < len(val[1]): self.bind(s['pat'], val[1][s['field']], env)
                else: self.bind(s['pat'], ('proj', val, s['field']), env)
            return True
        if p['k'] == 'Leaf' and 'adt' in p:
            # `let Args { input, undirected, .. } = args;`: each binding is that field of the value
            adt = getattr(self.c, 'adts', {}).get(canon(p['adt']))
            if adt is None or len(adt['variants']) != 1: return False
            fs = adt['variants'][0]['fields']
            for s in p['subs']:
                if s['field'] >= len(fs): return False
                self.bind(s['pat'], ('field', val, fs[s['field']]['name']), env)
            return True
        if p['k'] == 'Variant' and canon(p.get('adt', '')) == 'std::option::Option' and p['variant'] == 'Some' and p['subs']:
            # the payload of a Some: the same value `.unwrap()` yields
            return self.bind(p['subs'][0]['pat'], val[1] if val[0] == 'some' else ('some_payload', val), env)
        if p['k'] == 'Variant' and canon(p.get('adt', '')) == 'std::option::Option' and p['variant'] == 'None': return True
        return False
    @staticmethod
    def _returns(e):
        """the value expression if e (a block or expression) ends by `return value`, else None"""
        while e['k'] in ('Use', 'NeverToAny'): e = e['source']
        if e['k'] == 'Return': return e.get('value')
        if e['k'] == 'Block':
            if e.get('expr') is not None: return Flow._returns(e['expr'])
            if e['stmts'] and e['stmts'][-1]['k'] == 'Expr': return Flow._returns(e['stmts'][-1]['expr'])
        return None
    @staticmethod
    def _has_return(e):
        """a `return` that is not the error exit of a `?`"""
        def rec(x):
            if isinstance(x, list): return any(rec(y) for y in x)
            if not isinstance(x, dict): return False
            if x.get('k') == 'Return': return True
            if x.get('k') == 'Match' and 'TryDesugar' in str(x.get('source')): return rec(x.get('scrutinee'))
            return any(rec(v) for k_, v in x.items() if isinstance(v, (dict, list)) and k_ not in ('ty', 'pat'))
        return rec(e)
    def fn_body(self, body, env, depth):
        """value of a function body: a leading `if C { ..; return A; }` statement is `if C { ..; A } else { rest of the body }`"""
        b = body
        while b['k'] in ('Use', 'NeverToAny'): b = b['source']
        if b['k'] != 'Block': return self.ev(body, env, depth)
        for i, s in enumerate(b['stmts']):
            if s['k'] != 'Expr' or not self._has_return(s['expr']): continue
            e = s['expr']
            while e['k'] in ('Use', 'NeverToAny'): e = e['source']
            rv = self._returns(e['then']) if e['k'] == 'If' and e.get('else') is None else None
            if rv is None or any(self._has_return(x.get('init') or x.get('expr') or {}) for x in b['stmts'][:i]): return ('unknown', 'early return')
            th = e['then']
            while th['k'] in ('Use', 'NeverToAny'): th = th['source']
            if th['k'] != 'Block': return ('unknown', 'early return')
            th_stmts = th['stmts'] if th.get('expr') is not None else th['stmts'][:-1]
            if any(self._has_return(x.get('init') or x.get('expr') or {}) for x in th_stmts): return ('unknown', 'early return')
            syn = {'k': 'Block', 'stmts': b['stmts'][:i], 'ty': b.get('ty'), 'loc': b.get('loc'),
                   'expr': {'k': 'If', 'cond': e['cond'], 'ty': b.get('ty'), 'loc': e.get('loc'),
                            'then': {'k': 'Block', 'stmts': th_stmts, 'expr': rv, 'ty': b.get('ty'), 'loc': th.get('loc')},
                            'else': {'k': 'Block', 'stmts': b['stmts'][i + 1:], 'expr': b.get('expr'), 'ty': b.get('ty'), 'loc': b.get('loc'), '#fn_body': True}}}
            return self.block(syn, env, depth)
        if b.get('expr') is not None and self._has_return(b['expr']) and self._returns(b['expr']) is None: return ('unknown', 'early return')
        return self.block(b, env, depth)
    def block(self, b, env, depth):
        if b.get('#fn_body'):
            b = dict(b); del b['#fn_body']
            return self.fn_body(b, env, depth)
        if any(s['k'] == 'Expr' and self._has_return(s['expr']) for s in b['stmts']): return ('unknown', 'early return')
        env = dict(env)
        reassigned = set()
        for x in walk(b):
            if x['k'] in ('Assign', 'AssignOp'):
                l = x['lhs']
                while l['k'] in ('Borrow', 'Deref', 'Use', 'Field', 'Index'): l = l.get('arg') or l.get('source') or l.get('lhs')
                if l['k'] in ('VarRef', 'UpvarRef'): reassigned.add(l['var'])
        for s in b['stmts']:
            if s['k'] == 'Let' and s.get('init') is not None:
                v = self.ev(s['init'], env, depth)
                if not self.bind(s['pat'], v, env):
                    for x in walk_pat_vars(s['pat']): env[x] = ('unknown', 'pattern')
                for x in walk_pat_vars(s['pat']):
                    if x in reassigned: env[x] = ('unknown', 'reassigned ' + x.split('#')[0])
        if b['expr'] is None: return ('lit', '()')
        return self.ev(b['expr'], env, depth)
    def apply(self, f, args, env, depth):
        """f: THIR expression denoting a function value (closure or fn item)"""
        g = f
        while g['k'] in ('Borrow', 'Deref', 'Use', 'PointerCoercion', 'NeverToAny'): g = g.get('arg') or g.get('source')
        if g['k'] == 'Closure':
            t = self.thir(canon(g['def']))
            if t is not None and len(t['params']) == len(args) + 1:
                env2 = dict(env)
                for p, a in zip(t['params'][1:], args):
                    if 'pat' not in p or not self.bind(p['pat'], a, env2): return ('unknown', 'closure parameter')
                return self.ev(t['body'], env2, depth + 1)
        if g['k'] == 'ZstLiteral' and 'fn' in g:
            name = canon(g['fn'].get('res') or g['fn']['def'])
            return self.call_named(name, canon(g['fn']['def']), args, depth)
        return ('unknown', 'function value ' + pp(f)[:40])
    def call_named(self, name, decl, args, depth):
        if decl == 'std::clone::Clone::clone' and ('BDDEnv' in name or 'HashMap' in name or 'RefCell' in name):
            return ('call', 'deep-copy:' + name, tuple(args))        # copying a container is not the container itself
        if decl in TRANSPARENT_DECL or name in TRANSPARENT_NAME:
            return args[0] if args else ('unknown', 'no argument')
        if name in ('std::option::Option::unwrap', 'std::option::Option::expect', 'std::option::Option::unwrap_unchecked',
                    'std::option::Option::ok_or_else', 'std::option::Option::ok_or') and args:
            # `opt.ok_or_else(|| err)?` hands on the payload exactly like `opt.unwrap()` does (Ok(..) and `?` are transparent); the None case leaves
            if args[0][0] == 'call' and args[0][1] == 'std::option::Option::zip' and len(args[0][2]) == 2:
                return ('tuple', (('some_payload', args[0][2][0]), ('some_payload', args[0][2][1])))          # a.zip(b) is Some((x, y)) iff both are Some
            return ('some_payload', args[0])
        t = self.thir(name)
        if t is not None and depth < self.max_depth and '{closure' not in name and len(t['params']) == len(args):
            env2 = {}
            ok = True
            for p, a in zip(t['params'], args):
                if 'pat' not in p or not self.bind(p['pat'], a, env2): ok = False
            if ok: return self.fn_body(t['body'], env2, depth + 1)
        return ('call', name, tuple(args))
    def ev(self, e, env, depth=0):
        k = e['k']
        if k in ('Borrow', 'Deref', 'Use', 'PointerCoercion', 'NeverToAny', 'Cast'):
            return self.ev(e.get('arg') or e.get('source'), env, depth)
        if k in ('VarRef', 'UpvarRef'):
            return env.get(e['var'], ('param', e['var']))
        if k == 'Literal': return ('lit', e.get('value'))
        if k == 'Field': return ('field', self.ev(e['lhs'], env, depth), e.get('field_name') if e.get('field_name') is not None else e.get('field'))
        if k == 'Tuple': return ('tuple', tuple(self.ev(f, env, depth) for f in e['fields']))
        if k == 'Block': return self.block(e, env, depth)
        if k == 'Return' and e.get('value') is not None: return ('unknown', 'return')
        if k == 'Adt':
            adt = canon(e['adt'])
            if adt == 'std::option::Option':
                if e['variant'] == 'None': return ('none',)
                return ('some', self.ev(e['fields'][0]['expr'], env, depth))
            if adt == 'std::result::Result' and e['variant'] == 'Ok': return self.ev(e['fields'][0]['expr'], env, depth)
            return ('adt', adt, e.get('variant'), tuple((f.get('name'), self.ev(f['expr'], env, depth)) for f in e['fields']))
        if k == 'Match' and 'TryDesugar' in str(e.get('source')):
            return self.ev(e['scrutinee'], env, depth)
        if k == 'Match' and e.get('source') == 'Normal':
            # a match on a value whose variant is known (an enum value built a moment ago, e.g. InputSource::File(path).open()): the arm that accepts it
            sv = self.ev(e['scrutinee'], env, depth)
            if sv[0] == 'adt' and sv[2] is not None:
                for a in e['arms']:
                    if a.get('guard') is not None: break
                    p = a['pat']
                    while p['k'] in ('Deref', 'DerefPattern'): p = p['sub']
                    if p['k'] == 'Variant' and canon(p.get('adt', '')) == sv[1]:
                        if p['variant'] != sv[2]: continue
                        env2 = dict(env)
                        for sp in p.get('subs', []):
                            vals = [v for (n_, v) in sv[3]]
                            if sp['field'] < len(vals): self.bind(sp['pat'], vals[sp['field']], env2)
                        return self.ev(a['body'], env2, depth)
                    if p['k'] in ('Wild', 'Binding'):
                        env2 = dict(env); self.bind(a['pat'], sv, env2)
                        return self.ev(a['body'], env2, depth)
                    break
            # `match opt { Some(p) => A, None => B }` (either order, `_` for None): the same as `if let Some(p) = opt { A } else { B }`
            if len(e['arms']) == 2 and all(a.get('guard') is None for a in e['arms']):
                some = none = None
                for a in e['arms']:
                    p = a['pat']
                    while p['k'] in ('Deref', 'DerefPattern'): p = p['sub']
                    if p['k'] == 'Variant' and canon(p.get('adt', '')) == 'std::option::Option' and p['variant'] == 'Some' and p['subs']: some = (a, p)
                    elif (p['k'] == 'Variant' and canon(p.get('adt', '')) == 'std::option::Option' and p['variant'] == 'None') or p['k'] == 'Wild': none = a
                if some is not None and none is not None:
                    b = self.fresh()
                    env2 = dict(env)
                    if self.bind(some[1]['subs'][0]['pat'], b, env2):
                        th = self.ev(some[0]['body'], env2, depth); el = self.ev(none['body'], env, depth)
                        if el == ('none',) and th[0] == 'some': return ('optmap', sv, b, th[1])
                        return ('optcase', sv, b, th, el)
            return ('unknown', 'Match')
        if k == 'If':
            c = e['cond']
            while c['k'] in ('Use',): c = c['source']
            if c['k'] == 'Let':
                p = c['pat']
                while p['k'] in ('Deref', 'DerefPattern'): p = p['sub']
                if p['k'] == 'Variant' and p['variant'] == 'Some' and p['subs'] and e.get('else') is not None:
                    src = self.ev(c['expr'], env, depth)
                    b = self.fresh()
                    env2 = dict(env)
                    if self.bind(p['subs'][0]['pat'], b, env2):
                        th = self.ev(e['then'], env2, depth); el = self.ev(e['else'], env, depth)
                        if el == ('none',) and th[0] == 'some': return ('optmap', src, b, th[1])
                        return ('optcase', src, b, th, el)
            return ('ite', self.ev(c, env, depth) if c['k'] != 'Let' else ('unknown', 'let condition'), self.ev(e['then'], env, depth), self.ev(e['else'], env, depth) if e.get('else') else ('lit', '()'))
        if k == 'Call':
            name = callee_name(e); decl = callee_decl(e)
            if name in ('std::option::Option::map',) and len(e['args']) == 2:
                src = self.ev(e['args'][0], env, depth)
                b = self.fresh()
                return ('optmap', src, b, self.apply(e['args'][1], [b], env, depth))
            args = [self.ev(a, env, depth) for a in e['args']]
            if name is None: return ('unknown', 'indirect call')
            if name.endswith('Parser::parse_from') or name.endswith('Parser::parse') or name.endswith('Parser>::parse_from') or name.endswith('Parser>::parse'): return ('args',)
            return self.call_named(name, decl, args, depth)
        if k == 'Binary': return ('bin', e['op'], self.ev(e['lhs'], env, depth), self.ev(e['rhs'], env, depth))
        if k == 'Unary': return ('un', e['op'], self.ev(e['arg'], env, depth))
        if k == 'LogicalOp': return ('logic', e['op'], self.ev(e['lhs'], env, depth), self.ev(e['rhs'], env, depth))
        if k == 'Closure': return ('closure', canon(e['def']))
        if k == 'ZstLiteral': return ('fn', canon(e['fn']['def'])) if 'fn' in e else ('lit', '()')
        return ('unknown', k)

def walk_pat_vars(p):
    out = []
    def rec(q):
        if not isinstance(q, dict): return
        if q.get('k') == 'Binding': out.append(q['var'])
        for s in q.get('subs', []) or []: rec(s['pat'])
        for s in q.get('pats', []) or []: rec(s)
        if q.get('sub'): rec(q['sub'])
    rec(p)
    return out

def alpha_eq(a, b, m=None):
    """term equality up to renaming of bound payload variables"""
    m = {} if m is None else m
    if isinstance(a, tuple) and isinstance(b, tuple):
        if a and b and a[0] == 'bound' and b[0] == 'bound':
            if a in m: return m[a] == b
            m[a] = b; return True
        return len(a) == len(b) and all(alpha_eq(x, y, m) for x, y in zip(a, b))
    return a == b

def show(t):
    if not isinstance(t, tuple): return repr(t)
    if t[0] == 'field': return '%s.%s' % (show(t[1]), t[2])
    if t[0] == 'param': return t[1].split('#')[0]
    if t[0] == 'bound': return '$%d' % t[1]
    if t[0] == 'call': return '%s(%s)' % (t[1].split('::')[-1], ', '.join(show(x) for x in t[2]))
    if t[0] == 'optmap': return '%s.map(%s => %s)' % (show(t[1]), show(t[2]), show(t[3]))
    if t[0] == 'some': return 'Some(%s)' % show(t[1])
    if t[0] == 'some_payload': return '%s.unwrap()' % show(t[1])
    if t[0] == 'none': return 'None'
    if t[0] == 'lit': return repr(t[1])
    return '%s(%s)' % (t[0], ', '.join(show(x) for x in t[1:]))

def scan(fl, e, env, pred, out):
    """visit every expression below e with the value environment in force there; out collects (node, env) where pred(node)"""
    from facts import children
    if not isinstance(e, dict): return
    if pred(e): out.append((e, dict(env)))
    k = e.get('k')
    if k == 'Block':
        env = dict(env)
        reassigned = set()
        for x in walk(e):
            if x['k'] in ('Assign', 'AssignOp'):
                l = x['lhs']
                while l['k'] in ('Borrow', 'Deref', 'Use', 'Field', 'Index'): l = l.get('arg') or l.get('source') or l.get('lhs')
                if l['k'] in ('VarRef', 'UpvarRef'): reassigned.add(l['var'])
        for s in e['stmts']:
            if s['k'] == 'Let':
                if s.get('init') is not None:
                    scan(fl, s['init'], env, pred, out)
                    v = fl.ev(s['init'], env)
                    if not fl.bind(s['pat'], v, env):
                        for x in walk_pat_vars(s['pat']): env[x] = ('unknown', 'pattern')
                    for x in walk_pat_vars(s['pat']):
                        if x in reassigned: env[x] = ('unknown', 'reassigned ' + x.split('#')[0])
                if s.get('else') is not None: scan(fl, s['else'], env, pred, out)
            else:
                scan(fl, s['expr'], env, pred, out)
        if e['expr'] is not None: scan(fl, e['expr'], env, pred, out)
        return
    if k == 'If':
        c = e['cond']
        while c['k'] == 'Use': c = c['source']
        env_then = dict(env); env_else = dict(env)
        if c['k'] == 'Let':
            scan(fl, c['expr'], env, pred, out)
            src = fl.ev(c['expr'], env)
            for x in walk_pat_vars(c['pat']): env_then[x] = ('payload', src, x.split('#')[0])
            fl.bind(c['pat'], src, env_then)
            ct = ('matches', src)
        else:
            scan(fl, c, env, pred, out)
            ct = fl.ev(c, env)
        env_then['#conds'] = env.get('#conds', ()) + ((ct, True),)
        env_else['#conds'] = env.get('#conds', ()) + ((ct, False),)
        scan(fl, e['then'], env_then, pred, out)
        if e.get('else') is not None: scan(fl, e['else'], env_else, pred, out)
        return
    if k == 'Match':
        scan(fl, e['scrutinee'], env, pred, out)
        sv = fl.ev(e['scrutinee'], env) if 'TryDesugar' not in str(e.get('source')) and e.get('source') != 'ForLoopDesugar' else None
        for a in e['arms']:
            env2 = dict(env)
            for x in walk_pat_vars(a['pat']): env2[x] = ('payload', sv if sv is not None and sv[0] == 'call' else ('unknown', 'match'), x.split('#')[0])
            if sv is not None: fl.bind(a['pat'], sv, env2)
            if a.get('guard') is not None: scan(fl, a['guard'], env2, pred, out)
            scan(fl, a['body'], env2, pred, out)
        return
    for ch in children(e):
        scan(fl, ch, env, pred, out)

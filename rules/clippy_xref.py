"""Thorough-tier cross-reference for C12: opt-in clippy lints that flag panic-capable constructs must not report a site, inside a
function of the P inventory's reach set, that the inventory lacks.  Clippy is only a cross-check of the inventory's completeness."""
import json, os, subprocess, tempfile, shutil
from facts import canon

LINTS = ['indexing_slicing', 'expect_used', 'unwrap_used', 'panic', 'unreachable', 'unimplemented', 'arithmetic_side_effects', 'todo']

def run_clippy(repo):
    t = tempfile.mkdtemp(prefix='rsbdd-clippy-')
    try:
        cmd = ['cargo', '+nightly', 'clippy', '--offline', '--workspace', '--message-format=json', '--', '--cap-lints=warn', '-A', 'clippy::all', '-A', 'clippy::nursery']
        for l in LINTS: cmd += ['-W', 'clippy::' + l]
        r = subprocess.run(cmd, cwd=repo, env=dict(os.environ, CARGO_TARGET_DIR=t, CARGO_NET_OFFLINE='true'), stdout=subprocess.PIPE, stderr=subprocess.PIPE, text=True)
        out = []
        for l in r.stdout.splitlines():
            try: d = json.loads(l)
            except ValueError: continue
            if d.get('reason') != 'compiler-message': continue
            m = d['message']
            code = (m.get('code') or {}).get('code') or ''
            if not code.startswith('clippy::'): continue
            for sp in m['spans']:
                if sp.get('is_primary'): out.append((code[8:], sp['file_name'], sp['line_start']))
        return out, r.returncode
    finally:
        shutil.rmtree(t, ignore_errors=True)

def cross_reference(F, R, reach, sites, repo):
    diags, rc = run_clippy(repo)
    R.count('clippy:diagnostics', len(diags))
    if rc != 0 or not diags:
        R.notes.append('clippy cross-reference could not be evaluated (exit %s, %d diagnostics)' % (rc, len(diags)))
        return
    # function line ranges of the reach set
    ranges = []
    for name, (c, body) in reach.items():
        sp = body['span']
        f, l = sp['loc'].rsplit(':', 2)[0], int(sp['loc'].rsplit(':', 2)[1])
        ranges.append((f, l, sp.get('end_line', l), name, body))
    site_lines = set()
    for s in sites:
        f, l = s.loc.rsplit(':', 2)[0], int(s.loc.rsplit(':', 2)[1])
        site_lines.add((f, l))
    missing = []
    inside = 0
    for (lint, f, line) in diags:
        host = [r for r in ranges if r[0] == f and r[1] <= line <= r[2]]
        if not host: continue
        # innermost function
        host.sort(key=lambda r: r[2] - r[1])
        name, body = host[0][3], host[0][4]
        if '<Args as clap::' in name: continue
        inside += 1
        if (f, line) in site_lines: continue
        if lint == 'arithmetic_side_effects':
            # float arithmetic and arithmetic that MIR proves free of an overflow assert (no Assert at this line) cannot panic
            has_assert = any(b['term']['k'] == 'Assert' and b['term']['loc'].startswith('%s:%d:' % (f, line)) for b in body['blocks'])
            if not has_assert: continue
        # multi-line expressions: clippy points at the start of the expression, MIR at the method call; accept a site of the same function within the expression
        near = [s for s in sites if s.fn == name and s.loc.rsplit(':', 2)[0] == f and 0 <= int(s.loc.rsplit(':', 2)[1]) - line <= 6]
        if near: continue
        missing.append((lint, f, line, name))
    R.count('clippy:diagnostics-in-reach', inside)
    R.obligation(not missing, 'clippy xref')
    for (lint, f, line, name) in missing:
        R.violation('%s / P / clippy::%s not in inventory' % (name, lint), 'P', 'clippy::%s reports a panic-capable construct at %s:%d that the inventory does not contain: the inventory may be incomplete' % (lint, f, line), '%s:%d' % (f, line))

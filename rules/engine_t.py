"""Engine T: finite tables extracted from constant `match` expressions and the tokenizer regex, composed and compared
with the documented reference tables (DESIGN.md appendix C)."""

import re
from facts import canon, walk, callee_name, pp, pp_pat, callee_decl

TOK = 'rsbdd::parser::SymbolicBDDToken'
PARSER = 'rsbdd::parser::SymbolicBDD::'

# ---------------------------------------------------------------- reference tables (oracle)
REF_SYMBOLS = {
    '&': 'And', '*': 'And', '|': 'Or', '+': 'Or', '^': 'Xor', '-': 'Not', '!': 'Not', '=>': 'Implies', '<=': 'ImpliesInv',
    '<=>': 'Iff', '#': 'Hash', '=': 'Eq', '<': 'Lt', '>': 'Gt', '>=': 'Geq', '(': 'OpenParen', ')': 'CloseParen',
    '[': 'OpenSquare', ']': 'CloseSquare', ',': 'Comma',
}
REF_KEYWORDS = {
    'false': 'False', 'true': 'True', 'not': 'Not', 'and': 'And', 'or': 'Or', 'xor': 'Xor', 'nor': 'Nor', 'nand': 'Nand',
    'implies': 'Implies', 'in': 'Implies', 'iff': 'Iff', 'eq': 'Iff', 'exists': 'Exists', 'any': 'Exists', 'forall': 'Forall', 'all': 'Forall',
    'if': 'If', 'then': 'Then', 'else': 'Else', 'gfp': 'GFP', 'nu': 'GFP', 'lfp': 'LFP', 'mu': 'LFP',
}
REF_BINOP = {'And': 'And', 'Or': 'Or', 'Xor': 'Xor', 'Nor': 'Nor', 'Nand': 'Nand', 'Implies': 'Implies', 'ImpliesInv': 'ImpliesInv', 'Iff': 'Iff'}
REF_COUNTOP = {'Eq': 'Exactly', 'ImpliesInv': 'AtMost', 'Geq': 'AtLeast', 'Lt': 'LessThan', 'Gt': 'MoreThan'}
REF_FIXPOINT = {'GFP': True, 'LFP': False}
REF_TTE = {'True': {'true', 'True', 't', 'T', '1'}, 'False': {'false', 'False', 'f', 'F', '0'}, 'Any': {'any', 'Any', 'a', 'A', '*'}}
REF_GROUPS = ['symbol', 'countable', 'reference', 'identifier', 'eof', 'comment']

# ---------------------------------------------------------------- helpers
def const_str(p):
    """string of a Constant &str pattern (driver prints the valtree: `&Branch([38_u8]): str`)"""
    while p['k'] in ('Deref', 'DerefPattern'): p = p['sub']
    if p['k'] != 'Constant': return None
    if p.get('str') is not None: return p['str']
    v = p['value']
    if 'Branch(' in v and v.rstrip().endswith('str'):
        return bytes(int(x) for x in re.findall(r'(\d+)_u8', v)).decode('utf-8', 'replace')
    return None

def flat_pats(p):
    """flatten or-patterns, also when nested under Some(..) / references: Some(A | B) -> [Some(A), Some(B)]"""
    while p['k'] in ('Deref', 'DerefPattern'): p = p['sub']
    if p['k'] == 'Or':
        out = []
        for q in p['pats']: out.extend(flat_pats(q))
        return out
    if p['k'] == 'Variant' and canon(p['adt']) == 'std::option::Option' and p['variant'] == 'Some' and p.get('subs'):
        inner = flat_pats(p['subs'][0]['pat'])
        if len(inner) > 1:
            out = []
            for q in inner:
                c = dict(p); c['subs'] = [{'field': p['subs'][0]['field'], 'pat': q}]
                out.append(c)
            return out
    return [p]

def token_of_pat(p):
    """SymbolicBDDToken variant named by a pattern like Some(&Token::X) / Some(Token::X(_))"""
    while True:
        if p['k'] in ('Deref', 'DerefPattern'): p = p['sub']; continue
        if p['k'] == 'Variant' and canon(p['adt']) == 'std::option::Option' and p['variant'] == 'Some' and p['subs']:
            p = p['subs'][0]['pat']; continue
        break
    if p['k'] == 'Variant' and canon(p['adt']) == TOK: return p['variant']
    return None

def pushed_token(body):
    """the SymbolicBDDToken variant constructed in an arm body (result.push(Token::X))"""
    vs = [e['variant'] for e in walk(body) if e['k'] == 'Adt' and canon(e['adt']) == TOK]
    return vs

# ---------------------------------------------------------------- regex
def split_top(s, sep='|'):
    parts = []; cur = ''; depth = 0; i = 0; inbr = False
    while i < len(s):
        c = s[i]
        if c == '\\' and i + 1 < len(s):
            cur += s[i:i + 2]; i += 2; continue
        if inbr:
            if c == ']': inbr = False
            cur += c; i += 1; continue
        if c == '[': inbr = True
        elif c == '(': depth += 1
        elif c == ')': depth -= 1
        if c == sep and depth == 0:
            parts.append(cur); cur = ''
        else:
            cur += c
        i += 1
    parts.append(cur)
    return parts

def unescape_literal(s):
    """literal alternative of the `symbol` group -> the string it matches, or None if it is not a plain literal"""
    out = ''; i = 0
    while i < len(s):
        c = s[i]
        if c == '\\':
            if i + 1 >= len(s): return None
            n = s[i + 1]
            if n.isalnum(): return None       # \d \w ... are classes, not literals
            out += n; i += 2; continue
        if c in '.[](){}*+?^$|': return None
        out += c; i += 1
    return out

class RegexInfo:
    pass

def parse_tokenizer_regex(pat):
    """structure of the tokenizer pattern: ordered top-level alternatives, each containing one named group"""
    info = RegexInfo()
    info.pattern = pat
    info.alts = []
    info.problems = []
    for alt in split_top(pat):
        m = re.search(r'\(\?P<([A-Za-z_]+)>', alt)
        if not m:
            info.problems.append('top-level alternative without a named group: %r' % alt); continue
        name = m.group(1)
        # the group body
        start = m.end(); depth = 1; i = start; inbr = False
        while i < len(alt) and depth > 0:
            c = alt[i]
            if c == '\\': i += 2; continue
            if inbr:
                if c == ']': inbr = False
            elif c == '[': inbr = True
            elif c == '(': depth += 1
            elif c == ')': depth -= 1
            i += 1
        body = alt[start:i - 1]
        info.alts.append({'group': name, 'body': body, 'prefix': alt[:m.start()], 'suffix': alt[i:]})
    info.groups = [a['group'] for a in info.alts]
    info.symbols = None
    for a in info.alts:
        if a['group'] == 'symbol':
            lits = [unescape_literal(x) for x in split_top(a['body'])]
            if any(l is None or l == '' for l in lits):
                info.problems.append('symbol alternation contains a non-literal alternative')
            info.symbols = lits
    return info

def regex_is_valid(pat):
    info = parse_tokenizer_regex(pat)
    if info.problems: return False, '; '.join(info.problems)
    try:
        re.compile(pat)
    except re.error as e:
        return False, 'pattern does not compile: %s' % e
    return True, '%d top-level alternatives, %d symbol literals, balanced and within the supported subset' % (len(info.alts), len(info.symbols or []))

def tokenizer_pattern(lib):
    for name, t in lib.ithir.items():
        if 'TOKENIZER' in name and '__static_ref_initialize' in name:
            for e in walk(t['body']):
                if e['k'] == 'Call' and callee_name(e) == 'regex::Regex::new':
                    lits = [x for x in walk(e) if x['k'] == 'Literal' and x.get('lit') == 'Str']
                    if len(lits) == 1: return lits[0]['value'], lits[0]['loc']
    return None, None

# ---------------------------------------------------------------- table extraction
def const_pair_table(lib, e):
    """pairs of a `const NAME: [(A, B); N] = [(a1, b1), ..]` referenced (NamedConst) below expression e.
    Components are decoded as: string literal -> str; array of string literals -> tuple of str; unit enum variant -> ('enum', adt, variant)"""
    def dec(x):
        while x['k'] in ('Borrow', 'Deref', 'Use', 'PointerCoercion', 'NeverToAny'): x = x.get('arg') or x.get('source')
        if x['k'] == 'Literal' and x.get('lit') == 'Str': return x['value']
        if x['k'] == 'Array' and all(dec(f) is not None and isinstance(dec(f), str) for f in x['fields']): return tuple(dec(f) for f in x['fields'])
        if x['k'] == 'Adt' and not x['fields']: return ('enum', canon(x['adt']), x['variant'])
        return None
    for nc in walk(e):
        if nc['k'] != 'NamedConst': continue
        t = lib.ithir.get(canon(nc['def']))
        if t is None: continue
        b = t['body']
        while b['k'] in ('Borrow', 'Deref', 'Use', 'PointerCoercion', 'NeverToAny') or (b['k'] == 'Block' and not b['stmts'] and b['expr'] is not None):
            b = b.get('arg') or b.get('source') or b.get('expr')
        if b['k'] != 'Array' or not b['fields']: continue
        rows = []
        for f in b['fields']:
            g = f
            while g['k'] in ('Borrow', 'Deref', 'Use'): g = g.get('arg') or g.get('source')
            if g['k'] != 'Tuple' or len(g['fields']) != 2: rows = None; break
            l, r = dec(g['fields'][0]), dec(g['fields'][1])
            if l is None or r is None: rows = None; break
            rows.append((l, r))
        if rows: return canon(nc['def']), rows
    return None, None

def tokenize_tables(lib):
    """{group: {spelling: token}} for the symbol / identifier matches of tokenize, plus handled groups in order"""
    t = lib.ithir.get(PARSER + 'tokenize')
    out = {'groups': [], 'tables': {}, 'fallthrough': {}}
    if t is None: return None
    def visit_iflet(e):
        # if let Some(x) = c.name("group") {then} else {...}
        c = e['cond']
        if c['k'] == 'Let' or (c['k'] == 'Call'):
            call = c['expr'] if c['k'] == 'Let' else c
            calls = [x for x in walk(call) if x['k'] == 'Call' and callee_name(x) == 'regex::Captures::name']
            lits = [x for x in walk(call) if x['k'] == 'Literal' and x.get('lit') == 'Str']
            if calls and len(lits) == 1:
                g = lits[0]['value']
                out['groups'].append(g)
                ms = [m for m in walk(e['then']) if m['k'] == 'Match' and any(const_str(p) is not None for a in m['arms'] for p in flat_pats(a['pat']))]
                if not ms:
                    # the table may live in a new helper `fn table(&str) -> Option<Token>` whose Some(..) result is pushed
                    import facts as _facts
                    for mm in walk(e['then']):
                        if mm['k'] != 'Match': continue
                        sc = mm['scrutinee']
                        while sc['k'] in ('Use', 'Borrow', 'Deref', 'NeverToAny'): sc = sc.get('source') or sc.get('arg')
                        if sc['k'] != 'Call': continue
                        hg = callee_name(sc)
                        ht = lib.ithir.get(hg) if hg and hg not in _facts.baseline_fns() else None
                        if ht is None: continue
                        pushes_payload = False
                        for a in mm['arms']:
                            p = a['pat']
                            while p['k'] in ('Deref', 'DerefPattern'): p = p['sub']
                            if p['k'] == 'Variant' and p['variant'] == 'Some' and p['subs']:
                                q = p['subs'][0]['pat']
                                while q['k'] in ('Deref', 'DerefPattern'): q = q['sub']
                                if q['k'] == 'Binding':
                                    for x in walk(a['body']):
                                        if x['k'] == 'Call' and callee_name(x) == 'std::vec::Vec::push' and any(y['k'] in ('VarRef', 'UpvarRef') and y['var'] == q['var'] for y in walk(x['args'][1])): pushes_payload = True
                        if not pushes_payload: continue
                        ms = [m for m in walk(ht['body']) if m['k'] == 'Match' and any(const_str(p) is not None for a in m['arms'] for p in flat_pats(a['pat']))]
                        if ms: break
                if not ms:
                    # or in a const array of (spelling, token) pairs looked up with `find(|(text, _)| *text == group)`; the Some payload's token is pushed
                    cname, rows = const_pair_table(lib, e['then'])
                    finds = [x for x in walk(e['then']) if x['k'] == 'Call' and callee_decl(x) in ('std::iter::Iterator::find', 'std::iter::Iterator::position')]
                    if rows and finds and all(isinstance(l, str) and isinstance(r, tuple) and r[0] == 'enum' and r[1] == TOK for l, r in rows):
                        cl = [x for x in walk(finds[0]['args'][1]) if x['k'] == 'Closure']
                        ct = lib.ithir.get(canon(cl[0]['def'])) if cl else None
                        eqs = [x for x in walk(ct['body']) if (x['k'] == 'Call' and callee_decl(x) == 'std::cmp::PartialEq::eq') or (x['k'] == 'Binary' and x.get('op') == 'Eq')] if ct else []
                        if len(eqs) == 1:
                            tab = {}
                            dup = False
                            for l, r in rows:
                                if l in tab: dup = True        # `find` returns the first: a repeated spelling shadows the later row
                                tab.setdefault(l, r[2])
                            out['tables'][g] = tab
                            out['fallthrough'][g] = '_'
                if ms:
                    # what is matched must be the captured text itself: a case mapping or trimming in between changes which texts are keywords
                    # and (through the catch-all arm) what the variable is called
                    sc = ms[0]['scrutinee']
                    chain = []
                    while sc['k'] in ('Borrow', 'Deref', 'Use', 'NeverToAny') or (sc['k'] == 'Call' and sc['args']):
                        if sc['k'] == 'Call': chain.append((callee_name(sc) or '').split('::')[-1]); sc = sc['args'][0]
                        else: sc = sc.get('arg') or sc.get('source')
                    out.setdefault('scrutinee', {})[g] = [c_ for c_ in chain if c_ not in ('as_str', 'deref', 'as_ref', 'borrow')]
                if ms:
                    tab = {}
                    m = ms[0]
                    for a in m['arms']:
                        strs = [const_str(p) for p in flat_pats(a['pat'])]
                        if all(s is not None for s in strs):
                            toks = pushed_token(a['body'])
                            for s in strs:
                                tab[s] = toks[0] if len(toks) == 1 else ('?', toks)
                        else:
                            out['fallthrough'][g] = pp_pat(a['pat'])
                    out['tables'][g] = tab
    for e in walk(t['body']):
        if e['k'] == 'If': visit_iflet(e)
    return out

def match_token_table(thir, result_adt):
    """for a parse function: {token variant in the arm pattern: (result variant, expected-token in the arm body)}"""
    out = {}
    for m in walk(thir['body']):
        if m['k'] != 'Match': continue
        tab = {}
        for a in m['arms']:
            for p in flat_pats(a['pat']):
                tk = token_of_pat(p)
                if tk is None: continue
                res = [e['variant'] for e in walk(a['body']) if e['k'] == 'Adt' and canon(e['adt']) == result_adt]
                exp = [x['variant'] for e in walk(a['body']) if e['k'] == 'Call' and callee_name(e) == 'rsbdd::parser::expect'
                       for x in walk(e['args'][0]) if x['k'] == 'Adt' and canon(x['adt']) == TOK]
                tab[tk] = (res, exp)
        if tab and any(r for r, _ in tab.values()): out.update(tab)
    return out

def fixed_point_dispatch(lib):
    """token -> literal Boolean passed to parse_fixed_point in parse_simple_sub_formula"""
    t = lib.ithir.get(PARSER + 'parse_simple_sub_formula')
    out = {}
    if t is None: return out
    for m in walk(t['body']):
        if m['k'] != 'Match': continue
        for a in m['arms']:
            for p in flat_pats(a['pat']):
                tk = token_of_pat(p)
                if tk is None: continue
                for e in walk(a['body']):
                    if e['k'] == 'Call' and callee_name(e) == PARSER + 'parse_fixed_point':
                        lits = [x for x in e['args'] if x['k'] == 'Literal' and x.get('lit') == 'Bool']
                        out[tk] = lits[0]['value'] if len(lits) == 1 else None
    return out

def tte_tables(lib):
    t = lib.ithir.get('rsbdd::truth_table::TruthTableEntry::matches')
    out = {}
    if t is None:
        # the spellings may live in a const table of (variant, [spellings]) that from_str searches with `contains`
        fs = [k for k in lib.ithir if k.endswith('FromStr>::from_str') and 'TruthTableEntry' in k]
        if not fs: return None
        ft = lib.ithir[fs[0]]
        # (i) one match on the text: `match s { "true" | "True" | .. => Some(Self::True), .. }` in from_str or a helper of the type
        TT_ = 'rsbdd::truth_table::TruthTableEntry'
        for hname, ht in sorted(lib.ithir.items()):
            if not (hname.startswith(TT_ + '::') or hname == fs[0]) or '{closure' in hname: continue
            for m in walk(ht['body']):
                if m['k'] != 'Match' or not any(const_str(p) is not None for a in m['arms'] for p in flat_pats(a['pat'])): continue
                tab = {}
                for a in m['arms']:
                    strs = [const_str(p) for p in flat_pats(a['pat'])]
                    vs = [x['variant'] for x in walk(a['body']) if x['k'] == 'Adt' and canon(x['adt']) == TT_]
                    if all(s_ is not None for s_ in strs) and len(set(vs)) == 1:
                        tab.setdefault(vs[0], set()).update(strs)
                if tab and (hname == fs[0] or any(x['k'] == 'Call' and callee_name(x) == hname for x in walk(ft['body']))):
                    return tab
        bodies = [ft['body']] + [lib.ithir[canon(x['def'])]['body'] for x in walk(ft['body']) if x['k'] == 'Closure' and canon(x['def']) in lib.ithir]
        cname, rows = const_pair_table(lib, ft['body'])
        uses_contains = any(x['k'] == 'Call' and (callee_name(x) or '').endswith('::contains') for b in bodies for x in walk(b))
        if not rows or not uses_contains: return None
        for l, r in rows:
            if isinstance(l, tuple) and l[0] == 'enum' and l[1] == 'rsbdd::truth_table::TruthTableEntry' and isinstance(r, tuple) and all(isinstance(x, str) for x in r):
                out.setdefault(l[2], set()).update(r)
            else: return None
        return out
    for m in walk(t['body']):
        if m['k'] != 'Match': continue
        # matches!((self, s), (Self::True, "true" | ..) | (Self::False, ..) | ..): tuple patterns pairing a variant with its spellings
        for a in m['arms']:
            trues = [x for x in walk(a['body']) if x['k'] == 'Literal' and x.get('lit') == 'Bool']
            if not (trues and trues[0]['value'] is True): continue
            for q in flat_pats(a['pat']):
                while q['k'] in ('Deref', 'DerefPattern'): q = q['sub']
                if q['k'] == 'Leaf' and 'adt' not in q and len(q['subs']) == 2:
                    subs = sorted(q['subs'], key=lambda x: x['field'])
                    v_ = subs[0]['pat']
                    while v_['k'] in ('Deref', 'DerefPattern'): v_ = v_['sub']
                    if v_['k'] == 'Variant' and canon(v_['adt']) == 'rsbdd::truth_table::TruthTableEntry':
                        for sp in flat_pats(subs[1]['pat']):
                            st_ = const_str(sp)
                            if st_ is not None: out.setdefault(v_['variant'], set()).add(st_)
        if out: return out
        for a in m['arms']:
            p = a['pat']
            while p['k'] in ('Deref', 'DerefPattern'): p = p['sub']
            if p['k'] == 'Variant' and canon(p['adt']) == 'rsbdd::truth_table::TruthTableEntry':
                strs = set()
                for mm in walk(a['body']):
                    if mm['k'] == 'Match':
                        for aa in mm['arms']:
                            vals = [x for x in walk(aa['body']) if x['k'] == 'Literal' and x.get('lit') == 'Bool']
                            if vals and vals[0]['value'] is True:
                                for q in flat_pats(aa['pat']):
                                    s = const_str(q)
                                    if s is not None: strs.add(s)
                out[p['variant']] = strs
    return out

# ---------------------------------------------------------------- rules
def rule_tokens(F, R, scope):
    """scope: set of token classes to check: 'connectives', 'counting', 'fixpoint', 'all'"""
    lib = F.lib()
    tabs = tokenize_tables(lib)
    if tabs is None or 'symbol' not in tabs['tables'] or 'identifier' not in tabs['tables']:
        R.violation('rsbdd::parser::SymbolicBDD::tokenize / T / tables', 'UNDECIDABLE', 'cannot extract the symbol / keyword tables from tokenize (anchor missing)')
        return None
    sym, kw = tabs['tables']['symbol'], tabs['tables']['identifier']
    for g_, extra in sorted(tabs.get('scrutinee', {}).items()):
        R.count('T:matched-text'); R.obligation(not extra, 'T scrutinee ' + g_)
        if extra:
            R.violation('rsbdd::parser::SymbolicBDD::tokenize / T / %s text is transformed before matching' % g_, 'T',
                        'the %s text is passed through %s before it is matched: keywords and variable names are no longer the text as written' % (g_, '.'.join(extra)))
    def want(table, ref, what):
        for sp, tok in sorted(ref.items()):
            if scope != 'all' and tok not in scope: continue
            got = table.get(sp)
            R.count('T:%s-spellings' % what)
            R.obligation(got == tok, 'T %s %r' % (what, sp))
            if got != tok:
                R.violation('rsbdd::parser::SymbolicBDD::tokenize / T / %s %r' % (what, sp), 'T',
                            '%s %r is tokenized as %s, documented meaning is %s' % (what, sp, got, tok))
        if scope == 'all':
            extra = sorted(set(table) - set(ref))
            R.obligation(not extra, 'T extra ' + what)
            for sp in extra:
                R.violation('rsbdd::parser::SymbolicBDD::tokenize / T / undocumented %s %r' % (what, sp), 'T',
                            '%s %r -> %s is not in the reference table: it can no longer be used as a variable name / separator' % (what, sp, table[sp]))
    want(sym, REF_SYMBOLS, 'symbol')
    want(kw, REF_KEYWORDS, 'keyword')
    R.sample({'rule': 'T', 'symbol table': sym, 'keyword table': kw})
    return tabs

def rule_operator_tables(F, R, which=('binop', 'countop', 'fixpoint')):
    lib = F.lib()
    import engine_a as _ea
    WT = _ea.walked_tables(lib)       # the same tables read from the success paths: decides a row the written-out match does not show
    if 'binop' in which:
        t = lib.ithir.get(PARSER + 'parse_binary_operator')
        tab = match_token_table(t, 'rsbdd::parser::BinaryOperator') if t else {}
        wt = WT['binop'] or {}
        for tok_ in wt:
            if tok_ not in REF_BINOP and tok_ not in tab: tab[tok_] = (sorted(wt[tok_]), [tok_])
        for tok, op in sorted(REF_BINOP.items()):
            got = tab.get(tok)
            ok = got is not None and got[0] == [op] and got[1] in ([tok], [])
            if not ok and wt.get(tok) == {op} and '?' not in wt: ok = True; got = ([op], [tok])
            R.count('T:binary-operator-rows'); R.obligation(ok, 'T binop ' + tok)
            if not ok:
                R.violation('rsbdd::parser::SymbolicBDD::parse_binary_operator / T / %s' % tok, 'T',
                            'token %s maps to operator %s (consuming %s); documented: %s' % (tok, got[0] if got else None, got[1] if got else None, op), t['span']['loc'] if t else None)
        extra = sorted(set(tab) - set(REF_BINOP))
        R.obligation(not extra, 'T binop extra')
        for tok in extra:
            R.violation('rsbdd::parser::SymbolicBDD::parse_binary_operator / T / extra %s' % tok, 'T', 'token %s is accepted as a binary operator but is not one' % tok)
        # the look-ahead set in parse_sub_formula must be the same set of tokens
        # (read from the success paths of parse_sub_formula, whatever form the test takes: a match on peek(), is_some_and(..), a helper)
        ts = lib.ithir.get(PARSER + 'parse_sub_formula')
        la = set()
        if ts:
            import engine_a
            try:
                K_, _c = engine_a.consumers(lib)
                for (evs, v_, env_) in engine_a.Walker(lib, K_).paths(PARSER + 'parse_sub_formula'):
                    last = None
                    for ev in evs:
                        if ev[0] == 'la': last = ev[1]
                        elif ev[0] == 'nt' and ev[1] == PARSER + 'parse_binary_operator':
                            if last is not None: la |= set(last)
                            else:
                                # no test of its own: the operator parser is tried and its refusal looked at - the tokens it succeeds on
                                ft_ = engine_a.first_tokens(lib, K_, PARSER + 'parse_binary_operator')
                                if ft_ is not None: la |= set(ft_)
                            break
                        elif ev[0] in ('tok', 'anytok', 'nt', 'loop'): last = None
            except engine_a.Undec as u:
                la = {'<unreadable: %s>' % u.msg[:60]}
        ok = la == set(REF_BINOP)
        R.count('T:binary-operator-lookahead'); R.obligation(ok, 'T lookahead')
        if not ok:
            R.violation('rsbdd::parser::SymbolicBDD::parse_sub_formula / T / operator look-ahead', 'T',
                        'tokens that continue a sub-formula %s differ from the binary operator tokens %s' % (sorted(la), sorted(REF_BINOP)))
    if 'countop' in which:
        t = lib.ithir.get(PARSER + 'parse_countable_formula')
        tab = match_token_table(t, 'rsbdd::parser::CountableOperator') if t else {}
        wt = WT['countop'] or {}
        for tok_ in wt:
            if tok_ not in REF_COUNTOP and tok_ not in tab: tab[tok_] = (sorted(wt[tok_]), [tok_])
        for tok, op in sorted(REF_COUNTOP.items()):
            got = tab.get(tok)
            ok = got is not None and got[0] == [op]
            if not ok and wt.get(tok) == {op} and '?' not in wt: ok = True; got = ([op], [tok])
            R.count('T:counting-operator-rows'); R.obligation(ok, 'T countop ' + tok)
            if not ok:
                R.violation('rsbdd::parser::SymbolicBDD::parse_countable_formula / T / %s' % tok, 'T',
                            'token %s maps to counting operator %s; documented: %s' % (tok, got[0] if got else None, op), t['span']['loc'] if t else None)
        extra = sorted(set(tab) - set(REF_COUNTOP))
        R.obligation(not extra, 'T countop extra')
        for tok in extra:
            R.violation('rsbdd::parser::SymbolicBDD::parse_countable_formula / T / extra %s' % tok, 'T', 'token %s is accepted as a counting operator' % tok)
    if 'fixpoint' in which:
        fp = fixed_point_dispatch(lib)
        wt = WT['fixpoint'] or {}
        for tok, init in sorted(REF_FIXPOINT.items()):
            got = fp.get(tok)
            if got != init and wt.get(tok) == {init} and '?' not in wt: got = init
            R.count('T:fixed-point-rows'); R.obligation(got == init, 'T fp ' + tok)
            if got != init:
                R.violation('rsbdd::parser::SymbolicBDD::parse_simple_sub_formula / T / %s' % tok, 'T',
                            '%s starts the iteration from %s; documented: gfp/nu from true, lfp/mu from false' % (tok, got))
        # parse_fixed_point expects GFP when initial is true, LFP otherwise
        t = lib.ithir.get(PARSER + 'parse_fixed_point')
        ok = False
        if t:
            for e in walk(t['body']):
                if e['k'] == 'If' and e['cond']['k'] == 'VarRef' and e['cond']['var'].startswith('initial#'):
                    th = [x['variant'] for x in walk(e['then']) if x['k'] == 'Adt' and canon(x['adt']) == TOK]
                    el = [x['variant'] for x in walk(e['else']) if x['k'] == 'Adt' and canon(x['adt']) == TOK] if e['else'] else []
                    ok = th == ['GFP'] and el == ['LFP']
        R.count('T:fixed-point-keyword-check'); R.obligation(ok, 'T fp expect')
        if not ok:
            R.violation('rsbdd::parser::SymbolicBDD::parse_fixed_point / T / expected keyword', 'T', 'parse_fixed_point(initial) does not expect GFP for initial=true and LFP for initial=false')

def rule_number_text(F, R):
    """a number in the text is that number: the payload of a Countable token is `<text of the number group>.parse()` with a failed
    conversion propagated as the error it is - no fallback value (`unwrap_or(..)`, `unwrap_or_default()`, `ok()`), no arithmetic on the way"""
    import flow
    lib = F.lib()
    fn = PARSER + 'tokenize'
    t = lib.ithir.get(fn)
    if t is None:
        R.violation(fn + ' / T / anchor', 'UNDECIDABLE', 'tokenize not found'); return
    fl = flow.Flow(lib, max_depth=3)
    found = []
    flow.scan(fl, t['body'], {}, lambda x: x.get('k') == 'Adt' and canon(x.get('adt', '')) == TOK and x.get('variant') == 'Countable', found)
    def group_text(x):
        # the text of the `countable` group: name(c, "countable") looked at through unwrap / as_str / map(as_str)
        if x[0] == 'some_payload': return group_text(x[1])
        if x[0] == 'optmap' and x[3] == ('call', 'regex::Match::as_str', (x[2],)): return group_text(x[1]) == 'match' and 'text'
        if x[0] == 'call' and x[1] == 'regex::Match::as_str' and len(x[2]) == 1: return group_text(x[2][0]) == 'match' and 'text'
        if x[0] == 'call' and x[1] == 'regex::Captures::name' and len(x[2]) == 2 and x[2][1] == ('lit', 'countable'): return 'match'
        if x[0] == 'call' and x[1].split('::')[-1] in ('as_ref', 'deref', 'borrow', 'clone', 'to_string', 'to_owned', 'as_str') and len(x[2]) == 1: return group_text(x[2][0])
        return None
    n = 0
    for e, env in found:
        if not e['fields']: continue
        n += 1
        term = fl.ev(e['fields'][0]['expr'], env)
        inner = term
        matched = False
        if inner[0] == 'payload' and isinstance(inner[1], tuple) and inner[1][0] == 'call':
            # `match digits.parse::<usize>() { Ok(n) => push(Countable(n)), Err(e) => return Err(..) }`: the success value of the conversion
            inner = inner[1]; matched = True
        while inner[0] == 'call' and inner[1] in ('std::result::Result::map_err',) and inner[2]: inner = inner[2][0]
        ok = inner[0] == 'call' and inner[1] == 'core::str::<impl str>::parse' and len(inner[2]) == 1 and group_text(inner[2][0]) == 'text'
        why = 'the value of the number token is %s, not the parsed text of the number' % flow.show(term)[:160]
        if ok:
            # ... and a failed conversion leaves tokenize as an error: the parse result sits under a `?` (or is returned)
            parses = [x for x in walk(t['body']) if x['k'] == 'Call' and callee_name(x) == 'core::str::<impl str>::parse']
            tried = set()
            for m in walk(t['body']):
                if m['k'] == 'Match' and 'TryDesugar' in str(m.get('source')):
                    for x in walk(m['scrutinee']): tried.add(id(x))
                elif m['k'] == 'Match' and matched:
                    # the written-out form: the Err arm leaves tokenize with an error
                    def err_arm_returns(a_):
                        q_ = a_['pat']
                        while q_['k'] in ('Deref', 'DerefPattern'): q_ = q_['sub']
                        if not (q_['k'] == 'Variant' and q_['variant'] == 'Err' and canon(q_['adt']) == 'std::result::Result'): return False
                        return any(y['k'] == 'Return' and y.get('value') is not None and any(z['k'] == 'Adt' and z.get('variant') == 'Err' for z in walk(y['value'])) for y in walk(a_['body']))
                    if any(err_arm_returns(a_) for a_ in m['arms']):
                        for x in walk(m['scrutinee']): tried.add(id(x))
            ok = bool(parses) and all(id(x) in tried for x in parses)
            why = 'the conversion of the number text can fail (digits beyond usize, digits that are not ASCII): the failure must leave tokenize as an error (`?`)'
        R.count('T:number-conversion'); R.obligation(ok, 'T number text')
        if not ok: R.violation(fn + ' / T / number conversion', 'T', why, e.get('loc'))
    if n == 0: R.violation(fn + ' / T / number conversion / VACUITY', 'VACUITY', 'no Countable token is constructed in tokenize')

def rule_reference_text(F, R):
    """a `{name}` in the text is a Reference token carrying that name: tokenize constructs `Reference(<text of the reference group>)` and
    the token reaches the token list (a branch that recognises the group and pushes nothing drops the reference from the formula)"""
    import flow
    lib = F.lib()
    fn = PARSER + 'tokenize'
    t = lib.ithir.get(fn)
    if t is None:
        R.violation(fn + ' / T / anchor', 'UNDECIDABLE', 'tokenize not found'); return
    fl = flow.Flow(lib, max_depth=3)
    found = []
    flow.scan(fl, t['body'], {}, lambda x: x.get('k') == 'Adt' and canon(x.get('adt', '')) == TOK and x.get('variant') == 'Reference', found)
    def group_text(x):
        if x[0] in ('some_payload',): return group_text(x[1])
        if x[0] == 'payload' and isinstance(x[1], tuple): return group_text(x[1])
        if x[0] == 'optmap': return group_text(x[1])
        if x[0] == 'call' and x[1] == 'regex::Captures::name' and len(x[2]) == 2 and x[2][1] == ('lit', 'reference'): return True
        if x[0] == 'call' and x[1].split('::')[-1] in ('as_str', 'to_string', 'to_owned', 'into', 'from', 'clone', 'as_ref', 'deref', 'borrow') and len(x[2]) >= 1: return group_text(x[2][0])
        return False
    pushed = set()
    for e in walk(t['body']):
        if e['k'] == 'Call' and callee_name(e) == 'std::vec::Vec::push':
            for x in walk(e['args'][1]): pushed.add(id(x))
    # a token bound first and pushed after (`let token = match .. { .. Reference(..) .. }; result.push(token)`) counts as pushed
    bound_then_pushed = any(e['k'] == 'Call' and callee_name(e) == 'std::vec::Vec::push' and e['args'][1].get('k') in ('VarRef', 'Use') for e in walk(t['body']))
    n = 0
    for e, env in found:
        if not e['fields']: continue
        n += 1
        term = fl.ev(e['fields'][0]['expr'], env)
        ok = group_text(term) and (id(e) in pushed or bound_then_pushed)
        R.count('T:reference-tokens'); R.obligation(bool(ok), 'T reference text')
        if not ok: R.violation(fn + ' / T / reference token', 'T', 'a reference token must carry the text of the reference group and be added to the token list (found %s%s)' % (flow.show(term)[:100], '' if id(e) in pushed or bound_then_pushed else ', not pushed'), e.get('loc'))
    if n == 0: R.violation(fn + ' / T / reference token', 'T', 'tokenize recognises the reference group `{name}` but constructs no Reference token: the reference is dropped from the formula', t['span']['loc'])

def rule_input_text(F, R):
    """what is tokenised is the whole input, unchanged: tokenize reads its reader with one `read_to_string` into a string that nothing
    else writes, and the token regex runs over exactly that string (reading line by line drops the separators between the lines)"""
    from engine_x import root_var, unwrap_pat
    from engine_e import strip
    lib = F.lib()
    fn = PARSER + 'tokenize'
    t = lib.ithir.get(fn)
    if t is None:
        R.violation(fn + ' / T / anchor', 'UNDECIDABLE', 'tokenize not found'); return
    reader = unwrap_pat(t['params'][0]['pat']).get('var') if t['params'] and 'pat' in t['params'][0] else None
    reads = [e for e in walk(t['body']) if e['k'] == 'Call' and (callee_name(e) or '').split('::')[-1] in ('read_to_string', 'read_line', 'read', 'read_exact', 'read_until', 'lines', 'read_to_end', 'split', 'bytes', 'fill_buf')
             and e['args'] and root_var(e['args'][0]) == reader]
    ok = len(reads) == 1 and (callee_name(reads[0]) or '').split('::')[-1] == 'read_to_string'
    why = 'the reader is read with %s' % [(callee_name(e) or '').split('::')[-1] for e in reads]
    if ok:
        r = reads[0]
        textvar = root_var(r['args'][1]) if len(r['args']) == 2 else None
        the_assign = None
        if textvar is None:
            # `let src = io::read_to_string(contents)?`: the variable bound to the result
            for b in walk(t['body']):
                if b['k'] == 'Block':
                    for st in b['stmts']:
                        if st['k'] == 'Let' and st.get('init') is not None and any(x is r for x in walk(st['init'])) and unwrap_pat(st['pat'])['k'] == 'Binding': textvar = unwrap_pat(st['pat'])['var']
            for e in walk(t['body']):
                if e['k'] == 'Assign' and any(x is r for x in walk(e['rhs'])) and root_var(e['lhs']) is not None: textvar = root_var(e['lhs']); the_assign = e
        # local names for the same string: `let src = { let mut text = String::new(); read_to_string(.., &mut text)?; Ok(text) }?` (an inlined helper)
        names = {textvar} if textvar is not None else set()
        def value_var(e_):
            e_ = strip(e_)
            for _ in range(12):
                if e_['k'] == 'Block' and e_.get('expr') is not None: e_ = strip(e_['expr'])
                elif e_['k'] == 'Match' and 'TryDesugar' in str(e_.get('source')) and strip(e_['scrutinee'])['k'] == 'Call' and strip(e_['scrutinee'])['args']: e_ = strip(strip(e_['scrutinee'])['args'][0])
                elif e_['k'] == 'Adt' and canon(e_['adt']) == 'std::result::Result' and e_['variant'] == 'Ok' and e_['fields']: e_ = strip(e_['fields'][0]['expr'])
                else: break
            return e_.get('var') if e_['k'] in ('VarRef', 'UpvarRef') else None
        grew = True
        while grew:
            grew = False
            for b in walk(t['body']):
                if b['k'] == 'Block':
                    for st in b['stmts']:
                        if st['k'] == 'Let' and st.get('init') is not None and unwrap_pat(st['pat'])['k'] == 'Binding' and value_var(st['init']) in names and unwrap_pat(st['pat'])['var'] not in names:
                            names.add(unwrap_pat(st['pat'])['var']); grew = True
        scans = [e for e in walk(t['body']) if e['k'] == 'Call' and (callee_name(e) or '').split('::')[-1] in ('captures_iter', 'find_iter', 'captures', 'find', 'split', 'is_match') and 'regex' in (callee_name(e) or '').lower()]
        def text_root(x):
            x = strip(x)
            while x['k'] == 'Call' and x['args'] and (callee_name(x) or '').split('::')[-1] in ('as_str', 'deref', 'as_ref', 'borrow'): x = strip(x['args'][0])
            return x.get('var') if x['k'] in ('VarRef', 'UpvarRef') else None
        ok = textvar is not None and len(scans) == 1 and text_root(scans[0]['args'][1]) in names
        why = 'the token regex must run over the string that read_to_string filled'
        if ok:
            # between the read and the scan the text is not edited: every other use of the variable is a shared borrow
            for e in walk(t['body']):
                if e['k'] == 'Borrow' and e.get('mut') and root_var(e['arg']) in names and not any(x is e for x in walk(r)):
                    ok = False; why = 'the input text is borrowed mutably a second time (edited before it is tokenised)'
                if e['k'] in ('Assign', 'AssignOp') and root_var(e['lhs']) in names and e is not the_assign: ok = False; why = 'the input text is assigned after it was read'
            x = strip(scans[0]['args'][1])
            while x['k'] == 'Call' and x['args']:
                if (callee_name(x) or '').split('::')[-1] not in ('as_str', 'deref', 'as_ref', 'borrow'):
                    ok = False; why = 'the text handed to the token regex goes through %s first' % (callee_name(x) or '').split('::')[-1]
                x = strip(x['args'][0])
    R.count('T:input-text'); R.obligation(ok, 'T input text')
    if not ok: R.violation(fn + ' / T / input text', 'T', 'the tokenizer must run over the complete input text: %s' % why, t['span']['loc'] if 'span' in t else None)

def rule_regex(F, R):
    lib = F.lib()
    pat, loc = tokenizer_pattern(lib)
    if pat is None:
        R.violation('rsbdd::parser::TOKENIZER / T / pattern', 'UNDECIDABLE', 'tokenizer pattern literal not found (anchor missing)'); return
    info = parse_tokenizer_regex(pat)
    ok, why = regex_is_valid(pat)
    R.count('T:regex-parsed'); R.obligation(ok, 'T regex valid')
    if not ok:
        R.violation('rsbdd::parser::TOKENIZER / T / unsupported pattern', 'UNDECIDABLE', 'tokenizer pattern outside the analysable subset: ' + why, loc); return
    # (1) longer symbol before any symbol that is its proper prefix (leftmost-first alternation)
    syms = info.symbols
    for i, a in enumerate(syms):
        for j in range(i + 1, len(syms)):
            b = syms[j]
            R.count('T:regex-prefix-pairs')
            bad = b.startswith(a) and b != a
            R.obligation(not bad, 'T prefix %r %r' % (a, b))
            if bad:
                R.violation('rsbdd::parser::TOKENIZER / T / %r before %r' % (a, b), 'T',
                            'alternative %r precedes %r of which it is a proper prefix: %r can never be matched (longest match lost)' % (a, b, b), loc)
    dup = sorted(set(x for x in syms if syms.count(x) > 1))
    R.obligation(not dup, 'T regex dup')
    for d in dup: R.violation('rsbdd::parser::TOKENIZER / T / duplicate %r' % d, 'T', 'symbol %r listed twice' % d, loc)
    # (2) writer/reader agreement: alternatives == spellings handled by tokenize
    tabs = tokenize_tables(lib)
    handled = set(tabs['tables'].get('symbol', {})) if tabs else set()
    ok = set(syms) == handled
    R.count('T:regex-symbols', len(syms)); R.obligation(ok, 'T regex/table agreement')
    if not ok:
        R.violation('rsbdd::parser::TOKENIZER / T / symbol set', 'T', 'regex symbol alternatives and the symbol match of tokenize disagree: only in regex %s, only in tokenize %s' % (
            sorted(set(syms) - handled), sorted(handled - set(syms))), loc)
    # (3) group order and group set
    g = info.groups
    ok = g.index('countable') < g.index('identifier') if 'countable' in g and 'identifier' in g else False
    R.obligation(ok, 'T countable<identifier')
    if not ok: R.violation('rsbdd::parser::TOKENIZER / T / countable before identifier', 'T', 'number alternative must precede the identifier alternative (digits are word characters)', loc)
    ok = 'reference' in g and 'identifier' in g and g.index('reference') < g.index('identifier') or True
    ok = sorted(g) == sorted(REF_GROUPS)
    R.obligation(ok, 'T groups')
    if not ok: R.violation('rsbdd::parser::TOKENIZER / T / groups', 'T', 'named groups %s differ from the documented token classes %s' % (g, REF_GROUPS), loc)
    hg = tabs['groups'] if tabs else []
    # eof / comment are tested with .is_some(): collect every group name string passed to Captures::name
    t = lib.ithir.get(PARSER + 'tokenize')
    names = []
    for e in walk(t['body']):
        if e['k'] == 'Call' and callee_name(e) == 'regex::Captures::name':
            names += [x['value'] for x in walk(e) if x['k'] == 'Literal' and x.get('lit') == 'Str']
    ok = sorted(set(names)) == sorted(g)
    R.count('T:regex-groups', len(g)); R.obligation(ok, 'T group agreement')
    if not ok: R.violation('rsbdd::parser::TOKENIZER / T / group agreement', 'T', 'groups of the pattern %s and groups queried by tokenize %s disagree' % (sorted(g), sorted(set(names))), loc)
    # (4) shapes of the non-symbol groups
    bodies = {a['group']: (a['prefix'], a['body'], a['suffix']) for a in info.alts}
    want = {'countable': ('', r'\d+', ''), 'reference': (r'\{', r"[\w']+", r'\}'), 'identifier': ('', r"[\w']+", ''), 'eof': ('', '$', ''), 'comment': ('', '"[^"]*"', '')}
    for k, v in want.items():
        ok = bodies.get(k) == v
        R.count('T:regex-class-shapes'); R.obligation(ok, 'T shape ' + k)
        if not ok: R.violation('rsbdd::parser::TOKENIZER / T / class %s' % k, 'T', 'token class %s is %r, documented %r' % (k, bodies.get(k), v), loc)
    R.sample({'rule': 'T regex', 'symbols in order': syms, 'groups in order': g})

def rule_tte(F, R):
    lib = F.lib()
    tab = tte_tables(lib)
    if not tab:
        R.violation('rsbdd::truth_table::TruthTableEntry::matches / T / table', 'UNDECIDABLE', 'cannot extract the filter spellings'); return
    for v, ref in REF_TTE.items():
        ok = tab.get(v) == ref
        R.count('T:filter-spelling-rows'); R.obligation(ok, 'T tte ' + v)
        if not ok: R.violation('rsbdd::truth_table::TruthTableEntry::matches / T / %s' % v, 'T', 'spellings of %s are %s, documented %s' % (v, sorted(tab.get(v, [])), sorted(ref)))
    vs = list(tab)
    for i in range(len(vs)):
        for j in range(i + 1, len(vs)):
            inter = tab[vs[i]] & tab[vs[j]]
            R.obligation(not inter, 'T tte disjoint')
            if inter: R.violation('rsbdd::truth_table::TruthTableEntry::matches / T / overlap %s-%s' % (vs[i], vs[j]), 'T', 'spellings %s select both %s and %s' % (sorted(inter), vs[i], vs[j]))
    R.sample({'rule': 'T filter spellings', 'table': {k: sorted(v) for k, v in tab.items()}})
    # an entry is shown as its own name: Display maps True / False / Any to "True" / "False" / "Any" (the cells of the truth table)
    TTD_ = [k for k in lib.ithir if k.endswith('Display>::fmt') and 'TruthTableEntry' in k]
    if TTD_:
        shown = {}
        for m_ in walk(lib.ithir[TTD_[0]]['body']):
            if m_['k'] != 'Match': continue
            for a_ in m_['arms']:
                q_ = a_['pat']
                while q_['k'] in ('Deref', 'DerefPattern'): q_ = q_['sub']
                if q_['k'] == 'Variant' and 'TruthTableEntry' in canon(q_.get('adt', '')):
                    shown[q_['variant']] = [x['value'] for x in walk(a_['body']) if x['k'] == 'Literal' and x.get('lit') == 'Str']
        if shown:
            okd = all(shown.get(v_) == [v_] for v_ in ('True', 'False', 'Any'))
            R.count('T:entry-display'); R.obligation(okd, 'T tte display')
            if not okd: R.violation(TTD_[0] + ' / T / entry text', 'T', 'a table entry must be shown as its own name (True, False, Any); found %s' % shown)
    # from_str searches the list of variants with `matches`: the list must hold every variant (a spelling whose variant is not listed is refused)
    TT_ = 'rsbdd::truth_table::TruthTableEntry'
    tv = lib.ithir.get(TT_ + '::variants')
    if tv is not None:
        arrs = [x for x in walk(tv['body']) if x['k'] == 'Array']
        listed = set()
        for a_ in arrs:
            for f_ in a_['fields']:
                g_ = f_
                while g_['k'] in ('Borrow', 'Deref', 'Use'): g_ = g_.get('arg') or g_.get('source')
                if g_['k'] == 'Adt' and canon(g_['adt']) == TT_: listed.add(g_['variant'])
        ok = listed == {'True', 'False', 'Any'}
        # ... and the search runs over the whole list: `variants().iter().find(..)` with nothing in between that drops a variant
        fs_ = [k for k in lib.ithir if k.endswith('FromStr>::from_str') and 'TruthTableEntry' in k]
        if fs_ and ok:
            for x in walk(lib.ithir[fs_[0]]['body']):
                if x['k'] == 'Call' and callee_decl(x) in ('std::iter::Iterator::find', 'std::iter::Iterator::position', 'std::iter::Iterator::find_map') and x['args']:
                    rc = x['args'][0]; chain = []
                    while True:
                        while rc['k'] in ('Borrow', 'Deref', 'Use'): rc = rc.get('arg') or rc.get('source')
                        if rc['k'] == 'Call' and rc['args']: chain.append((callee_name(rc) or '').split('::')[-1]); rc = rc['args'][0]
                        else: break
                    if any(c_ in ('skip', 'take', 'filter', 'step_by', 'skip_while', 'take_while', 'nth') for c_ in chain): ok = False; listed = set(listed) | {'(searched through %s)' % '.'.join(reversed(chain))}
                    # ... and what selects a variant is `matches` applied to that variant and the text being parsed, nothing beside it
                    # (a predicate that accepts more - `name.contains(text) || variant.matches(text)` - lets an earlier variant take a later one's spelling)
                    if lib.ithir.get(TT_ + '::matches') is not None and len(x['args']) > 1:
                        def strip_(e_):
                            while e_ is not None and (e_['k'] in ('Borrow', 'Deref', 'Use', 'Scope') or (e_['k'] == 'Block' and not e_.get('stmts') and e_.get('expr'))):
                                e_ = e_.get('arg') or e_.get('source') or e_.get('expr') or e_.get('value')
                            return e_
                        pr = strip_(x['args'][1]); body_fn = lib.ithir[fs_[0]]
                        if pr is not None and pr['k'] == 'VarRef':
                            pr = {'k': 'Closure', 'def': pr['ty']['def']} if isinstance(pr.get('ty'), dict) and pr['ty'].get('k') == 'Closure' else None      # a closure bound to a local first: its type names it
                        cl = (lib.ithir.get(pr['def']) or lib.thir.get(pr['def'])) if pr is not None and pr['k'] == 'Closure' else None
                        sel_ok = False; why = 'the predicate handed to the search is not a closure of from_str'
                        if cl is not None:
                            cb = strip_(cl['body']); pv = [q_['pat'].get('var') for q_ in cl['params'] if q_.get('pat')]
                            sv = [q_['pat'].get('var') for q_ in body_fn['params'] if q_.get('pat') and q_['pat'].get('k') == 'Binding']
                            why = 'the predicate is `%s`' % pp(cl['body']).strip()[:160]
                            if cb is not None and cb['k'] == 'Call' and callee_name(cb) == TT_ + '::matches' and len(cb['args']) == 2:
                                a0 = strip_(cb['args'][0]); a1 = strip_(cb['args'][1])
                                sel_ok = a0 is not None and a0['k'] == 'VarRef' and a0['var'] in pv and a1 is not None and a1['k'] in ('UpvarRef', 'VarRef') and a1['var'] in sv
                        R.count('T:filter-selection-predicate'); R.obligation(sel_ok, 'T tte selection predicate')
                        if not sel_ok: R.violation(fs_[0] + ' / T / selection predicate', 'UNDECIDABLE', 'a variant must be selected by `variant.matches(<the text being parsed>)` alone (the table of spellings is what `matches` holds); %s' % why)
        R.count('T:filter-variants-listed'); R.obligation(ok, 'T tte variants')
        if not ok: R.violation(TT_ + '::variants / T / list of variants', 'T', 'the list searched by from_str holds %s; every one of True, False, Any must be in it (its spellings are refused otherwise)' % sorted(listed))

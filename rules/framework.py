"""Check framework: fact cache, violation bookkeeping, known findings, evidence files."""

import hashlib, json, os, subprocess, sys, time, shutil, tempfile

VERIF = os.path.dirname(os.path.dirname(os.path.abspath(__file__)))
REPO = os.environ.get('RSBDD_REPO', '/repo')
DRIVER = os.path.join(VERIF, 'driver', 'target', 'release', 'rsbdd-facts')
CACHE = os.path.join(VERIF, '.cache')
EVID = os.environ.get('RSBDD_EVIDENCE_DIR', os.path.join(VERIF, 'evidence'))

def repo_hash(repo, extra='', with_driver=True):
    h = hashlib.sha256()
    h.update(extra.encode())
    for root, dirs, files in os.walk(repo):
        dirs[:] = sorted(d for d in dirs if d not in ('target', '.git'))
        for f in sorted(files):
            p = os.path.join(root, f)
            if os.path.islink(p):
                h.update(b'L' + os.readlink(p).encode())
                continue
            try:
                with open(p, 'rb') as fh:
                    data = fh.read()
            except OSError:
                continue
            h.update(os.path.relpath(p, repo).encode() + b'\0' + hashlib.sha256(data).digest())
    if with_driver:
        with open(DRIVER, 'rb') as fh:
            h.update(hashlib.sha256(fh.read()).digest())
    return h.hexdigest()[:24]

def tree_hash(repo):
    """content hash of the source tree alone (no driver binary): identifies the tree the self-test corpus was validated on"""
    return repo_hash(repo, 'tree', with_driver=False)

def ensure_driver():
    if not os.path.exists(DRIVER):
        subprocess.check_call([os.path.join(VERIF, 'setup.sh')])

def extract(repo=REPO, all_targets=False):
    """Run the driver over `repo` (cached by content hash of the whole tree + driver binary)."""
    ensure_driver()
    key = repo_hash(repo, 'all-targets' if all_targets else 'default')
    d = os.path.join(CACHE, 'facts-' + key)
    if os.path.isdir(d) and os.path.exists(os.path.join(d, 'OK')):
        try: os.utime(d, None)            # mark as in use (pruning skips recently used entries)
        except OSError: pass
        return d, True
    os.makedirs(CACHE, exist_ok=True)
    tmp = tempfile.mkdtemp(prefix='facts-tmp-', dir=CACHE)
    cmd = [os.path.join(VERIF, 'extract.sh'), repo, tmp]
    if all_targets: cmd.append('--all-targets')
    r = subprocess.run(cmd, stdout=subprocess.PIPE, stderr=subprocess.STDOUT, text=True)
    if r.returncode != 0:
        log = r.stdout[-3000:]
        shutil.rmtree(tmp, ignore_errors=True)
        raise RuntimeError('fact extraction failed (does /repo build?):\n' + log)
    n = len([f for f in os.listdir(tmp) if f.endswith('.json')])
    if n < 6:
        shutil.rmtree(tmp, ignore_errors=True)
        raise RuntimeError('fact extraction produced %d crate files, expected >= 6' % n)
    open(os.path.join(tmp, 'OK'), 'w').write(key)
    try:
        os.rename(tmp, d)
    except OSError:
        shutil.rmtree(tmp, ignore_errors=True)   # lost a race; the other copy is equivalent
    # prune cache entries: never one used in the last two hours (a concurrent check may be reading it), and keep the 6 most recent
    now = time.time()
    ents = sorted((os.path.join(CACHE, x) for x in os.listdir(CACHE) if x.startswith('facts-')), key=lambda q: os.path.getmtime(q) if os.path.exists(q) else 0)
    done = [x for x in ents if not os.path.basename(x).startswith('facts-tmp')]
    for old in done[:-6]:
        try:
            if now - os.path.getmtime(old) > 7200: shutil.rmtree(old, ignore_errors=True)
        except OSError: pass
    for old in ents:
        try:
            if os.path.basename(old).startswith('facts-tmp') and now - os.path.getmtime(old) > 7200: shutil.rmtree(old, ignore_errors=True)
        except OSError: pass
    return d, False

class Violation:
    def __init__(self, key, rule, msg, loc=None, detail=None):
        self.key, self.rule, self.msg, self.loc, self.detail = key, rule, msg, loc, detail
    def to_json(self):
        return {'key': self.key, 'rule': self.rule, 'message': self.msg, 'loc': self.loc, 'detail': self.detail}

class Report:
    """Accumulates what one property check did."""
    def __init__(self, pid):
        self.pid = pid
        self.violations = []
        self.counts = {}            # rule instance counts
        self.floors = {}            # rule -> minimum instance count confirmed by reading
        self.samples = []
        self.obligations = 0
        self.discharged = 0
        self.functions = []
        self.notes = []
        self.units = []
        self.idents = set()
        self.s_done = set()
    def count(self, rule, n=1):
        self.counts[rule] = self.counts.get(rule, 0) + n
    def floor(self, rule, n):
        self.floors[rule] = n
    def violation(self, key, rule, msg, loc=None, detail=None):
        # keys are unique; add an ordinal when the same key repeats
        base = key; i = 1
        keys = set(v.key for v in self.violations)
        while key in keys:
            i += 1; key = '%s #%d' % (base, i)
        self.violations.append(Violation(key, rule, msg, loc, detail))
    def obligation(self, ok, ident=None):
        self.obligations += 1
        if ok: self.discharged += 1
        self.idents.add(ident if ident is not None else self.obligations)
    def sample(self, s):
        if len(self.samples) < 12: self.samples.append(s)
    def check_floors(self):
        for rule, n in self.floors.items():
            got = self.counts.get(rule, 0)
            if got < n:
                self.violation('%s / VACUITY / %s' % (self.pid, rule), 'VACUITY',
                               'rule %s matched %d instance(s), fewer than its floor of %d (derived from the instances counted on the pinned tree): the rule may have gone blind' % (rule, got, n))

XVAL = None

def cross_validate(F):
    """Extractor cross-validation: for every body, the multiset of resolved callees in the THIR dump (what the rules read) must equal
    the multiset of Call terminators in the MIR dump (what gets compiled), up to two understood classes of MIR/THIR-only calls."""
    from collections import Counter
    from facts import walk, canon
    ALLOW_THIR_ONLY = {'alloc::intrinsics::write_box_via_move'}
    ALLOW_MIR_ONLY = {'core::str::traits::<impl std::cmp::PartialEq for str>::eq'}
    bodies = 0; explained = 0; bad = []
    for c in F.crates:
        for name, t in c.thir.items():
            m = c.mir.get(name)
            if m is None: continue
            f = c.fns.get(name)
            if f and f.get('derived'): continue
            a = Counter(); b = Counter()
            for e in walk(t['body']):
                if e['k'] == 'Call' and e.get('callee'): a[canon(e['callee'].get('res') or e['callee']['def'])] += 1
            for blk in m['blocks']:
                if blk['cleanup']: continue
                tt = blk['term']
                if tt['k'] == 'Call' and tt.get('callee'): b[canon(tt['callee'].get('res') or tt['callee']['def'])] += 1
            bodies += 1
            if a != b:
                ot = {k for k, v in a.items() if v > b.get(k, 0)}; om = {k for k, v in b.items() if v > a.get(k, 0)}
                if ot <= ALLOW_THIR_ONLY and om <= ALLOW_MIR_ONLY: explained += 1
                else: bad.append((c.name, name, sorted(ot)[:3], sorted(om)[:3]))
    return {'bodies_compared': bodies, 'explained_differences': explained, 'unexplained': bad}

def load_known():
    p = os.path.join(VERIF, 'known_findings.json')
    if not os.path.exists(p): return []
    return json.load(open(p)).get('findings', [])

def finish(report, level, tier, t0, explanation, trusted_base, assumptions, checker_cmd):
    """Print results, write evidence, return exit code."""
    pid = report.pid
    report.check_floors()
    if XVAL is not None:
        report.count('F:bodies-cross-validated(THIR-vs-MIR)', XVAL['bodies_compared'])
        for (cn, fn, ot, om) in XVAL['unexplained']:
            report.violation('%s / F / extractor mismatch' % fn, 'UNDECIDABLE', 'THIR and MIR dumps of %s disagree on the calls made (THIR-only %s, MIR-only %s): the extractor may have dropped an expression; refusing to conclude' % (fn, ot, om))
    known = [k for k in load_known() if k.get('property') == pid and k.get('status') == 'known']
    known_keys = {k['key']: k for k in known}
    new = []
    for v in report.violations:
        if v.key in known_keys:
            print('KNOWN-FINDING: property=%s %s [%s]' % (pid, known_keys[v.key].get('what', v.msg), v.key))
        else:
            new.append(v)
    os.makedirs(os.path.join(EVID, 'replay'), exist_ok=True)
    ev = {
        'property_id': pid,
        'tier': tier,
        'seed': int(os.environ.get('VERIF_SEED', '0') or 0),
        'level': level,
        'coverage': {
            'explanation': explanation,
            'obligations': report.obligations,
            'discharged': report.discharged,
            'checker_cmd': checker_cmd,
            'trusted_base': trusted_base,
            'rule_instances': report.counts,
            'instance_floors': report.floors,
            'functions_analysed': report.functions,
            'units_analysed': report.units,
            'samples': report.samples or ['(no obligations generated)'],
            'exhaustive': True,
            'evaluations': report.obligations,
            'distinct_nontrivial': len(report.idents),
            'rule': 'one obligation per (function, abstract world, post-condition clause) or per rule instance (site / table row); all are distinct by construction',
            'notes': report.notes,
        },
        'assumptions': assumptions,
        'wall_s': round(time.time() - t0, 2),
        'violations': len(new),
    }
    if report.obligations < 1 or len(report.idents) < 2:
        # the generic keys have schema minimums; they are optional for this level, so omit rather than pad
        del ev['coverage']['evaluations']; del ev['coverage']['distinct_nontrivial']; del ev['coverage']['rule']
    with open(os.path.join(EVID, pid + '.json'), 'w') as f:
        json.dump(ev, f, indent=1, default=str)
    print('%s: %d obligation(s), %d discharged; rule instances: %s; %.1fs' % (
        pid, report.obligations, report.discharged, ', '.join('%s=%d' % kv for kv in sorted(report.counts.items())), time.time() - t0))
    if new:
        rp = os.path.join(EVID, 'replay', pid + '.json')
        with open(rp, 'w') as f:
            json.dump({'property': pid, 'violations': [v.to_json() for v in new]}, f, indent=1, default=str)
        for v in new:
            print('  violation [%s] %s: %s%s' % (v.rule, v.key, v.msg, (' at ' + v.loc) if v.loc else ''))
        print('VIOLATION property=%s replay=%s' % (pid, rp))
        return 1
    stale = os.path.join(EVID, 'replay', pid + '.json')
    if os.path.exists(stale): os.remove(stale)
    return 0

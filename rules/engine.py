"""Engine S/O driver: specs registry, std model, world exploration, obligation checking."""

import time
from logic import *
from absint import *
from facts import canon, pp_pat

class Obl:
    """A proof obligation produced for one world of one function."""
    def __init__(self, kind, label, ok, detail=None, world=None, loc=None):
        self.kind, self.label, self.ok, self.detail, self.world, self.loc = kind, label, ok, detail, world, loc

class FnSpec:
    def __init__(self, name, den=None, facts=None, origins=None, result=None, post=None, cofactor=None,
                 exclude=None, shape_alts=None, pre=None, structural=True, note=''):
        self.name = name
        self.den = den                # (I, argterms, b) -> boolterm | None
        self.facts = facts            # (I, appterm, argterms) -> [lambda b: boolterm]
        self.origins = origins        # (I, argterms) -> set of origins
        self.result = result          # (I, args, loc) -> V      (non-default result construction)
        self.post = post              # (I, params, result) -> [Obl]
        self.cofactor = cofactor      # index of the symbol parameter for cofactor-pair mode
        self.exclude = exclude or {}  # {param index: [variant names out of scope]}
        self.shape_alts = shape_alts  # (I, appterm) -> allowed shapes of the result, or None
        self.pre = pre
        self.structural = structural
        self.note = note

def world_desc(I):
    W = I.W
    out = []
    for k in W.used:
        v = W.dec[k]
        if k[0] == 'shape': out.append('%s is %s' % (show_key(k[1]), {'F': 'False', 'T': 'True', 'C': 'Choice'}[v]))
        elif k[0] == 'ord': out.append('%s %s %s' % (show_key(k[1]), {'lt': '<', 'eq': '==', 'gt': '>'}[v], show_key(k[2])))
        elif k[0] == 'symeq': out.append('%s %s %s' % (show_key(k[1]), '==' if v else '!=', show_key(k[2])))
        elif k[0] == 'variant': out.append('%s is %s' % (show_key(k[1]), v))
        elif k[0] == 'list': out.append('%s is %s' % (show_key(k[1]), 'empty' if v == 'nil' else 'non-empty'))
        elif k[0] == 'bool': out.append('%s is %s' % (show(k[1]), v))
        elif k[0] == 'beq': out.append('%s %s %s' % (show_key(k[1]), '==' if v else '!=', show_key(k[2])))
        elif k[0] == 'opt': out.append('%s is %s' % (show_key(k[1]), v))
        else: out.append('%r=%r' % (k, v))
    return '; '.join(out)

class Engine:
    def __init__(self, facts, crate=None):
        self.F = facts
        self.crate = crate or facts.lib()
        self.specs = {}
        self.std = {}
        self.stats = {'worlds': 0, 'infeasible': 0, 'obligations': 0, 'leaves': 0}
        self.tracked_cells = set()
        import stdmodel
        stdmodel.install(self)

    # ---- lookups ----
    def thir(self, name):
        t = self.crate.thir.get(name)
        if t is None:
            for c in self.F.crates:
                if name in c.thir: t = c.thir[name]; break
        if t is None: return None
        # loops over a spelt-out array of plain values read as the sequence they abbreviate (`for leaf in [BDD::True, BDD::False] { .. }`)
        if not hasattr(self, '_unrolled'): self._unrolled = {}
        if name not in self._unrolled:
            import facts as _facts
            if any(x.get('k') == 'Array' for x in _facts.walk(t['body'])):
                nb = _facts.unroll_array_loops(t['body'])
                if any(isinstance(x, dict) and x.get('synthetic') == 'unrolled-array-loop' for x in _facts._all_nodes(nb)):
                    u = dict(t); u['body'] = nb; t = u
            self._unrolled[name] = t
        return self._unrolled[name]

    def variants(self, adt):
        for c in self.F.crates:
            a = c.adts.get(adt)
            if a: return a['variants']
        return None

    def add(self, spec):
        self.specs[spec.name] = spec

    def is_tracked_cell(self, ty):
        return ty.get('k') == 'Adt' and canon(ty['def']) == 'std::cell::RefCell'

    # ---- summary hooks used by Interp ----
    def summary_den(self, I, x, b=None):
        sp = self.specs.get(x[1])
        if sp is None or sp.den is None: return None
        return sp.den(I, x[2:], b)

    def summary_origins(self, I, x):
        sp = self.specs.get(x[1])
        if sp is None or sp.origins is None: return None
        return sp.origins(I, x[2:])

    def shape_alts(self, I, x):
        if x[0] == 'app':
            sp = self.specs.get(x[1])
            if sp is not None and sp.shape_alts is not None:
                return sp.shape_alts(I, x)
        return None

    def excluded_variants(self, I, term, adt):
        ex = getattr(I, 'excluded', {})
        return ex.get((term, adt), ex.get(adt, []))

    # ---- calls ----
    def call(self, I, decl, res, cinfo, args, e):
        loc = e['loc']
        for name in (res, decl):
            if name and name in self.specs and not getattr(self.specs[name], 'inline_calls', False):
                return self.apply_spec(I, self.specs[name], args, loc)
        for name in (res, decl):
            if name and name in self.std:
                return self.std[name](I, args, e, cinfo)
        # derived impls and trait-dispatched helpers
        h = self.std_by_trait(decl, res, cinfo)
        if h is not None:
            return h(I, args, e, cinfo)
        for name in (res, decl):
            if name and self.thir(name) is not None and (name.startswith('rsbdd') or name.startswith('rsbdd_fixtures')):
                return self.inline(I, name, args, loc)
        raise Undecidable('call to unmodelled function %s' % (res or decl), loc)

    def std_by_trait(self, decl, res, cinfo):
        return self.std.get('trait:' + decl)

    def call_by_name(self, I, name, args, loc):
        if name in self.specs and not getattr(self.specs[name], 'inline_calls', False):
            return self.apply_spec(I, self.specs[name], args, loc)
        if name in self.std:
            return self.std[name](I, args, {'loc': loc}, {})
        if self.thir(name) is not None:
            return self.inline(I, name, args, loc)
        raise Undecidable('call to unmodelled function %s' % name, loc)

    def inline(self, I, name, args, loc):
        if name in I.inline_stack:
            r = self.fold_wrapper(I, name, args, loc)
            if r is not None: return r
            raise Undecidable('recursive call to unspecified function %s' % name, loc)
        th = self.thir(name)
        first = len(I.inline_stack) == 1 and I.fname in self.specs and hasattr(I, 'top_params')
        if first:
            if not hasattr(I, 'wrap'): I.wrap = {}
            I.wrap[name] = (list(args), list(I.top_params))
        I.inline_stack.append(name)
        I.depth += 1
        if I.depth > 12: raise Undecidable('inlining depth', loc)
        try:
            r = I.run_body(th, args)
            if first: I.wrap_result = getattr(I, 'wrap_result', {}); I.wrap_result[name] = r
            return r
        finally:
            I.depth -= 1
            I.inline_stack.pop()

    def fold_wrapper(self, I, name, args, loc):
        """The function under analysis F is a wrapper `F(p..) = g(consts.., p..)` around a shared unspecified helper g (e.g. `and(a, b) =
        apply(Connective::And, a, b)`).  A recursive call g(consts.., x..) inside g with the *same* constants is the call F(x..): F's own
        summary is the induction hypothesis.  (explore() checks afterwards that F returned g's result unchanged.)"""
        w = getattr(I, 'wrap', {}).get(name)
        sp = self.specs.get(I.fname)
        if w is None or sp is None: return None
        first_args, top = w
        if len(first_args) != len(args): return None
        def key(v):
            try: return I.term_of(v)
            except Exception: return ('?', id(v))
        new = list(top)
        covered = set()
        for a0, a1 in zip(first_args, args):
            k0 = key(a0)
            js = [j for j, p in enumerate(top) if key(p) == k0 and j not in covered]
            is_param = bool(js) and isinstance(a0, (VBdd, VList, VSym, VInt, VData)) and not (isinstance(a0, VInt) and a0.lin.is_const())
            if is_param:
                new[js[0]] = a1; covered.add(js[0])
            else:
                if key(a1) != k0: return None          # a different constant: not the same specialisation
        I.events.append(('wrapper_fold', name, loc))
        return self.apply_spec(I, sp, new, loc)

    def apply_spec(self, I, sp, args, loc):
        if sp.name == I.fname:
            I.events.append(('reccall', [I.term_of(a) if not isinstance(a, (VClosure, VFnParam, VFnItem)) else None for a in args], loc))
        I.events.append(('call', sp.name, loc))
        if sp.result is not None:
            return sp.result(I, args, loc)
        terms = tuple(I.term_of(a) for a in args[1:])   # drop self
        x = ('app', sp.name) + terms
        if sp.facts is not None and x not in I.app_seen:
            I.app_seen.add(x)
            for f in sp.facts(I, x, terms): I.W.facts.append(f)
        return VBdd(x)

    def apply_fnparam(self, I, f, args, loc, e=None):
        # uninterpreted function parameter: Boolean-valued of one integer, or BDD-valued of (self, list, integer)
        ret = e['ty'] if e is not None else None
        cls = ty_class(ret, I.symparams) if ret is not None else ('opaque',)
        if cls[0] == 'bool' and len(args) == 1 and isinstance(args[0], VInt):
            return VBool(('uf', f.name, args[0].lin))
        if cls[0] == 'bdd' and len(args) == 3 and isinstance(args[1], VList) and isinstance(args[2], VInt):
            return VBdd(('app', 'UFB', f.name, args[1].term, ('lin', args[2].lin)))
        if cls[0] == 'bdd' and len(args) == 1 and isinstance(args[0], VBdd):
            return VBdd(('app', 'UFT', f.name, args[0].term))
        raise Undecidable('application of function parameter %s' % show_key(f.name), loc)

    # ---- exploration ----
    def make_params(self, I, th, fninfo):
        symparams = ()
        if fninfo is not None and 'impl_self' in fninfo:
            st = fninfo['impl_self']
            if st['k'] == 'Adt' and canon(st['def']) in ('rsbdd::bdd::BDDEnv', 'rsbdd::bdd::BDD', 'rsbdd::bdd_io::BDDGraph'):
                symparams = tuple(a['name'] for a in st['args'] if a['k'] == 'Param')
        I.symparams = symparams
        vals = []
        for i, p in enumerate(th['params']):
            name = None
            if 'pat' in p and p['pat']['k'] == 'Binding': name = p['pat']['name']
            if name is None: name = 'arg%d' % i
            cls = ty_class(p['ty'], symparams)
            vals.append(I.fresh(cls, ('p', name), p['ty']))
        ap = getattr(self, 'alias_params', None)
        if ap: vals[ap[1]] = vals[ap[0]]
        return vals

    def explore(self, fname, spec=None, max_worlds=20000):
        """Enumerate all worlds of `fname`; returns list of (Interp, params, result|Diverge, obligations)."""
        th = self.thir(fname)
        if th is None:
            raise Undecidable('function %s not found (anchor missing)' % fname)
        fninfo = self.crate.fns.get(fname)
        spec = spec or self.specs.get(fname)
        out = []
        stack = [dict()]
        n = 0
        while stack:
            dec = stack.pop()
            n += 1
            if n > max_worlds: raise Undecidable('world budget exceeded for ' + fname)
            W = World(dec)
            I = Interp(self, W, fname)
            I.inline_stack = [fname]
            I.app_seen = set()
            I.excluded = {}
            I.merge_ifs = getattr(self, 'merge_ifs', False) and fname.startswith('rsbdd::set::')
            I.alias_params = getattr(self, 'alias_params', None)
            try:
                params = self.make_params(I, th, fninfo)
                if spec is not None:
                    for idx, vs in spec.exclude.items():
                        I.excluded[(params[idx].term, params[idx].adt)] = vs
                    if spec.cofactor is not None:
                        I.cof = params[spec.cofactor].term
                I.loop_mode = bool(spec is not None and getattr(spec, 'loop_mode', False))
                I.top_params = params
                try:
                    I.top = True
                    res = I.run_body(th, params)
                    for ev in I.events:
                        if ev[0] == 'wrapper_fold':
                            wr = getattr(I, 'wrap_result', {}).get(ev[1])
                            if not (isinstance(res, VBdd) and isinstance(wr, VBdd) and I.W.rep(res.term) == I.W.rep(wr.term)):
                                raise Undecidable('a recursive call of the shared helper %s was read as a call of this function, but this function does not return the helper\'s result unchanged' % ev[1], ev[2])
                        if ev[0] == 'fold_induction' and not (isinstance(res, VBdd) and I.W.rep(res.term) == I.W.rep(ev[1])):
                            raise Undecidable('a fold over a list parameter was given its meaning by induction, but it is not what the function returns', ev[2])
                except Diverge as d:
                    res = d
                except LoopContinue:
                    res = 'LOOP_CONTINUE'
                obls = []
                if spec is not None and spec.post is not None:
                    obls = spec.post(I, params, res)
                out.append((I, params, res, obls))
                self.stats['worlds'] += 1
            except NeedDecision as nd:
                for alt in nd.alts:
                    d2 = dict(dec); d2[nd.key] = alt
                    stack.append(d2)
            except Infeasible:
                self.stats['infeasible'] += 1
        return out

    # ---- obligation helpers for specs ----
    def check_valid(self, I, goal_fn, label, extra_assume=(), loc=None):
        """goal_fn: b -> boolterm.  In cofactor mode both b=1 and b=0 instances must be valid."""
        bs = [None] if I.cof is None else [1, 0]
        # facts may grow while denotations are computed (shape decisions at post time raise NeedDecision)
        goals = [goal_fn(b) for b in bs]
        assumptions = []
        i = 0
        while i < len(I.W.facts):
            f = I.W.facts[i]; i += 1
            for b in bs: assumptions.append(f(b))
        for f in extra_assume:
            for b in bs: assumptions.append(f(b))
        goal = And(*goals)
        cex, leaves = find_counterexample(assumptions, goal)
        self.stats['obligations'] += 1
        self.stats['leaves'] += leaves
        detail = {'goal': show(goal)[:600], 'assumptions': [show(a)[:300] for a in assumptions][:12], 'cases': leaves}
        if cex is not None:
            detail['falsifying'] = cex.describe()
        return Obl('valid', label, cex is None, detail, world_desc(I), loc)

    def check_true(self, I, cond, label, detail=None, loc=None):
        self.stats['obligations'] += 1
        return Obl('struct', label, bool(cond), detail, world_desc(I), loc)

import sys, time
sys.path.insert(0, '/verif/rules')
from facts import Facts
from engine import Engine
from absint import Undecidable
import spec_bdd, spec_parser
F = Facts(sys.argv[1])
E = Engine(F)
spec_bdd.install(E); spec_parser.install(E)
for full in sys.argv[2:] or spec_parser.PARSER_FNS:
    if not full.startswith('rsbdd'): full = spec_parser.P + full
    t0 = time.time()
    try:
        res = E.explore(full)
    except Undecidable as u:
        print('UNDECIDABLE', full, u); continue
    nob = 0; bad = 0
    for (I, params, r, obls) in res:
        for o in obls:
            nob += 1
            if not o.ok:
                bad += 1
                print('  FAIL', '|', o.label, '| world:', o.world, '|', str(o.detail)[:600], o.loc)
    print('%-28s worlds=%d obligations=%d failed=%d  %.2fs' % (full.split('::')[-1], len(res), nob, bad, time.time() - t0))

"""Thorough tier: run the nightly doc-test witnesses of /verif/witness against the repository under analysis."""
import os, subprocess, tempfile, shutil, re
VERIF = os.path.dirname(os.path.dirname(os.path.abspath(__file__)))

def run(repo):
    d = tempfile.mkdtemp(prefix='rsbdd-witness-')
    try:
        os.makedirs(os.path.join(d, 'src'))
        shutil.copy(os.path.join(VERIF, 'witness', 'src', 'lib.rs'), os.path.join(d, 'src', 'lib.rs'))
        open(os.path.join(d, 'Cargo.toml'), 'w').write(
            '[package]\nname = "rsbdd-witness"\nversion = "0.1.0"\nedition = "2021"\n\n[dependencies]\nrsbdd = { path = "%s" }\n\n[workspace]\n' % repo)
        shutil.copy(os.path.join(repo, 'Cargo.lock'), os.path.join(d, 'Cargo.lock'))
        r = subprocess.run(['cargo', '+nightly', 'test', '--doc', '--offline'], cwd=d, env=dict(os.environ, CARGO_TARGET_DIR=os.path.join(d, 'target'), CARGO_NET_OFFLINE='true'),
                           stdout=subprocess.PIPE, stderr=subprocess.STDOUT, text=True)
        m = re.search(r'test result: (\w+)\. (\d+) passed; (\d+) failed', r.stdout)
        lines = [l for l in r.stdout.splitlines() if l.startswith('test ') and ' ... ' in l]
        return {'exit': r.returncode, 'passed': int(m.group(2)) if m else 0, 'failed': int(m.group(3)) if m else -1, 'tests': lines, 'tail': r.stdout[-1500:] if r.returncode else ''}
    finally:
        shutil.rmtree(d, ignore_errors=True)

"""Engine P: inventory of panic-capable MIR sites reachable from the parse / eval / CLI entry points, each of which must be
discharged by a named rule (or it is a violation).  No rule is keyed by line number."""

import re
from facts import canon, walk, callee_name, pp
from mirlib import *

ENTRIES = ['rsbdd::parser::SymbolicBDD::tokenize', 'rsbdd::parser::ParsedFormula::new', 'rsbdd::parser::ParsedFormula::new_with_env',
           'rsbdd::parser::ParsedFormula::eval', 'rsbdd::main']

# std / core functions that panic by documented contract (exact resolved or declared paths, generic args stripped)
PANIC_CALLS = {
    # `{:width$}` / `{:.prec$}` with a run-time value: the formatter panics ("Formatting argument out of range") above u16::MAX
    'core::fmt::rt::Argument::from_usize': 'format width (a run-time width or precision above 65535 panics)',
    # a requested size the caller chooses: `capacity overflow` panics (and allocation aborts) when it is not bounded by something that exists
    'std::vec::Vec::with_capacity': 'capacity (Vec::with_capacity)', 'std::string::String::with_capacity': 'capacity (String::with_capacity)',
    'std::vec::Vec::reserve': 'capacity (Vec::reserve)', 'std::vec::Vec::reserve_exact': 'capacity (Vec::reserve_exact)', 'std::vec::Vec::resize': 'capacity (Vec::resize)',
    'std::vec::from_elem': 'capacity (vec![x; n])', 'alloc::vec::from_elem': 'capacity (vec![x; n])',
    'std::str::<impl str>::repeat': 'capacity (str::repeat)', 'alloc::str::<impl str>::repeat': 'capacity (str::repeat)', 'std::slice::<impl [T]>::repeat': 'capacity (slice::repeat)',
    'std::collections::HashMap::with_capacity': 'capacity (HashMap::with_capacity)', 'std::collections::HashMap::with_capacity_and_hasher': 'capacity (HashMap::with_capacity_and_hasher)',
    'std::collections::HashSet::with_capacity_and_hasher': 'capacity (HashSet::with_capacity_and_hasher)', 'std::collections::VecDeque::with_capacity': 'capacity (VecDeque::with_capacity)',
    'std::option::Option::unwrap': 'unwrap', 'std::option::Option::expect': 'expect',
    'std::result::Result::unwrap': 'unwrap', 'std::result::Result::expect': 'expect',
    'std::result::Result::unwrap_err': 'unwrap_err', 'std::result::Result::expect_err': 'expect_err',
    'std::rt::panic_fmt': 'panic', 'core::panicking::panic': 'panic', 'core::panicking::panic_fmt': 'panic',
    'core::panicking::panic_explicit': 'panic', 'core::panicking::panic_display': 'panic', 'core::panicking::unreachable_display': 'panic',
    'core::panicking::assert_failed': 'assert', 'core::panicking::assert_matches_failed': 'assert', 'std::rt::begin_panic': 'panic',
    'core::panicking::panic_nounwind': 'panic', 'std::process::abort': 'abort',
    'std::cell::RefCell::borrow': 'RefCell::borrow', 'std::cell::RefCell::borrow_mut': 'RefCell::borrow_mut', 'std::cell::RefCell::replace': 'RefCell::replace',
    'std::cell::RefCell::swap': 'RefCell::swap', 'std::cell::RefCell::take': 'RefCell::take', 'std::cell::RefCell::replace_with': 'RefCell::replace_with',
    'std::vec::Vec::remove': 'Vec::remove', 'std::vec::Vec::swap_remove': 'Vec::swap_remove', 'std::vec::Vec::insert': 'Vec::insert',
    'std::vec::Vec::drain': 'Vec::drain', 'std::vec::Vec::split_off': 'Vec::split_off',
    'std::string::String::remove': 'String::remove', 'std::string::String::insert': 'String::insert', 'std::string::String::insert_str': 'String::insert_str',
    'std::string::String::split_off': 'String::split_off', 'std::string::String::drain': 'String::drain', 'std::string::String::truncate': 'String::truncate',
    'core::str::<impl str>::split_at': 'str::split_at', 'core::slice::<impl [T]>::split_at': 'slice::split_at',
    'core::slice::<impl [T]>::copy_from_slice': 'copy_from_slice', 'core::slice::<impl [T]>::clone_from_slice': 'clone_from_slice',
    'core::slice::<impl [T]>::swap': 'slice::swap', 'core::slice::<impl [T]>::chunks': 'chunks', 'core::slice::<impl [T]>::windows': 'windows',
    'core::slice::<impl [T]>::chunks_exact': 'chunks_exact', 'std::iter::Iterator::step_by': 'step_by',
    'std::time::Duration::new': 'Duration::new', 'std::time::Duration::from_secs_f64': 'Duration::from_secs_f64',
    'std::time::Instant::duration_since': None,
}
PANIC_TRAIT_DECLS = {
    'std::ops::Index::index': 'Index', 'std::ops::IndexMut::index_mut': 'IndexMut',
}
ASSERT_KINDS = ('BoundsCheck', 'Overflow', 'OverflowNeg', 'DivisionByZero', 'RemainderByZero')

def find_body(F, name):
    for c in F.crates:
        if c.kind == 'test': continue
        if name in c.mir: return c, c.mir[name]
    return None, None

def reachable(F, entries):
    seen = {}; work = list(entries)
    lib = F.lib()
    # methods of non-derived impls of foreign traits on local types are called back by dependencies (dot::render, clap, fmt)
    for f in list(lib.fns.values()) + list(F.bin().fns.values()):
        if f.get('impl_trait') and not f.get('derived') and not canon(f['impl_trait']).startswith('rsbdd'):
            work.append(canon(f['def']))
    while work:
        n = work.pop()
        if n in seen: continue
        c, body = find_body(F, n)
        if body is None: continue
        seen[n] = (c, body)
        for b in body['blocks']:
            t = b['term']
            if t['k'] == 'Call':
                for x in (callee(t), callee_decl(t)):
                    if x and x.startswith('rsbdd'): work.append(x)
                for a in t['args']:
                    if a.get('k') == 'Const' and 'fn' in a:
                        x = canon(a['fn'].get('res') or a['fn']['def'])
                        if x.startswith('rsbdd'): work.append(x)
            for s in b['stmts']:
                if s['k'] == 'Assign':
                    rv = s['rv']
                    if rv.get('k') == 'Aggregate' and rv.get('agg') == 'Closure': work.append(canon(rv['def']))
                    ops = []
                    if rv.get('k') == 'Use': ops = [rv['op']]
                    elif rv.get('k') == 'Aggregate': ops = rv['ops']
                    elif rv.get('k') == 'Cast': ops = [rv['op']]
                    for o in ops:
                        if o.get('k') == 'Const' and 'fn' in o:
                            x = canon(o['fn'].get('res') or o['fn']['def'])
                            if x.startswith('rsbdd'): work.append(x)
    return seen

class Site:
    def __init__(self, fn, kind, what, loc, bi, term, body, crate):
        self.fn, self.kind, self.what, self.loc, self.bi, self.term, self.body, self.crate = fn, kind, what, loc, bi, term, body, crate
        self.key = None
    def __repr__(self): return '%s / %s / %s @%s' % (self.fn, self.kind, self.what, self.loc)

def inventory(F, reach):
    sites = []
    for n in sorted(reach):
        c, body = reach[n]
        f = c.fns.get(n)
        if f and f.get('derived'): continue
        if '<Args as clap::' in n: continue       # code generated by clap's derive: third-party contract
        per_key = {}
        for bi, b in enumerate(body['blocks']):
            if b['cleanup']: continue
            t = b['term']
            s = None
            if t['k'] == 'Assert':
                kind = t['msg'].split('(')[0]
                if kind in ASSERT_KINDS:
                    s = Site(n, 'assert', t['msg'], t['loc'], bi, t, body, c)
            elif t['k'] == 'Call':
                res, decl = callee(t) or '', callee_decl(t) or ''
                what = None
                for x in (res, decl):
                    if x in PANIC_CALLS: what = PANIC_CALLS[x]
                if what is None and decl in PANIC_TRAIT_DECLS:
                    what = PANIC_TRAIT_DECLS[decl] + ' on ' + (res.split(' as ')[0].lstrip('<') if ' as ' in res else (res or 'generic'))
                if what is None and decl == 'std::iter::Iterator::sum' and 'Duration' in str(t.get('callee', {}).get('gargs')):
                    what = 'Iterator::sum<Duration>'
                if what is None and decl in ('std::iter::Iterator::sum', 'std::iter::Iterator::product'):
                    g = str(t.get('callee', {}).get('gargs'))
                    if any(("'s': '%s'" % ity) in g for ity in ('usize', 'u64', 'u32', 'u16', 'u8', 'isize', 'i64', 'i32', 'i16', 'i8')):
                        what = 'Iterator::%s of integers (overflow check inherited from the caller)' % decl.split('::')[-1]
                # arithmetic through the operator traits on (references to) integers: the overflow check is inherited, no MIR Assert appears
                m_ = re.match(r'<&?(?:mut )?(usize|u64|u32|u16|u8|isize|i64|i32|i16|i8) as std::ops::(Add|Sub|Mul|Div|Rem|Shl|Shr|Neg|AddAssign|SubAssign|MulAssign|DivAssign|RemAssign)>::', res)
                if what is None and m_:
                    what = 'Overflow(%s) via operator trait on %s' % (m_.group(2).replace('Assign', ''), m_.group(1))
                if what is None and re.match(r'core::num::<impl (usize|u64|u32|u16|u8|isize|i64|i32|i16|i8)>::(pow|abs|next_power_of_two|div_euclid|rem_euclid|ilog2|ilog10|ilog|isqrt)$', res):
                    what = 'integer ' + res.split('::')[-1]
                if what is not None:
                    s = Site(n, 'call', what, t['loc'], bi, t, body, c)
            if s is not None:
                base = '%s / %s / %s' % (n, s.kind, s.what)
                per_key[base] = per_key.get(base, 0) + 1
                s.key = base if per_key[base] == 1 else '%s #%d' % (base, per_key[base])
                sites.append(s)
    return sites

# ------------------------------------------------------------------------------------------------
# discharge rules

class Discharger:
    def __init__(self, F, E, G_conflict_cells, reach):
        self.F, self.E, self.G_conflict_cells, self.reach = F, E, G_conflict_cells, reach
        self.s_cache = {}
        self.thir_cache = {}

    def s_no_diverge(self, fn):
        """engine S explored `fn` completely and no abstract world reaches a panic / failed index / unwrap of None"""
        if fn in self.s_cache: return self.s_cache[fn]
        ok = False; why = ''
        if fn in self.E.specs and getattr(self.E.specs[fn], 'exclude', None) and any(self.E.specs[fn].exclude.values()):
            # the specification leaves some shapes of an argument out of its worlds (Subtree / Reference syntax nodes): a panic in exactly
            # those arms is invisible to the exploration, so "no world panics" says nothing about it - the no-producer rule R10 has to
            why = 'engine S explores %s without the argument shapes %s' % (fn.split('::')[-1], sorted(v for vs in self.E.specs[fn].exclude.values() for v in vs))
        elif fn in self.E.specs and self.E.thir(fn) is not None:
            try:
                from absint import Diverge
                res = self.E.explore(fn)
                div = [(r.what, r.loc) for (_, _, r, _) in res if isinstance(r, Diverge)]
                ok = not div and len(res) > 0
                why = 'engine S: none of the %d abstract worlds of %s reaches a panic' % (len(res), fn.split('::')[-1])
                if div: why = 'engine S: a world reaches %s at %s' % div[0]
            except Exception as ex:      # Undecidable -> not discharged
                why = 'engine S cannot analyse: %s' % ex
        self.s_cache[fn] = (ok, why)
        return ok, why

    def thir(self, site):
        return site.crate.thir.get(site.fn)

    # R0: constant operands
    def R0(self, s):
        if s.kind == 'assert' and s.what in ('DivisionByZero', 'RemainderByZero'):
            ops = s.term['ops']
            # the assert checks `divisor != 0`; find the divisor constant in the statement computing cond
            cond = s.term['cond']
            for st in s.body['blocks'][s.bi]['stmts']:
                if st['k'] == 'Assign' and st['place']['local'] == cond.get('local') and st['rv']['k'] == 'BinaryOp':
                    for side in ('lhs', 'rhs'):
                        o = st['rv'][side]
                        if o.get('k') == 'Const' and o.get('int') not in (None, '0'):
                            return 'R0: constant non-zero divisor %s' % o['int']
        return None

    # R1/R2/R3: by engine S on specified functions
    def RS(self, s):
        if s.kind == 'assert' and not s.what.startswith('BoundsCheck'): return None
        if s.kind == 'call' and s.what.startswith('RefCell'): return None
        ok, why = self.s_no_diverge(s.fn)
        if ok: return 'R1-R3 ' + why
        return None

    # R4: unreachable!/panic in a `_` arm whose callers pass a value already matched not to be the missing variant
    def R4(self, s):
        if s.fn != 'rsbdd::print_sized_line' or s.what != 'panic': return None
        binc = self.F.bin()
        callee_t = binc.ithir.get(s.fn)
        if callee_t is None: return None
        # the panic must be in a wildcard arm of a match on parameter #2 whose other arms are the two leaves
        ms = [e for e in walk(callee_t['body']) if e['k'] == 'Match']
        okm = False
        for m in ms:
            pats = [a['pat'] for a in m['arms']]
            def leaf(p, v):
                while p['k'] in ('Deref', 'DerefPattern'): p = p['sub']
                return p['k'] == 'Variant' and p['variant'] == v and canon(p['adt']) == 'rsbdd::bdd::BDD'
            if len(pats) == 3 and leaf(pats[0], 'True') and leaf(pats[1], 'False') and pats[2]['k'] == 'Wild': okm = True
            elif len(pats) == 3 and leaf(pats[0], 'False') and leaf(pats[1], 'True') and pats[2]['k'] == 'Wild': okm = True
        if not okm: return None
        # every call site passes a variable bound by an arm that follows an unguarded Choice(..) arm of the same match
        ncalls = 0
        for c in self.F.crates:
            if c.kind == 'test': continue
            for name, t in c.ithir.items():
                for m in walk(t['body']):
                    if m['k'] != 'Match': continue
                    seen_choice = False
                    for arm in m['arms']:
                        p = arm['pat']
                        while p['k'] in ('Deref', 'DerefPattern'): p = p['sub']
                        calls = [e for e in walk(arm['body']) if e['k'] == 'Call' and callee_name(e) == s.fn]
                        if calls:
                            for call in calls:
                                ncalls += 1
                                a = call['args'][2]
                                while a['k'] in ('Borrow', 'Deref', 'Use'): a = a.get('arg') or a.get('source')
                                if not (a['k'] == 'VarRef' and p['k'] == 'Binding' and p['var'] == a['var'] and seen_choice):
                                    return None
                        if p['k'] == 'Variant' and p['variant'] == 'Choice' and arm['guard'] is None and all(sp['pat']['k'] in ('Binding', 'Wild') or True for sp in p['subs']):
                            seen_choice = True
        # no call outside a match arm
        total = 0
        for c in self.F.crates:
            if c.kind == 'test': continue
            for name, t in c.ithir.items():
                total += sum(1 for e in walk(t['body']) if e['k'] == 'Call' and callee_name(e) == s.fn)
        if ncalls and ncalls == total:
            return 'R4: all %d call sites pass a value bound after an unguarded Choice(..) arm, so the wildcard arm is dead' % ncalls
        return None

    # R6: counters
    def R6(self, s):
        if s.kind != 'assert' or not s.what.startswith('Overflow(Add'): return None
        body = s.body
        defs = local_defs(body)
        ops = s.term['ops']
        if len(ops) != 2: return None
        a, b = ops
        if not (b.get('k') == 'Const' and b.get('int') in ('1', '2')):
            if a.get('k') == 'Const' and a.get('int') in ('1', '2'): a, b = b, a
            else: return None
        if a.get('k') not in ('Copy', 'Move'): return None
        l = a['local']
        # (i) the item of a Range<usize>::next()  =>  item < end <= usize::MAX
        src = self._trace_range_item(body, defs, l)
        if src: return 'R6: operand is an item of a Range iterator (strictly below its end), +%s cannot overflow' % b['int']
        # (ii) a counter: only assigned 0 and itself+1, in a function that iterates a slice (bounded by a collection length)
        ds = defs.get(l, [])
        kinds = set()
        for d in ds:
            if d[0] == 'stmt':
                rv = d[3]['rv']
                if rv['k'] == 'Use' and rv['op'].get('k') == 'Const' and rv['op'].get('int') == '0': kinds.add('zero')
                elif rv['k'] == 'Use' and rv['op'].get('k') in ('Move', 'Copy') and self._is_checked_add_of(body, defs, rv['op'], l): kinds.add('inc')
                else: kinds.add('other')
            else: kinds.add('other')
        if kinds and kinds <= {'zero', 'inc'} and self._has_slice_loop(body):
            return 'R6: counter starts at 0 and is incremented at most once per element of a collection (length <= isize::MAX)'
        # (iv) the increment runs under the test `l < bound` of the same type with l untouched in between: l + 1 <= bound
        if b['int'] == '1' and self._below_a_bound(body, s.bi, l):
            return 'R6: the increment is guarded by `counter < bound` (same type, counter unchanged since the test), so counter + 1 <= bound'
        # (iii) operand is a collection / string length (or max(const, len)): <= isize::MAX, so + small constant fits
        if self._is_len_like(body, defs, l, 0):
            return 'R6: operand is a length (<= isize::MAX) plus a constant <= 2'
        return None

    def _below_a_bound(self, body, bi, l):
        blocks = body['blocks']
        for bl in blocks:        # the counter is a plain local: never borrowed mutably, never written through a projection
            for st in bl['stmts']:
                if st['k'] == 'Assign' and st['rv']['k'] in ('Ref', 'RawPtr', 'AddressOf') and st['rv'].get('place', {}).get('local') == l and st['rv'].get('mut'): return False
                if st['k'] == 'Assign' and st['rv']['k'] in ('RawPtr', 'AddressOf') and st['rv'].get('place', {}).get('local') == l: return False
        preds = {}
        for i, bl in enumerate(blocks):
            t = bl['term']; succ = []
            if t['k'] == 'SwitchInt': succ = [x[1] for x in t['targets']] + [t['otherwise']]
            elif t.get('target') is not None: succ = [t['target']]
            for j in succ:
                if isinstance(j, int): preds.setdefault(j, []).append(i)
        def writes(bl, with_term=True):
            for st in bl['stmts']:
                if st['k'] == 'Assign' and st['place']['local'] == l: return True
            t = bl['term']
            return with_term and t['k'] == 'Call' and (t.get('dest') or {}).get('local') == l
        cur = bi
        if any(st['k'] == 'Assign' and st['place']['local'] == l for st in blocks[cur]['stmts']): return False
        for _ in range(12):
            ps = preds.get(cur, [])
            if len(ps) != 1: return False
            p = ps[0]; pb = blocks[p]; t = pb['term']
            if t['k'] == 'SwitchInt':
                if t['otherwise'] != cur or [x[0] for x in t['targets']] != ['0'] or t['targets'][0][1] == cur or t.get('discr_ty') != 'bool': return False
                d = t['discr'].get('local'); cmpst = None; copies = {}
                for st in pb['stmts']:
                    if st['k'] != 'Assign': continue
                    if st['place']['local'] == l: cmpst = None; copies = {}; continue         # written after the copy: start over
                    rv = st['rv']
                    if rv['k'] == 'Use' and rv['op'].get('k') == 'Copy' and rv['op'].get('local') == l and not rv['op']['proj'] and not st['place']['proj']: copies[st['place']['local']] = True
                    if st['place']['local'] == d and rv['k'] == 'BinaryOp' and rv['op'] == 'Lt': cmpst = rv
                if cmpst is None: return False
                lhs = cmpst['lhs']
                return lhs.get('k') in ('Copy', 'Move') and not lhs['proj'] and (lhs['local'] == l or lhs['local'] in copies)
            if writes(pb): return False
            cur = p
        return False

    def _trace_range_item(self, body, defs, l, depth=0):
        if depth > 6: return False
        for d in defs.get(l, []):
            if d[0] != 'stmt': return False
            rv = d[3]['rv']
            if rv['k'] == 'Use' and rv['op'].get('k') in ('Copy', 'Move'):
                o = rv['op']
                if o['proj'] and any(isinstance(p, dict) and 'Downcast' in p for p in o['proj']):
                    # payload of Option<T>; the option must come from Range::next
                    for dd in defs.get(o['local'], []):
                        if dd[0] == 'call' and (callee(dd[2]) or '').startswith('std::iter::range::<impl std::iter::Iterator for std::ops::Range'):
                            return True
                    return False
                if not o['proj']: return self._trace_range_item(body, defs, o['local'], depth + 1)
            return False
        return False

    def _is_checked_add_of(self, body, defs, op, l):
        # op is `(tmp.0)` where tmp = CheckedAdd(l, 1)  (debug)  or tmp = Add(l, 1)
        src = op['local']
        for d in defs.get(src, []):
            if d[0] == 'stmt' and d[3]['rv']['k'] == 'BinaryOp' and d[3]['rv']['op'].startswith('Add'):
                lhs = d[3]['rv']['lhs']
                if lhs.get('k') in ('Copy', 'Move') and lhs['local'] == l: return True
        return False

    def _has_slice_loop(self, body):
        for b in body['blocks']:
            t = b['term']
            if t['k'] == 'Call':
                c = callee(t) or ''
                if c.startswith('<std::slice::Iter as std::iter::Iterator>::next') or c.startswith('<regex::CaptureMatches as std::iter::Iterator>::next') or \
                   c.startswith('<std::vec::IntoIter as std::iter::Iterator>::next'):
                    return True
        return False

    def _is_len_like(self, body, defs, l, depth):
        if depth > 6: return False
        ds = defs.get(l, [])
        if len(ds) != 1: return False
        d = ds[0]
        if d[0] == 'call':
            c = callee(d[2]) or ''
            if c in ('std::string::String::len', 'std::vec::Vec::len', 'core::str::<impl str>::len', 'core::slice::<impl [T]>::len'): return True
            if c in ('std::cmp::max', 'std::cmp::Ord::max', 'std::cmp::impls::<impl std::cmp::Ord for usize>::max'):
                return any(a.get('k') in ('Copy', 'Move') and self._is_len_like(body, defs, a['local'], depth + 1) for a in d[2]['args']) and \
                    all(a.get('k') == 'Const' or self._is_len_like(body, defs, a['local'], depth + 1) for a in d[2]['args'])
            return False
        rv = d[3]['rv']
        if rv['k'] == 'Use' and rv['op'].get('k') in ('Copy', 'Move') and not rv['op']['proj']:
            return self._is_len_like(body, defs, rv['op']['local'], depth + 1)
        return False

    # R8: constant arguments validated at analysis time
    def R8(self, s):
        t = self.thir(s)
        if t is None or s.kind != 'call' or s.what not in ('expect', 'unwrap'): return None
        # find Result/Option::expect(X::new(<string literal>)) in the THIR of this function
        for e in walk(t['body']):
            if e['k'] == 'Call' and callee_name(e) in ('std::result::Result::expect', 'std::option::Option::expect', 'std::result::Result::unwrap'):
                inner = e['args'][0]
                if inner['k'] == 'Call' and e['loc'] == s.loc or True:
                    if inner['k'] != 'Call': continue
                    cn = callee_name(inner)
                    lits = [x for x in walk(inner) if x['k'] == 'Literal' and x.get('lit') == 'Str']
                    if cn == 'regex::Regex::new' and len(lits) == 1 and self._same_site(e, s):
                        import engine_t
                        ok, why = engine_t.regex_is_valid(lits[0]['value'])
                        if ok: return 'R8: Regex::new on a constant pattern validated at analysis time (%s)' % why
                    if cn.endswith('dot::Id::new') and len(lits) == 1 and self._same_site(e, s):
                        if re.fullmatch(r'[a-zA-Z_][a-zA-Z_0-9]*', lits[0]['value']):
                            return 'R8: dot::Id::new on the constant identifier "%s"' % lits[0]['value']
        return None

    def _same_site(self, e, s):
        return e['loc'] == s.loc or e.get('fn_loc') == s.loc

    # R15: a run-time format width that is a constant below 2^16, or capped by one (`min(w, K)`)
    def R15(self, s):
        if s.kind != 'call' or not s.what.startswith('format width'): return None
        t = self.thir(s)
        if t is None: return None
        import facts as _facts
        def small(e, depth=0):
            while e['k'] in ('Use', 'Borrow', 'Deref', 'NeverToAny', 'Cast'): e = e.get('source') or e.get('arg')
            if e['k'] == 'Literal' and e.get('lit') == 'Int':
                try: return int(e['value']) <= 65535
                except (TypeError, ValueError): return False
            if e['k'] == 'Call' and ((_facts.callee_decl(e) or '') == 'std::cmp::Ord::min' or (callee_name(e) or '') == 'std::cmp::min') and len(e['args']) == 2:
                return small(e['args'][0], depth + 1) or small(e['args'][1], depth + 1)
            return False
        # the width is handed to the formatter as `from_usize(&args.N)`, N-th element of the argument tuple of the same format block
        seen_width = False
        for b in walk(t['body']):
            if b['k'] != 'Block' or not b.get('stmts'): continue
            tup = None
            for st in b['stmts']:
                i0 = st.get('init') if st['k'] == 'Let' else None
                while i0 is not None and i0['k'] in ('Use', 'Borrow', 'Deref', 'NeverToAny'): i0 = i0.get('source') or i0.get('arg')
                if i0 is not None and i0['k'] == 'Tuple' and tup is None: tup = i0['fields']
            if tup is None: continue
            for st in b['stmts']:
                if st['k'] != 'Let' or st.get('init') is None: continue
                for e in walk(st['init']):
                    if e['k'] == 'Call' and callee_name(e) == 'core::fmt::rt::Argument::from_usize':
                        fld = [x for x in walk(e['args'][0]) if x['k'] == 'Field']
                        if not fld or fld[0]['field'] >= len(tup) or not small(tup[fld[0]['field']]): return None
                        seen_width = True
        # (seed C12-r11a: a width inside a helper that is not inlined into the function the site is judged for was "capped" vacuously)
        if not seen_width: return None
        return 'R15: every run-time format width in this function is a constant below 65536 or capped by one'

    # R14: a requested capacity that is a constant, or the length of a collection that already exists
    def R14(self, s):
        if s.kind != 'call' or not s.what.startswith('capacity'): return None
        t = self.thir(s)
        if t is None: return None
        lets = {}
        for b in walk(t['body']):
            if b['k'] == 'Block':
                for st in b['stmts']:
                    if st['k'] == 'Let' and st.get('init') is not None:
                        q = st['pat']
                        while q['k'] in ('AscribeUserType', 'Deref', 'DerefPattern'): q = q.get('sub') or q.get('subpattern')
                        if q and q['k'] == 'Binding' and not q.get('mutable'): lets[q['var']] = st['init']
        def bounded(e, depth=0):
            while e['k'] in ('Use', 'Borrow', 'Deref', 'NeverToAny', 'Cast'): e = e.get('source') or e.get('arg')
            if e['k'] == 'Literal' and e.get('lit') == 'Int': return 'the constant %s' % e['value']
            if e['k'] == 'Call' and (callee_name(e) or '').split('::')[-1] == 'len' and e['args']: return 'the length of an existing collection'
            if e['k'] in ('VarRef', 'UpvarRef') and e['var'] in lets and depth < 4: return bounded(lets[e['var']], depth + 1)
            if e['k'] == 'Binary' and e['op'] in ('Add', 'Sub', 'Mul') :
                l, r = bounded(e['lhs'], depth + 1), bounded(e['rhs'], depth + 1)
                if l and r and (e['op'] != 'Mul' or 'constant' in l + r): return '%s %s %s' % (l, e['op'].lower(), r)
            if e['k'] == 'Call' and ((__import__('facts').callee_decl(e) or '') in ('std::cmp::Ord::max', 'std::cmp::Ord::min') or (callee_name(e) or '') in ('std::cmp::max', 'std::cmp::min')):
                parts = [bounded(a, depth + 1) for a in e['args']]
                if all(parts): return 'max/min of ' + ' and '.join(parts)
            return None
        for e in walk(t['body']):
            if e['k'] == 'Call' and self._same_site(e, s) and callee_name(e) and callee_name(e).split('::')[-1] in ('with_capacity', 'with_capacity_and_hasher', 'reserve', 'reserve_exact', 'resize', 'from_elem', 'repeat'):
                nm = callee_name(e).split('::')[-1]
                arg = e['args'][0] if nm.startswith('with_capacity') else e['args'][1] if len(e['args']) > 1 else None
                why = bounded(arg) if arg is not None else None
                if why: return 'R14: the requested size is %s' % why
                if arg is not None and not self.user_number(s.fn.split('::{closure')[0], arg):
                    return 'R14: the requested size does not derive from a number the user supplies (numeric command-line options, constants written in the formula)'
        return None

    def user_number(self, base, e):
        """does expression e (inside function `base`) mention a value that derives from a user-supplied number?  Sources: fields of the parsed
        command line, the constant of a counting comparison, the payload of a number token.  Propagated through lets, assignments, closures
        (which share their function's variables) and arguments of calls to functions of the workspace, to a fixed point."""
        T = self.taint()
        def mentions(x):
            for y in walk(x):
                if y['k'] in ('VarRef', 'UpvarRef') and (base, y['var']) in T: return True
                if self._is_source(base, y): return True
            return False
        return mentions(e)

    def _args_vars(self):
        if hasattr(self, '_argsv'): return self._argsv
        out = set()
        for c in self.F.crates:
            if c.kind == 'test': continue
            for name, t in c.thir.items():
                b0 = name.split('::{closure')[0]
                for b in walk(t['body']):
                    if b['k'] != 'Block': continue
                    for st in b['stmts']:
                        if st['k'] == 'Let' and st.get('init') is not None:
                            i0 = st['init']
                            while i0['k'] in ('Use', 'Borrow', 'Deref', 'NeverToAny'): i0 = i0.get('source') or i0.get('arg')
                            if i0['k'] == 'Call' and (callee_name(i0) or '').split('::')[-1] in ('parse', 'parse_from') and 'Parser' in (callee_name(i0) or ''):
                                q = st['pat']
                                while q and q['k'] in ('AscribeUserType', 'Deref', 'DerefPattern'): q = q.get('sub') or q.get('subpattern')
                                if q and q['k'] == 'Binding': out.add((b0, q['var']))
        self._argsv = out
        return out

    def _is_source(self, base, y):
        if y['k'] == 'Field':
            l = y['lhs']
            while l['k'] in ('Use', 'Borrow', 'Deref', 'NeverToAny'): l = l.get('source') or l.get('arg')
            if l['k'] in ('VarRef', 'UpvarRef') and (base, l['var']) in self._args_vars():
                ty = y.get('ty', {})
                return 'usize' in (ty.get('s') or '') or 'u64' in (ty.get('s') or '') or ty.get('k') in ('Uint', 'Int')
        return False

    def taint(self):
        if hasattr(self, '_taint'): return self._taint
        T = set()
        bodies = []
        for c in self.F.crates:
            if c.kind == 'test': continue
            for name, t in c.thir.items(): bodies.append((name.split('::{closure')[0], name, t))
        def pat_vars(p, acc):
            if not isinstance(p, dict): return
            if p.get('k') == 'Binding': acc.append(p['var'])
            for sp in p.get('subs') or []: pat_vars(sp['pat'], acc)
            for sp in p.get('pats') or []: pat_vars(sp, acc)
            if p.get('sub'): pat_vars(p['sub'], acc)
        # pattern sources: the bound of a counting comparison, the payload of a number token
        def pat_sources(p, base):
            if not isinstance(p, dict): return
            if p.get('k') == 'Variant' and p.get('variant') in ('CountableConst', 'Countable'):
                for sp in p.get('subs') or []:
                    if (p['variant'] == 'CountableConst' and sp['field'] == 2) or p['variant'] == 'Countable':
                        acc = []; pat_vars(sp['pat'], acc)
                        for v in acc: T.add((base, v))
            for sp in p.get('subs') or []: pat_sources(sp['pat'], base)
            for sp in p.get('pats') or []: pat_sources(sp, base)
            if p.get('sub'): pat_sources(p['sub'], base)
        for base, name, t in bodies:
            for x in walk(t['body']):
                if x['k'] == 'Match':
                    for a in x['arms']: pat_sources(a['pat'], base)
                if x['k'] == 'Let': pat_sources(x.get('pat'), base)
                if x['k'] == 'Block':
                    for st in x['stmts']:
                        if st['k'] == 'Let': pat_sources(st['pat'], base)
        params = {}
        for c in self.F.crates:
            if c.kind == 'test': continue
            for name, t in c.thir.items():
                if '{closure' in name: continue
                params[name] = [([] if 'pat' not in p else (lambda a: (pat_vars(p['pat'], a), a)[1])([])) for p in t['params']]
        changed = True
        def mentions(base, x):
            for y in walk(x):
                if y['k'] in ('VarRef', 'UpvarRef') and (base, y['var']) in T: return True
                if self._is_source(base, y): return True
            return False
        rounds = 0
        while changed and rounds < 12:
            changed = False; rounds += 1
            for base, name, t in bodies:
                for x in walk(t['body']):
                    if x['k'] == 'Block':
                        for st in x['stmts']:
                            if st['k'] == 'Let' and st.get('init') is not None and mentions(base, st['init']):
                                acc = []; pat_vars(st['pat'], acc)
                                for v in acc:
                                    if (base, v) not in T: T.add((base, v)); changed = True
                    elif x['k'] in ('Assign', 'AssignOp') and mentions(base, x['rhs']):
                        l = x['lhs']
                        while l['k'] in ('Use', 'Borrow', 'Deref', 'Field', 'Index'): l = l.get('source') or l.get('arg') or l.get('lhs')
                        if l['k'] in ('VarRef', 'UpvarRef') and (base, l['var']) not in T: T.add((base, l['var'])); changed = True
                    elif x['k'] == 'Call' and callee_name(x) in params:
                        g = callee_name(x)
                        for i, a in enumerate(x['args']):
                            if i < len(params[g]) and mentions(base, a):
                                for v in params[g][i]:
                                    if (g, v) not in T: T.add((g, v)); changed = True
                    elif x['k'] == 'Match':
                        # a value matched against patterns hands its taint to the bindings
                        if mentions(base, x['scrutinee']):
                            for a in x['arms']:
                                acc = []; pat_vars(a['pat'], acc)
                                for v in acc:
                                    if (base, v) not in T: T.add((base, v)); changed = True
        self._taint = T
        return T

    # R10: no producer of the offending value on the entry paths
    def R10(self, s):
        if s.what != 'panic': return None
        lib = self.F.lib()
        if s.fn == 'rsbdd::parser::ParsedFormula::var_is_free':
            # the only panic in var_is_free must be the Subtree arm; Subtree is built only inside eval_recursive's closures,
            # and var_is_free is called only from new_with_env (on the parser's output) and from itself
            t = lib.thir[s.fn]
            arms = [a for m in walk(t['body']) if m['k'] == 'Match' for a in m['arms'] if any(x['k'] == 'Call' and (callee_name(x) or '').startswith('core::panicking') for x in walk(a['body']))]
            def is_subtree(p):
                while p['k'] in ('Deref', 'DerefPattern'): p = p['sub']
                return p['k'] == 'Variant' and p['variant'] == 'Subtree'
            if len(arms) != 1 or not is_subtree(arms[0]['pat']): return None
            producers = set(); callers = set()
            for c in self.F.crates:
                if c.kind == 'test': continue
                for name, tt in c.thir.items():
                    f = c.fns.get(name)
                    if f and f.get('derived'): continue
                    for e in walk(tt['body']):
                        if e['k'] == 'Adt' and canon(e['adt']) == 'rsbdd::parser::SymbolicBDD' and e['variant'] == 'Subtree': producers.add(name)
                        if e['k'] == 'Call' and callee_name(e) == s.fn: callers.add(name.split('::{closure')[0])
            # a new helper that calls var_is_free (or builds the Subtree node) runs on behalf of the functions of the pinned tree it was split out of
            import facts as _facts
            for c_ in self.F.crates:
                for h in [x for x in list(callers) if x not in _facts.baseline_fns() and x in c_.thir]:
                    roots = _facts.baseline_roots(c_, h)
                    if roots: callers.discard(h); callers |= set(roots)
                for h in [x for x in list(producers) if x.split('::{closure')[0] not in _facts.baseline_fns() and x.split('::{closure')[0] in c_.thir]:
                    roots = _facts.baseline_roots(c_, h.split('::{closure')[0])
                    if roots: producers.discard(h); producers |= set(roots)
            if producers <= {'rsbdd::parser::ParsedFormula::eval_recursive::{closure#%d}' % i for i in range(12)} | {'rsbdd::parser::ParsedFormula::eval_recursive'} and \
               callers <= {s.fn, 'rsbdd::parser::ParsedFormula::new_with_env'}:
                return 'R10: Subtree nodes are produced only inside the evaluator (%d site(s)); var_is_free is called only on parser output (callers: %s)' % (len(producers), sorted(c.split('::')[-1] for c in callers))
        if s.fn.split('::{closure')[0] == 'rsbdd::parser::ParsedFormula::replace_var':
            # ReferenceContents::BDD has no producer in the workspace
            producers = set()
            for c in self.F.crates:
                if c.kind == 'test': continue
                for name, tt in c.thir.items():
                    f = c.fns.get(name)
                    if f and f.get('derived'): continue
                    for e in walk(tt['body']):
                        if e['k'] == 'Adt' and canon(e['adt']) == 'rsbdd::parser::ReferenceContents' and e['variant'] == 'BDD': producers.add(name)
            t = lib.thir.get(s.fn)
            def panics(b): return any(x['k'] == 'Call' and (callee_name(x) or '').startswith(('core::panicking', 'std::rt::panic')) for x in walk(b))
            arms = [a for m in walk(t['body']) if m['k'] == 'Match' for a in m['arms'] if panics(a['body'])]
            # the innermost arms that hold the panic (an outer `Reference(name) => match ..` arm merely contains one)
            arms = [a for a in arms if not any(a2 is not a and any(x is a2['body'] for x in walk(a['body'])) for a2 in arms)]
            def is_bdd(p):
                while p['k'] in ('Deref', 'DerefPattern'): p = p['sub']
                if p['k'] == 'Variant' and p['variant'] == 'BDD' and canon(p['adt']) == 'rsbdd::parser::ReferenceContents': return True
                return p['k'] == 'Variant' and canon(p['adt']) == 'std::option::Option' and p['variant'] == 'Some' and bool(p.get('subs')) and is_bdd(p['subs'][0]['pat'])
            if not producers and len(arms) == 1 and is_bdd(arms[0]['pat']):
                return 'R10: ReferenceContents::BDD is never constructed in the workspace'
        return None

    # R16: an explicit panic on a failed write to standard output is what println! does
    def R16(self, s):
        if s.kind != 'call' or s.what != 'panic': return None
        t = getattr(s.crate, 'ithir', s.crate.thir).get(s.fn)
        if t is None: return None
        def is_panic(x): return x['k'] == 'Call' and (callee_name(x) or '').startswith(('core::panicking', 'std::rt::panic', 'std::rt::begin_panic', 'std::panicking'))
        panics = [x for x in walk(t['body']) if is_panic(x)]
        def stdout_write(e):
            while e['k'] in ('Use', 'NeverToAny', 'Scope'): e = e.get('source') or e.get('value')
            if e['k'] != 'Call' or __import__('facts').callee_decl(e) != 'std::io::Write::write_fmt' or not e['args']: return False
            a = e['args'][0]
            while True:
                if 'std::io::Stdout' in str((a.get('ty') or {}).get('s')) and 'Vec' not in str((a.get('ty') or {}).get('s')): return True
                if a['k'] in ('Borrow', 'Deref', 'Use'): a = a.get('arg') or a.get('source'); continue
                return False
        def err_pat(p):
            while p['k'] in ('Deref', 'DerefPattern'): p = p['sub']
            return p['k'] == 'Variant' and p['variant'] == 'Err' and canon(p['adt']) == 'std::result::Result'
        covered = set()
        for e in walk(t['body']):
            if e['k'] == 'If' and e['cond']['k'] == 'Let' and err_pat(e['cond']['pat']) and stdout_write(e['cond']['expr']):
                covered.update(id(x) for x in walk(e['then']))
            if e['k'] == 'Match' and e.get('source') in (None, 'Normal') and stdout_write(e['scrutinee']):
                for a in e['arms']:
                    if err_pat(a['pat']) and a.get('guard') is None: covered.update(id(x) for x in walk(a['body']))
        if panics and all(id(x) in covered for x in panics):
            return 'R16: the panic is the failure arm of a write to standard output (`if let Err(e) = writeln!(stdout, ..) { panic!(..) }`): the outcome println! has'
        return None

    # R11: RefCell accesses cannot conflict (engine G)
    def R11(self, s):
        if not s.what.startswith('RefCell::'): return None
        defs = local_defs(s.body)
        pl = resolve_place(s.body, defs, s.term['args'][0])
        if pl is None: return None
        key = base_struct(s.body, pl)
        if key in self.G_conflict_cells: return None
        return 'R11: engine G found no conflicting access inside any guard region of cell %s.%s' % (key[0].split('::')[-1] if key[0] else '?', '.'.join(map(str, key[1])))

SITE_TABLE = [
    # (function, what-prefix, reason)   -- never wider than one named site kind in one function
    ('rsbdd::bdd::BDDEnv::cmp_count', 'Overflow(Sub', 'R7: `n - 1` per list element; the property bounds n so that n - len does not overflow (after the language-level constant is clamped to i64::MAX >= 0, n - len >= -1 - len > i64::MIN)'),
    ('rsbdd::bdd::BDDEnv::cmp_count_compare', 'Overflow(Add', 'R7: `n + 1` per list element starting from -1, 0 or 1: bounded by the list length'),
    ('rsbdd::bdd::BDDEnv::cmp_count', 'Overflow(Add', 'R7: the counter moves by one per list element (either direction when the two ladders share a helper); the property bounds n so that n +/- len stays in range'),
    ('rsbdd::bdd::BDDEnv::cmp_count_compare', 'Overflow(Sub', 'R7: the counter moves by one per list element (either direction when the two ladders share a helper); starting from -1, 0 or 1 it stays within the list length'),
    ('rsbdd::parser::SymbolicBDD::tokenize', 'Overflow(Add', 'ids of a preloaded ordering are positions of first appearance on the CLI path (< token count); API callers: documented precondition `distinct ids` below usize::MAX; the fresh-id counter grows by one per distinct name'),
    ('rsbdd::parser::ParsedFormula::to_free_index::{closure#', 'panic', 'every symbol of an evaluated diagram is a free variable (C09: bound names never leak, engine S/O); cross-property assumption'),
    ('rsbdd::stats', 'Iterator::sum<Duration>', 'sum of <= `repeat` measured elapsed times; Duration holds u64 seconds'),
    ('rsbdd::stats', 'Index on std::vec::Vec', 'R9: stats is reached only under `repeat > 0` and exec_times has one entry per repetition, so len/2 < len'),
    ('rsbdd::stats', 'expect', 'R9: min/max of a non-empty vector (same guard `repeat > 0` at the only call chain)'),
    ('rsbdd::plot_performance_results', 'expect', 'stdin handle exists because Stdio::piped() is set on the same builder before spawn (std contract)'),
    ('rsbdd::print_header', 'Overflow(Add', 'R6: string lengths / column widths (<= isize::MAX) plus constants <= 2'),
    ('rsbdd::<parser_io::SymbolicParseTree as bdd_io::dot::Labeller>::node_label', 'Index on std::vec::Vec', 'n comes from nodes() = 0..self.nodes.len() through the dot callback (dot crate contract)'),
    ('rsbdd::<bdd_io::BDDGraph as bdd_io::dot::Labeller>::node_id', 'expect', 'R8: dot::Id::new on the constants "n_true" / "n_false" (identifier characters only; built through to_string)'),
]

def r9_guard(F):
    """R9, decided: the run-time statistics (`stats`, which indexes the middle of the sample vector and takes its min/max) are reached
    only when at least one sample exists.  Every call of print_performance_results / plot_performance_results / stats from main must
    sit under a condition that implies T > 0, where T is the bound of the loop `for _ in 0..T` that pushes one sample per iteration
    into the vector passed on.  Returns (ok, explanation)."""
    import flow
    from engine_x import unwrap_pat, root_var
    from engine_e import strip
    binc = F.bin()
    main = binc.ithir.get('rsbdd::main') if binc else None
    if main is None: return False, 'main not found'
    fl = flow.Flow(binc)
    CH = ('rsbdd::print_performance_results', 'rsbdd::plot_performance_results', 'rsbdd::stats')
    calls = []
    flow.scan(fl, main['body'], {}, lambda x: x.get('k') == 'Call' and callee_name(x) in CH, calls)
    if not calls: return False, 'no call of the statistics functions found in main'
    # sampling loops: for _ in 0..T { .. V.push(..) .. } with exactly one unguarded push
    loops = []
    rng = []
    flow.scan(fl, main['body'], {}, lambda x: x.get('k') == 'Match' and x.get('source') == 'ForLoopDesugar', rng)
    for node, env in rng:
        sc = strip(node['scrutinee'])
        it = strip(sc['args'][0]) if sc['k'] == 'Call' and sc['args'] else None
        if it is None: continue
        if it['k'] == 'Adt' and canon(it['adt']) == 'std::ops::Range':
            lo = [f['expr'] for f in it['fields'] if f['name'] == 'start'][0]; hi = [f['expr'] for f in it['fields'] if f['name'] == 'end'][0]
            if fl.ev(lo, env) != ('lit', '0'): continue             # 0..T: T iterations
        elif it['k'] == 'Call' and callee_name(it) == 'std::ops::RangeInclusive::new':
            lo, hi = it['args']
            if fl.ev(lo, env) != ('lit', '1'): continue             # 1..=T: T iterations
        else:
            continue
        T = fl.ev(hi, env)
        body = None
        for m_ in walk(node['arms'][0]['body']):
            if m_['k'] == 'Match' and m_.get('source') == 'ForLoopDesugar':
                for a_ in m_['arms']:
                    p_ = unwrap_pat(a_['pat'])
                    if p_['k'] == 'Variant' and p_['variant'] == 'Some': body = a_['body']
                break
        if body is None: continue
        pushes = [x for x in walk(body) if x['k'] == 'Call' and callee_name(x) == 'std::vec::Vec::push']
        guarded = [x for x in walk(body) if x['k'] in ('If', 'Break', 'Continue', 'Return', 'Loop') or (x['k'] == 'Match' and x.get('source') == 'Normal')]
        if len(pushes) == 1 and not guarded: loops.append((T, root_var(pushes[0]['args'][0])))
    # `while samples.len() < T { .. samples.push(..) .. }`: on exit the vector holds at least T samples
    wl = []
    flow.scan(fl, main['body'], {}, lambda x: x.get('k') == 'Loop', wl)
    for node, env in wl:
        b = node['body']
        while b['k'] in ('Use', 'NeverToAny') or (b['k'] == 'Block' and not b['stmts'] and b['expr'] is not None): b = b['source'] if b['k'] != 'Block' else b['expr']
        if b['k'] != 'If' or b.get('else') is None or b['cond']['k'] == 'Let': continue
        el = b['else']
        for _ in range(8):
            if el['k'] in ('Use', 'NeverToAny'): el = el['source']
            elif el['k'] == 'Block' and not el['stmts'] and el['expr'] is not None: el = el['expr']
            elif el['k'] == 'Block' and len(el['stmts']) == 1 and el['expr'] is None and el['stmts'][0]['k'] == 'Expr': el = el['stmts'][0]['expr']
            else: break
        if el['k'] != 'Break': continue
        c = strip(b['cond'])
        if not (c['k'] == 'Binary' and c['op'] in ('Lt', 'Gt')): continue
        small, big = (c['lhs'], c['rhs']) if c['op'] == 'Lt' else (c['rhs'], c['lhs'])
        sm = strip(small)
        if not (sm['k'] == 'Call' and (callee_name(sm) or '').split('::')[-1] == 'len' and root_var(sm['args'][0]) is not None): continue
        W = root_var(sm['args'][0])
        pushes = [x for x in walk(b['then']) if x['k'] == 'Call' and callee_name(x) == 'std::vec::Vec::push' and root_var(x['args'][0]) == W]
        other = [x for x in walk(b['then']) if x['k'] == 'Call' and (callee_name(x) or '').split('::')[-1] in ('pop', 'clear', 'truncate', 'remove', 'drain', 'swap_remove') and x['args'] and root_var(x['args'][0]) == W]
        if pushes and not other: loops.append((fl.ev(big, env), W))
    if not loops: return False, 'no sampling loop `for _ in 0..T { samples.push(..) }` found'
    # variables that stand for a sample vector W (directly, or returned in a tuple from an inlined helper block)
    def aliases(W):
        out = {W}
        changed = True
        while changed:
            changed = False
            for b in walk(main['body']):
                if b['k'] != 'Block': continue
                for st in b['stmts']:
                    if st['k'] != 'Let' or st.get('init') is None: continue
                    q = unwrap_pat(st['pat']); i0 = st['init']
                    while i0['k'] in ('Use', 'NeverToAny') or (i0['k'] == 'Block' and i0['expr'] is not None): i0 = i0['source'] if i0['k'] != 'Block' else i0['expr']
                    if q['k'] == 'Binding' and root_var(i0) in out and q['var'] not in out: out.add(q['var']); changed = True
                    if q['k'] == 'Leaf' and 'adt' not in q and i0['k'] == 'Tuple':
                        for sp in q['subs']:
                            b_ = unwrap_pat(sp['pat'])
                            if b_['k'] == 'Binding' and sp['field'] < len(i0['fields']) and root_var(i0['fields'][sp['field']]) in out and b_['var'] not in out:
                                out.add(b_['var']); changed = True
        return out
    def alpha(t):
        """a term with the variables its own optcase / optmap binders introduce renumbered in order of appearance: two evaluations of one
        expression (one per scan) differ only in those numbers"""
        ren = {}
        def go(x):
            if not isinstance(x, tuple): return x
            if x and x[0] in ('optcase', 'optmap') and len(x) >= 4 and isinstance(x[2], tuple) and x[2][:1] == ('bound',):
                src = go(x[1])
                ren[x[2]] = ('bound', 'a%d' % len(ren))
                return (x[0], src) + tuple(go(y) for y in x[2:])
            if x in ren: return ren[x]
            return tuple(go(y) for y in x)
        return go(t)
    def positive(cond, T):
        """does cond imply T > 0 ?"""
        if cond[0] == 'bin' and cond[2] != T and cond[3] != T:
            T_ = alpha(T)
            if alpha(cond[2]) == T_: cond = (cond[0], cond[1], T, cond[3])
            elif alpha(cond[3]) == T_: cond = (cond[0], cond[1], cond[2], T)
        if cond[0] == 'logic' and cond[1] == 'And': return positive(cond[2], T) or positive(cond[3], T)
        if cond[0] == 'bin' and cond[2] == T and cond[3][0] == 'lit':
            try: k = int(cond[3][1])
            except (TypeError, ValueError): return False
            return (cond[1] == 'Gt' and k >= 0) or (cond[1] == 'Ge' and k >= 1) or (cond[1] == 'Ne' and k == 0)
        if cond[0] == 'bin' and cond[3] == T and cond[2][0] == 'lit':
            try: k = int(cond[2][1])
            except (TypeError, ValueError): return False
            return (cond[1] == 'Lt' and k >= 0) or (cond[1] == 'Le' and k >= 1)
        if cond[0] == 'call' and cond[1] == 'std::option::Option::is_some_and' and len(cond[2]) == 2 and cond[2][1][0] == 'closure':
            # opt.is_some_and(|r| r > 0) with T = opt.unwrap_or(_): opt is Some(r) with r > 0, so T = r > 0
            ct = binc.ithir.get(cond[2][1][1])
            if ct is not None and len(ct['params']) == 2 and T[0] == 'call' and T[1] == 'std::option::Option::unwrap_or' and T[2][0] == cond[2][0]:
                pv = unwrap_pat(ct['params'][1]['pat']).get('var')
                b = fl.ev(ct['body'], {pv: ('bound', 0)})
                return positive(b, ('bound', 0))
        return False
    # only calls that lead to `stats` need the samples (a report function that is handed the finished statistics does not index anything)
    def reaches_stats(fn, seen=()):
        if fn == 'rsbdd::stats': return True
        t_ = binc.ithir.get(fn)
        if t_ is None or fn in seen: return False
        return any(x['k'] == 'Call' and callee_name(x) in binc.ithir and reaches_stats(callee_name(x), seen + (fn,)) for x in walk(t_['body']))
    for node, env in calls:
        if not reaches_stats(callee_name(node)): continue
        args_ = [root_var(a) for a in node['args']]
        ok = False
        for T, W in loops:
            if any(a is not None and a in aliases(W) for a in args_) and any(pol and positive(c, T) for c, pol in env.get('#conds', ())): ok = True
        if not ok:
            return False, 'the call of %s at %s is not under a condition that implies at least one sample (conditions: %s)' % (
                callee_name(node).split('::')[-1], node.get('loc'), [(flow.show(c)[:80], p) for c, p in env.get('#conds', ())])
    return True, 'R9: every call of the statistics functions is under a condition implying T > 0 for the loop `for _ in 0..T` that pushes the samples (%d call(s), %d sampling loop(s))' % (len(calls), len(loops))

R9_STATE = [None]

def id_format_reason(s, F):
    """R13 (decided): the panic behind `dot::Id::new(format!(..)).unwrap_or_else(|_| panic!(..))` in a node_id callback is dead when every id
    the format can produce is a dot identifier ([A-Za-z_][A-Za-z0-9_]*): the literal pieces consist of identifier characters, the text
    starts with a letter or `_`, and every hole renders a pointer (`{:p}`: 0x + hex digits) or an integer - not a variable name or
    any other text the user controls"""
    import re as _re
    base = s.fn.split('::{closure')[0]
    if F is None: return None
    if not base.endswith('Labeller>::node_id'):
        # a helper `fn fixed_id(name: &'static str) -> Id { Id::new(name).unwrap_or_else(|e| panic!(..)) }`: dead when every caller passes an identifier
        import facts as _facts
        if base in _facts.baseline_fns(): return None
        th = None
        for c in F.crates:
            th = c.thir.get(base) or th
        if th is None: return None
        pvars = [p['pat']['var'] for p in th['params'] if 'pat' in p and p['pat'].get('k') == 'Binding']
        news = [e for e in walk(th['body']) if e['k'] == 'Call' and (callee_name(e) or '').endswith('dot::Id::new')]
        def rootv(x):
            while x['k'] in ('Use', 'Borrow', 'Deref', 'NeverToAny', 'PointerCoercion') or (x['k'] == 'Call' and x['args'] and (callee_name(x) or '').split('::')[-1] in ('to_string', 'into', 'to_owned', 'from', 'clone')):
                x = x.get('source') or x.get('arg') or x['args'][0]
            return x.get('var') if x['k'] in ('VarRef', 'UpvarRef') else None
        if len(news) != 1 or rootv(news[0]['args'][0]) not in pvars: return None
        idx = pvars.index(rootv(news[0]['args'][0]))
        lits = []
        for c in F.crates:
            for nm, t2 in c.thir.items():
                for e in walk(t2['body']):
                    if e['k'] == 'Call' and callee_name(e) == base:
                        a = e['args'][idx]
                        while a['k'] in ('Use', 'Borrow', 'Deref', 'NeverToAny', 'PointerCoercion'): a = a.get('source') or a.get('arg')
                        if a['k'] == 'Literal' and a.get('lit') == 'Str' and _re.fullmatch(r'[A-Za-z_][A-Za-z0-9_]*', a['value']): lits.append(a['value'])
                        else: return None
        if not lits: return None
        return 'R13: the helper builds ids only from the constant identifiers %s' % sorted(set(lits))
    t = None
    for c in F.crates:
        t = getattr(c, 'ithir', c.thir).get(base) or t
    if t is None: return None
    news = [e for e in walk(t['body']) if e['k'] == 'Call' and (callee_name(e) or '').endswith('dot::Id::new')]
    formatted = 0
    for e in news:
        tm = [x for x in walk(e) if x['k'] == 'Literal' and x.get('lit') == 'ByteStr']
        if not tm: continue             # a constant id: rule R8
        formatted += 1
        bs = tm[0]['value']; i = 0; pieces = []; holes = 0
        while i < len(bs):
            b = bs[i]
            if b == 0: break
            if b == 0xC0: holes += 1; pieces.append(None); i += 1; continue
            if b >= 0x80: return None                      # a format directive with options: not read
            pieces.append(bytes(bs[i + 1:i + 1 + b]).decode('utf-8', 'replace')); i += 1 + b
        if not pieces or pieces[0] is None or not _re.fullmatch(r'[A-Za-z_][A-Za-z0-9_]*', pieces[0]): return None
        if any(p is not None and not _re.fullmatch(r'[A-Za-z0-9_]*', p) for p in pieces): return None
        wrappers = [x for x in walk(e) if x['k'] == 'Call' and (callee_name(x) or '').split('::')[-1] in ('new_pointer', 'new_display', 'new_debug', 'new_lower_hex', 'new_upper_hex', 'new_octal', 'new_binary', 'new_lower_exp', 'new_upper_exp') and 'Argument' in (callee_name(x) or '')]
        if len(wrappers) != holes: return None
        for w in wrappers:
            kind = (callee_name(w) or '').split('::')[-1]
            if kind == 'new_pointer': continue
            ty = w['args'][0]['ty']
            while ty.get('k') == 'Ref': ty = ty['to']
            if kind in ('new_display', 'new_lower_hex', 'new_upper_hex') and ty.get('k') == 'Uint': continue
            return None
    if not formatted: return None
    return 'R13: every id the format can produce is a dot identifier (identifier characters around pointer / unsigned-integer holes only)'

def site_table_reason(s, F=None):
    r13 = id_format_reason(s, F) if s.what.startswith('panic') else None
    if r13: return r13
    if s.fn == 'rsbdd::stats' and s.what.startswith(('Index', 'expect', 'BoundsCheck')):
        if F is None: return None
        if R9_STATE[0] is None or R9_STATE[0][0] is not F:
            R9_STATE[0] = (F, r9_guard(F))
        ok, why = R9_STATE[0][1]
        return why if ok else None
    base = s.fn.split('::{closure')[0]
    for (fn, what, reason) in SITE_TABLE:
        if (s.fn == fn or base == fn.split('::{closure')[0]) and s.what.startswith(what):
            return 'site table: ' + reason
    return None

#!/usr/bin/env python3
"""Regenerates /verif/MANIFEST.json from the table below (kept in one place so that it stays valid and in sync)."""
import json, os
V = os.path.dirname(os.path.dirname(os.path.abspath(__file__)))
props = [json.loads(l) for l in open(os.path.join(V, 'properties.jsonl'))]

NOTE_COMMON = 'Trusted: rustc nightly THIR/MIR; the fact extractor /verif/driver; the rule engines and specification tables under /verif/rules; meta-theorems M1-M4, M6 (DESIGN.md section 4).'

CLAIMS = {
 'C01': ('other', 'S+T', 'Dispatch chain spelling->token->operator->BDDEnv operation->truth function decided for every construct (tables vs documented tables; evaluator arm-by-arm against the documented function of its children; no lossy cast between constant and bound). Right level: the remaining semantics is proved per operation in C03-C06 and the tree shape in C08.', 'summary-based abstract interpretation of THIR (engine S) + constant-match table extraction (engine T)'),
 'C02': ('other', 'O+E+H+X', 'Inductive invariant ordered+reduced decided through its code-dependent premises: every mk_choice call site order-respecting in all abstract worlds, all nodes born in mk_choice after simplify with key==*value interning, Eq/Ord/Hash key agreement. Canonicity then follows by Bryant\'s theorem (assumed). Also: distinct variable names get distinct ids (fresh-id counter invariant).', 'order/support abstract interpretation at mk_choice sites + who-may-construct rules over resolved THIR'),
 'C03': ('proof', 'S+T+A+X', 'Inductive proof for all operand diagrams, symbol orders and symbol types that each connective returns its truth function: per-arm propositional obligations generated from THIR and decided by truth table; induction justified by a size-change check. Language level: every spelling of the connectives, the token-to-operator table, constructor provenance and syntax of the connective forms, the evaluator arms, distinct ids for distinct names.', 'summary-based abstract interpretation with inductive summaries (engine S), exhaustive world enumeration'),
 'C04': ('proof', 'S+O+T+A+X', 'Inductive proof of exists_impl in the cofactor-pair domain plus term identity of exists/all with their defining fold/dual; support facts (quantified symbol absent) by the order/support abstraction. Language level: the quantifier keywords, constructor provenance and syntax of the quantifier forms, the evaluator and substitution arms for quantifiers, distinct ids for distinct names.', 'engine S in the cofactor-pair domain + support abstraction'),
 'C05': ('proof', 'S+T+P+X', 'List-inductive proof with linear-integer normal forms for every n (mathematical integers) of the counting operations, plus the language-level offsets, operator table and lossy-cast rule. Also: substitution arms for the counting nodes; no overflow-capable arithmetic on the comparison constant in the evaluator; distinct ids for distinct names.', 'engine S with linear-integer atoms decided by interval splitting + table extraction'),
 'C06': ('other', 'S+T+A', 'Code-dependent premises of Kleene iteration: fp loop shape by one symbolic iteration, start values, transformer = eval(body[X:=Subtree y]), capture-free substitution. Least/greatest-ness itself is mathematics and not claimed.', 'loop-shape rule by one symbolic iteration + engine S on replace_var/eval_recursive + tables'),
 'C07': ('other', 'S+X+T', 'model(a) => a pointwise by induction over all shapes; leaf/False-return/cube-shape structure; infer mapping; -m applied before every printer. "False iff unsatisfiable" additionally uses canonicity (assumed). Because `-m -t` prints the model of the formula as a table row, the shared links are included: language front end, evaluator and operations (C01/C03/C04/C05 proofs), free-variable analysis, table printer rules, option-argument provenance.', 'engine S with implication summaries + CLI dataflow rule'),
 'C08': ('other', 'A+T', 'Error discipline (no swallowed parse error), language equivalence of the extracted grammar with the reference grammar by automata product, constructor provenance, token tables and regex alternation order. Token-level; the regex engine on arbitrary Unicode is not decided.', 'path extraction from recursive descent + DFA equivalence + provenance rule'),
 'C09': ('other', 'S+X+T', 'var_is_free against the textbook definition for all in-scope constructors; vars/free_vars construction; quantified symbols absent from results. Also the language front end (token tables, operator tables, tokenizer regex, matched text = captured text).', 'engine S on var_is_free + dataflow rules'),
 'C10': ('other', 'X+T+S', 'Branch polarity, row-filter predicate truth table, index-domain typing of every column access, single parse path, model/retain before printing, filter spellings. Also: --filter reaches the printer and is handed down unchanged (value provenance); the rows are those of the formula: front end, evaluator and operations, model and retain are included.', 'sibling/polarity rules, finite predicate evaluation, index-domain typing'),
 'C11': ('other', 'X+H+S', 'Fresh-id counter invariant, id-based column lookup, ordering dataflow, -r sort; order-genericity of the semantic proofs is provided by C01-C05/C07/C20. The operation proofs (evaluator, C03/C04/C05 operations, fp), which hold for an arbitrary total order, are run here as the semantic core.', 'statement-pattern invariant check + dataflow + index-domain typing'),
 'C12': ('other', 'P+G+S', 'Exhaustive MIR inventory of panic-capable sites reachable from parse/eval/CLI, each discharged by a named rule or a one-site table entry; new sites are violations by construction. Guards named by a discharge reason are decided (statistics only with at least one sample: value provenance of the condition and of the sampling loop); the free-variable analysis, the capture-free substitution and the quantifier support facts (what C09 proves) are proved here too because the discharge of a panic site depends on them.', 'panic-site inventory on MIR with rule-based discharge + RefCell guard-region analysis'),
 'C13': ('other', 'E+G+S+H', 'Single writer / key==*value / no removal / immutable Freeze nodes / result provenance / purity / no re-entrancy under the table borrow. Also: new_with_env keeps the environment it was given (provenance of the env field), Eq/Ord/Hash of the symbol read the same key, get_hash is structural, distinct names get distinct ids, the exported diagram shows a shared node once.', 'who-may-write/construct rules over the resolved call graph, Freeze query, guard regions'),
 'C14': ('other', 'X+T', 'T/F polarity, leaf declared <=> edge emitted for all filter x child kinds, child coverage and distinct labels for all 12 syntax-node kinds. Also: labels are plain text escaped by the dot writer, node and edge lists are de-duplicated, child lists walked element by element, --filter reaches BDDGraph::new unchanged, output files are created truncating, filter spellings.', 'sibling-agreement rules over THIR matches'),
 'C15': ('proof', 'N+L+X+T', 'Affine loop-nest analysis symbolic in n: every constraint list is proved (Fourier-Motzkin on the loop bounds, polynomial normal form of the index) to be a whole row, column, diagonal or anti-diagonal with the right operator, and the families to cover all lines, for all n >= 1; plus the integer-width clause. Text-level well-formedness of the output is not decided. Also: the output file is created truncating; the language front end, the evaluator and operations, and the listing chain (-t/-v/-f) through which the models of the emitted formula are observed.', 'polyhedral-style loop-nest analysis (polynomial normal form + Fourier-Motzkin) + MIR operand-type rule'),
 'C16': ('other', 'L+X+T', 'Complement-edge guard truth table vs specification, same-list provenance of both constraint copies, --all switch, vertex lists. Roles of variables are found by what they do (not by spelling), storage up to local aliasing; emitted templates as token skeletons; every record endpoint is a vertex; truncating output; language front end, evaluator and operations, listing chain.', 'path-condition extraction + truth-table evaluation'),
 'C17': ('proof', 'U+X+T', 'Constraint-family analysis symbolic in root: every emitted list is proved (polynomial normal form of the cell index, div/mod digit lemma) to be a complete cell/row/column/box family, all four present; hint rule and whitespace stripping checked structurally. Modulo three arithmetic lemmas and the standard sudoku characterisation. Also: the whole input is read (read_to_string on both channels), Unicode whitespace predicate, truncating output, language front end, evaluator and operations, listing chain.', 'loop-nest / constraint-family analysis by polynomial normal forms'),
 'C18': ('other', 'L+X', 'Refuse-not-truncate shape of generate_graph, candidate guards, --complete edge-count polynomials, read_graph and colour-product guards as truth tables. Also: value provenance of the arguments main passes to generate_graph / read_graph under the conditions of each call, the three writer modes with (source, target) order, the colour product vertices, truncating output.', 'path-condition extraction, polynomial normal form, structural match'),
 'C19': ('other', 'S+E+G', 'Operation signatures on the tracked cell (incl. aliased operands), query purity (receiver-sensitive), no guard alive across a may-alias write.', 'engine S with tracked RefCell content + receiver-sensitive effect summary + guard regions'),
 'C20': ('proof', 'S+O+X+T+E', 'Per filter value, inductive proof of the implication direction over all child shapes; order obligations at the 3 mk_choice sites; support within support(f). Also: --retain-choices reaches retain_choice_bottom_up unchanged (value provenance), its spellings, and every rebuilt node goes through mk_choice.', 'engine S with implication summaries per filter value'),
}
NA = {
}
SECTION = {p: 'section 4, %s' % p for p in CLAIMS}

checks = []
for p in props:
    pid = p['id']
    if pid not in CLAIMS: continue
    cat, eng, text, tech = CLAIMS[pid]
    checks.append({
        'property_id': pid,
        'quick_cmd': './check %s --tier quick' % pid,
        'thorough_cmd': './check %s --tier thorough' % pid,
        'evidence_file': '/verif/evidence/%s.json' % pid,
        'replay_cmd_template': './check --explain {path}',
        'engine': eng,
        'level_claimed': {'category': cat, 'text': text, 'design_ref': 'DESIGN.md ' + SECTION[pid]},
        'level_note': NOTE_COMMON + ' Clauses not decided are listed in DESIGN.md section 4 under the property and in the evidence explanation.',
        'technique': 'static analysis: ' + tech,
    })
m = {
 'version': 1,
 'setup_cmd': './setup.sh',
 'hooks': {'guard': 'rsbdd_verif', 'enable': 'none needed: the checks read /repo\'s type-checked program through a rustc_private driver (RUSTC_WORKSPACE_WRAPPER under cargo +nightly check); /repo carries no instrumentation',
           'baseline_off_cmd': 'cd /repo && cargo test --workspace --no-fail-fast --offline', 'source_commits': [], 'add_only': True},
 'engines': [
  {'name': 'F', 'path': 'driver/', 'serves_properties': sorted(CLAIMS), 'kind_free_text': 'rustc_private fact extractor (items, THIR, MIR as JSON)'},
  {'name': 'S/O', 'path': 'rules/absint.py rules/engine.py rules/logic.py rules/spec_*.py', 'serves_properties': ['C01', 'C02', 'C03', 'C04', 'C05', 'C06', 'C07', 'C09', 'C12', 'C13', 'C19', 'C20'], 'kind_free_text': 'summary-based abstract interpreter over THIR with inductive summaries; order/support abstraction'},
  {'name': 'E/H', 'path': 'rules/engine_e.py', 'serves_properties': ['C02', 'C11', 'C13'], 'kind_free_text': 'who-may-X, Freeze, purity, key agreement'},
  {'name': 'G', 'path': 'rules/engine_g.py', 'serves_properties': ['C12', 'C13', 'C19'], 'kind_free_text': 'RefCell guard regions on MIR; receiver-sensitive write summaries'},
  {'name': 'P', 'path': 'rules/engine_p.py', 'serves_properties': ['C12'], 'kind_free_text': 'panic-site inventory and discharge'},
  {'name': 'T', 'path': 'rules/engine_t.py', 'serves_properties': ['C01', 'C05', 'C06', 'C08', 'C10'], 'kind_free_text': 'table agreement, tokenizer regex structure'},
  {'name': 'A', 'path': 'rules/engine_a.py', 'serves_properties': ['C06', 'C08'], 'kind_free_text': 'parser error discipline, grammar equivalence, constructor provenance'},
  {'name': 'X', 'path': 'rules/engine_x.py', 'serves_properties': ['C07', 'C09', 'C10', 'C11', 'C12', 'C14'], 'kind_free_text': 'CLI/IO clauses'},
  {'name': 'L', 'path': 'rules/engine_l.py', 'serves_properties': ['C15', 'C16', 'C17', 'C18'], 'kind_free_text': 'generator guards, integer width'},
  {'name': 'N/U', 'path': 'rules/engine_n.py rules/engine_u.py', 'serves_properties': ['C15', 'C17'], 'kind_free_text': 'affine loop-nest and constraint-family analysis (polynomial normal forms, Fourier-Motzkin)'},
 ],
 'checks': checks,
 'not_applicable': [{'property_id': k, 'reason': v} for k, v in NA.items()],
 'notes': 'Technique family: static analysis only. Every check extracts facts from /repo\'s current working tree (content-hash keyed cache under /verif/.cache) and runs rule engines; nothing from /repo is executed. thorough = quick plus: positive controls (every must-fire mutant / must-stay-silent refactor of selftest/cases.py that targets the property is applied to a scratch copy of the tree under analysis and analysed; a control that does not behave as expected fails the check), for C12 the clippy cross-reference of the panic-site inventory, for C13 the nightly doc-test witnesses of /verif/witness.',
}
json.dump(m, open(os.path.join(V, 'MANIFEST.json'), 'w'), indent=1)
print('wrote MANIFEST.json with %d checks, %d not_applicable' % (len(checks), len(NA)))

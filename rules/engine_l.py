"""Engine L: clauses of the puzzle / graph generators (C15, C16, C18).
Guards of `push` sites are extracted as path conditions and evaluated as truth tables over their atoms."""

from fractions import Fraction
from facts import canon, walk, callee_name, callee_decl, pp, children
from engine_e import strip
from engine_x import unwrap_pat, root_var

NARROW = ('u8', 'u16', 'i8', 'i16')
ARITH = ('Add', 'Sub', 'Mul', 'AddWithOverflow', 'SubWithOverflow', 'MulWithOverflow', 'AddUnchecked', 'SubUnchecked', 'MulUnchecked', 'Shl', 'Div', 'Rem')

def rule_width(F, R, crate_name):
    """L-W: no index arithmetic in an integer type narrower than 32 bits"""
    c = F.crate(crate_name)
    if c is None:
        R.violation('%s / L-W / anchor' % crate_name, 'UNDECIDABLE', 'crate %s not found' % crate_name); return
    n = 0
    for name, body in c.mir.items():
        if '<Args as clap::' in name: continue
        per = {}
        for b in body['blocks']:
            if b['cleanup']: continue
            for s in b['stmts']:
                if s['k'] == 'Assign' and s['rv'].get('k') == 'BinaryOp' and s['rv']['op'] in ARITH:
                    n += 1
                    ty = s['rv']['operand_ty']
                    R.count('L-W:arithmetic-sites')
                    ok = ty not in NARROW
                    R.obligation(ok, None)
                    if not ok:
                        k = '%s / L-W / %s in %s' % (name, s['rv']['op'].replace('WithOverflow', ''), ty)
                        per[k] = per.get(k, 0) + 1
                        if per[k] == 1:
                            R.violation(k, 'L-W', 'cell-index arithmetic (%s) is carried out in %s: indices reach n*n-1, which does not fit for n >= 256' % (s['rv']['op'], ty), s['loc'])
    # loop variables must not be narrow either (Range<u16> iteration keeps the arithmetic narrow)
    for name, t in c.ithir.items():
        if '<Args as clap::' in name: continue
        for e in walk(t['body']):
            if e['k'] == 'Adt' and canon(e['adt']) in ('std::ops::Range', 'std::ops::RangeInclusive'):
                tys = [f['expr']['ty']['s'] for f in e['fields']]
                R.count('L-W:ranges')
                ok = not any(x in NARROW for x in tys)
                R.obligation(ok, None)
                if not ok:
                    R.violation('%s / L-W / narrow range' % name, 'L-W', 'loop range over %s' % tys, e['loc'])
    if n == 0:
        R.violation('%s / L-W / VACUITY' % crate_name, 'VACUITY', 'no index arithmetic found in %s' % crate_name)

# ------------------------------------------------------------------------------------------------ path conditions
def push_sites(t, target_pred):
    """yield (call expr, [(cond expr, polarity)]) for every call satisfying target_pred, with the enclosing If conditions"""
    out = []
    def rec(e, conds):
        if not isinstance(e, dict): return
        if e['k'] == 'Call' and target_pred(e): out.append((e, list(conds)))
        if e['k'] == 'If':
            c = e['cond']
            if c['k'] == 'Let':
                rec(c['expr'], conds)
                rec(e['then'], conds + [(c, True)])
                if e['else'] is not None: rec(e['else'], conds + [(c, False)])
            else:
                rec(c, conds)
                rec(e['then'], conds + [(c, True)])
                if e['else'] is not None: rec(e['else'], conds + [(c, False)])
            return
        for ch in children(e): rec(ch, conds)
    rec(t['body'], [])
    return out

class Atomizer:
    def __init__(self): self.atoms = {}
    def norm(self, e):
        """readable normal form of a value expression: strips borrows, clones, to_string"""
        e = strip(e)
        while e['k'] == 'Call' and (callee_decl(e) in ('std::clone::Clone::clone', 'std::string::ToString::to_string', 'std::ops::Deref::deref', 'std::convert::AsRef::as_ref',
                                                      'std::borrow::ToOwned::to_owned') or (callee_name(e) or '').endswith('::to_string')) and e['args']:
            e = strip(e['args'][0])
        if e['k'] in ('VarRef', 'UpvarRef'): return e['var'].split('#')[0]
        if e['k'] == 'Tuple': return '(' + ','.join(self.norm(f) for f in e['fields']) + ')'
        if e['k'] == 'Field': return self.norm(e['lhs']) + '.' + str(e.get('field_name', e['field']))
        if e['k'] == 'Index': return '%s[%s]' % (self.norm(e['lhs']), self.norm(e['index']))
        if e['k'] == 'Call' and (callee_decl(e) or '') == 'std::ops::Index::index': return '%s[%s]' % (self.norm(e['args'][0]), self.norm(e['args'][1]))
        if e['k'] == 'Literal': return str(e.get('value'))
        return pp(e)[:40]
    def atom(self, key):
        self.atoms.setdefault(key, len(self.atoms)); return ('atom', key)
    def conv(self, e):
        e = strip(e)
        k = e['k']
        if k == 'LogicalOp': return (e['op'].lower(), self.conv(e['lhs']), self.conv(e['rhs']))
        if k == 'Unary' and e['op'] == 'Not': return ('not', self.conv(e['arg']))
        if k == 'Binary' and e['op'] in ('Eq', 'Ne'):
            a, b = sorted((self.norm(e['lhs']), self.norm(e['rhs'])))
            x = self.atom(('eq', a, b))
            return x if e['op'] == 'Eq' else ('not', x)
        if k == 'Call':
            d = callee_decl(e) or ''; c = callee_name(e) or ''
            if d in ('std::cmp::PartialEq::eq', 'std::cmp::PartialEq::ne'):
                a, b = sorted((self.norm(e['args'][0]), self.norm(e['args'][1])))
                x = self.atom(('eq', a, b))
                return x if d.endswith('eq') else ('not', x)
            if c == 'core::slice::<impl [T]>::contains':
                return self.atom(('in', self.norm(e['args'][1]), self.norm(e['args'][0])))
            if d in ('std::cmp::PartialOrd::lt', 'std::cmp::PartialOrd::gt', 'std::cmp::PartialOrd::le', 'std::cmp::PartialOrd::ge'):
                a, b = self.norm(e['args'][0]), self.norm(e['args'][1])
                op = d.split('::')[-1]
                if op == 'lt': return self.atom(('lt', a, b))
                if op == 'gt': return self.atom(('lt', b, a))
                if op == 'le': return ('not', self.atom(('lt', b, a)))
                return ('not', self.atom(('lt', a, b)))
        if k in ('VarRef', 'UpvarRef', 'Field'): return self.atom(('flag', self.norm(e)))
        if k == 'Literal' and e.get('lit') == 'Bool': return ('const', e['value'])
        raise ValueError('guard construct %s: %s' % (k, pp(e)[:60]))

def ev(t, asg):
    if t[0] == 'atom': return asg[t[1]]
    if t[0] == 'const': return t[1]
    if t[0] == 'not': return not ev(t[1], asg)
    if t[0] == 'and': return ev(t[1], asg) and ev(t[2], asg)
    if t[0] == 'or': return ev(t[1], asg) or ev(t[2], asg)
    raise ValueError(t)

def truth_table(R, fn, what, sites, spec, loc=None, rule='L'):
    """sites: list of path conditions; spec: function(asg-by-key) -> bool.  A = Atomizer shared by all sites."""
    A = Atomizer()
    try:
        conds = []
        for (_call, pcs) in sites:
            cs = []
            for (c, pol) in pcs:
                if c['k'] == 'Let':
                    cs.append(('const', True))      # structural `if let` guards are checked separately
                    continue
                x = A.conv(c)
                cs.append(x if pol else ('not', x))
            conds.append(cs)
    except ValueError as ex:
        R.violation('%s / %s / UNDECIDABLE %s' % (fn, rule, what), 'UNDECIDABLE', 'cannot interpret the guard of %s: %s' % (what, ex), loc); return
    keys = list(A.atoms)
    n = len(keys)
    bad = []
    for m in range(1 << n):
        asg = {k: bool((m >> i) & 1) for i, k in enumerate(keys)}
        got = any(all(ev(c, asg) for c in cs) for cs in conds)
        try:
            want = spec(asg)
        except KeyError as ke:
            R.violation('%s / %s / %s atoms' % (fn, rule, what), rule, 'guard of %s does not mention %s (atoms found: %s)' % (what, ke, keys), loc); return
        if want is None: continue
        R.count('%s:truth-table-rows' % rule); R.obligation(got == want, '%s %s %s' % (fn, what, m))
        if got != want: bad.append({str(k): v for k, v in asg.items()})
    R.sample({'rule': rule, 'fn': fn, 'what': what, 'atoms': [str(k) for k in keys], 'rows': 1 << n})
    if bad:
        R.violation('%s / %s / %s' % (fn, rule, what), rule, 'guard of %s disagrees with the specification in %d case(s), e.g. %s' % (what, len(bad), bad[0]), loc)

def is_push_to(varprefix):
    def pred(e):
        return callee_name(e) == 'std::vec::Vec::push' and (root_var(e['args'][0]) or '').split('#')[0] == varprefix
    return pred

# ------------------------------------------------------------------------------------------------ C16
def rule_max_clique(F, R):
    c = F.crate('max_clique_gen')
    t = c.ithir.get('max_clique_gen::main') if c else None
    if t is None:
        R.violation('max_clique_gen::main / L / anchor', 'UNDECIDABLE', 'max_clique_gen::main not found'); return
    sites = push_sites(t, is_push_to('edges_complement'))
    R.count('L:complement-push-sites', len(sites))
    # pair-level specification: for two distinct vertices a, b the constraint -(a & b) is emitted (in either orientation, whichever is
    # visited first) iff a and b are NOT adjacent, where adjacent = (-u ? E(a,b) or E(b,a) : E(a,b) and E(b,a)); never for a == b
    A = Atomizer()
    try:
        conds = []
        for (_call, pcs) in sites:
            cs = []
            for (c_, pol) in pcs:
                if c_['k'] == 'Let': cs.append(('const', True)); continue
                x = A.conv(c_)
                cs.append(x if pol else ('not', x))
            conds.append(cs)
    except ValueError as ex:
        R.violation('max_clique_gen::main / L / UNDECIDABLE complement-edge insertion', 'UNDECIDABLE', 'cannot interpret the guard of the complement-edge insertion: %s' % ex, t['span']['loc']); return
    known = {('eq', 'v1', 'v2'), ('flag', 'is_undirected'), ('in', '(v1,v2)', 'edges'), ('in', '(v2,v1)', 'edges'), ('in', '(v2,v1)', 'edges_complement'),
             ('in', '(v1,v2)', 'edges_complement'), ('lt', 'v1', 'v2'), ('lt', 'v2', 'v1')}
    unknown = [k for k in A.atoms if k not in known]
    if unknown:
        R.violation('max_clique_gen::main / L / UNDECIDABLE guard atoms', 'UNDECIDABLE', 'the complement-edge guard depends on %s, which the specification does not mention' % unknown, t['span']['loc']); return
    def g(asg): return any(all(ev(c_, asg) for c_ in cs) for cs in conds)
    def orient(U, Eab, Eba, L, Cba, Cab, first):
        # first=True: (v1,v2) = (a,b); else (b,a)
        e12, e21 = (Eab, Eba) if first else (Eba, Eab)
        return {('eq', 'v1', 'v2'): False, ('flag', 'is_undirected'): U, ('in', '(v1,v2)', 'edges'): e12, ('in', '(v2,v1)', 'edges'): e21,
                ('in', '(v2,v1)', 'edges_complement'): Cba if first else Cab, ('in', '(v1,v2)', 'edges_complement'): Cab if first else Cba,
                ('lt', 'v1', 'v2'): L if first else (not L), ('lt', 'v2', 'v1'): (not L) if first else L}
    bad = []
    for U in (False, True):
        for Eab in (False, True):
            for Eba in (False, True):
                for L in (False, True):
                    adjacent = (Eab or Eba) if U else (Eab and Eba)
                    for ab_first in (True, False):
                        if ab_first:
                            g1 = g(orient(U, Eab, Eba, L, False, False, True)); g2 = g(orient(U, Eab, Eba, L, False, g1, False))
                        else:
                            g1 = g(orient(U, Eab, Eba, L, False, False, False)); g2 = g(orient(U, Eab, Eba, L, g1, False, True))
                        emitted = g1 or g2
                        R.count('L:truth-table-rows'); R.obligation(emitted == (not adjacent), 'L pair %s' % ((U, Eab, Eba, L, ab_first),))
                        if emitted != (not adjacent):
                            bad.append({'-u': U, 'E(a,b)': Eab, 'E(b,a)': Eba, 'a<b': L, '(a,b) visited first': ab_first, 'constraint emitted': emitted})
    # self pairs never produce a constraint
    for m in range(1 << 6):
        asg = {('eq', 'v1', 'v2'): True, ('flag', 'is_undirected'): bool(m & 1), ('in', '(v1,v2)', 'edges'): bool(m & 2), ('in', '(v2,v1)', 'edges'): bool(m & 2),
               ('in', '(v2,v1)', 'edges_complement'): bool(m & 8), ('in', '(v1,v2)', 'edges_complement'): bool(m & 8), ('lt', 'v1', 'v2'): False, ('lt', 'v2', 'v1'): False}
        if g(asg): bad.append({'self pair': True, **{str(k): v for k, v in asg.items()}}); break
    R.sample({'rule': 'L', 'fn': 'max_clique_gen::main', 'what': 'pair-level complement-edge table', 'atoms': [str(k) for k in A.atoms]})
    if bad:
        R.violation('max_clique_gen::main / L / complement-edge insertion', 'L', 'for a pair of vertices the constraint -(a & b) must be emitted iff they are not adjacent; disagreement in %d case(s), e.g. %s' % (len(bad), bad[0]), t['span']['loc'])
    # the pushed pair is (v1, v2)
    for (call, _) in sites:
        a = Atomizer().norm(call['args'][1])
        ok = a == '(v1,v2)'
        R.obligation(ok, None)
        if not ok: R.violation('max_clique_gen::main / L / pushed pair', 'L', 'complement edge pushed as %s, expected (v1,v2)' % a, call['loc'])
    # v1, v2 both range over the same vertex set
    loops = []
    for e in walk(t['body']):
        if e['k'] == 'Match' and strip(e['scrutinee'])['k'] == 'Call' and callee_decl(strip(e['scrutinee'])) == 'std::iter::IntoIterator::into_iter':
            src = root_var(strip(e['scrutinee'])['args'][0])
            binds = [unwrap_pat(a['pat']) for m in walk(e) if m['k'] == 'Match' for a in m['arms']]
            names = []
            for p in binds:
                if p['k'] == 'Variant' and p['variant'] == 'Some' and p['subs']:
                    q = unwrap_pat(p['subs'][0]['pat'])
                    if q['k'] == 'Binding': names.append(q['name'])
            loops.append((src.split('#')[0] if src else None, names[:1]))
    vl = [l for l in loops if l[1] in (['v1'], ['v2'])]
    ok = len(vl) == 2 and vl[0][0] == vl[1][0] == 'vertices'
    R.count('L:vertex-loops', len(vl)); R.obligation(ok, 'L loops')
    if not ok: R.violation('max_clique_gen::main / L / vertex loops', 'L', 'v1 and v2 must both range over `vertices`: %s' % vl)
    # both emissions of the constraints use the same list and project (first, second) in that order
    uses = []
    for e in walk(t['body']):
        if e['k'] == 'Call' and (callee_decl(e) == 'std::iter::IntoIterator::into_iter' or callee_name(e) == 'core::slice::<impl [T]>::iter'):
            v = root_var(e['args'][0])
            if v and v.split('#')[0] == 'edges_complement': uses.append(e['loc'])
    R.count('L:complement-list-readers', len(uses)); R.obligation(len(uses) >= 2, 'L readers')
    if len(uses) < 2: R.violation('max_clique_gen::main / L / constraint copies', 'L', 'the plain and the v_-prefixed constraint blocks must both be generated from edges_complement (found %d readers)' % len(uses))
    # --all replaces the maximality part by `true`
    ok = False
    for e in walk(t['body']):
        if e['k'] == 'If' and strip(e['cond'])['k'] == 'VarRef' and strip(e['cond'])['var'].startswith('show_all'):
            def lits(x):
                out = []
                for y in walk(x):
                    if y['k'] == 'Literal' and y.get('lit') == 'ByteStr': out.append(bytes(y['value']))
                    if y['k'] == 'Literal' and y.get('lit') == 'Str': out.append(y['value'].encode())
                return out
            th = lits(e['then'])
            el_forall = any(b'forall' in b for b in lits(e['else'])) if e['else'] else False
            ok = any(b'true' in b for b in th) and not any(b'forall' in b for b in th) and el_forall
    R.count('L:all-switch'); R.obligation(ok, 'L --all')
    if not ok: R.violation('max_clique_gen::main / L / --all', 'L', 'with --all the maximality conjunct must be replaced by `true`, without it the forall block must be emitted')
    # the quantifier list and both counting lists are produced from `vertices`
    n = 0
    for e in walk(t['body']):
        if e['k'] == 'If' and strip(e['cond'])['k'] == 'VarRef' and strip(e['cond'])['var'].startswith('show_all') and e['else']:
            for x in walk(e['else']):
                if x['k'] == 'Call' and callee_name(x) in ('std::collections::HashSet::iter',) and (root_var(x['args'][0]) or '').startswith('vertices'): n += 1
    R.count('L:vertex-list-uses', n); R.obligation(n == 3, 'L vertices uses')
    if n != 3: R.violation('max_clique_gen::main / L / vertex lists', 'L', 'the forall binder list and the two counting lists must each be generated from `vertices` (found %d uses)' % n)

# ------------------------------------------------------------------------------------------------ C18
def poly_of(e, varname):
    """polynomial in one variable as {power: Fraction}"""
    e = strip(e)
    if e['k'] in ('VarRef', 'UpvarRef'):
        if e['var'].split('#')[0] == varname: return {1: Fraction(1)}
        raise ValueError('unexpected variable ' + e['var'])
    if e['k'] == 'Literal' and e.get('lit') == 'Int': return {0: Fraction(int(e['value']))}
    if e['k'] == 'Binary':
        a, b = poly_of(e['lhs'], varname), poly_of(e['rhs'], varname)
        if e['op'] == 'Add': return padd(a, b)
        if e['op'] == 'Sub': return padd(a, {k: -v for k, v in b.items()})
        if e['op'] == 'Mul':
            out = {}
            for i, x in a.items():
                for j, y in b.items(): out[i + j] = out.get(i + j, 0) + x * y
            return out
        if e['op'] == 'Div' and list(b) == [0] and b[0] != 0 and b[0].denominator == 1:
            # integer division: exact only if the numerator is a multiple of the divisor for EVERY integer value of the variable.
            # An integer-coefficient polynomial is periodic modulo d, so checking one period decides this for all values.
            d = int(b[0])
            if any(c.denominator != 1 for c in a.values()): raise ValueError('division of a non-integer polynomial')
            for r in range(abs(d)):
                if sum(int(c) * r ** k for k, c in a.items()) % d != 0:
                    raise ValueError('integer division `%s / %d` truncates (e.g. when %s = %d mod %d)' % (pp(e['lhs'])[:40], d, varname, r, abs(d)))
            return {k: v / b[0] for k, v in a.items()}
    raise ValueError('not a polynomial: ' + pp(e)[:60])

def padd(a, b):
    out = dict(a)
    for k, v in b.items(): out[k] = out.get(k, 0) + v
    return {k: v for k, v in out.items() if v != 0}

def rule_random_graph(F, R):
    c = F.crate('random_graph_gen')
    if c is None:
        R.violation('random_graph_gen / L / anchor', 'UNDECIDABLE', 'crate not found'); return
    G = 'random_graph_gen::'
    t = c.ithir.get(G + 'generate_graph')
    if t is None:
        R.violation(G + 'generate_graph / L / anchor', 'UNDECIDABLE', 'generate_graph not found')
    else:
        # (a) refuse, never truncate
        body = t['body']
        tail = body['expr'] if body['k'] == 'Block' else None
        ok = False; why = 'the function result is not `if let Some(..) = edges.get(0..num_edges) { Ok(..) } else { Err(..) }`'
        oks = [x for x in walk(body) if x['k'] == 'Adt' and canon(x['adt']) == 'std::result::Result' and x['variant'] == 'Ok']
        if tail is not None and tail['k'] == 'If' and tail['cond']['k'] == 'Let':
            pat = unwrap_pat(tail['cond']['pat']); call = strip(tail['cond']['expr'])
            if pat['k'] == 'Variant' and pat['variant'] == 'Some' and call['k'] == 'Call' and callee_name(call) == 'core::slice::<impl [T]>::get':
                rng = strip(call['args'][1])
                src = root_var(call['args'][0])
                rng_ok = rng['k'] == 'Adt' and canon(rng['adt']) == 'std::ops::Range' and len(rng['fields']) == 2 and \
                    strip(rng['fields'][0]['expr']).get('value') == '0' and (root_var(rng['fields'][1]['expr']) or '').startswith('num_edges')
                bound = unwrap_pat(pat['subs'][0]['pat']).get('var') if pat['subs'] else None
                then_ok = [x for x in walk(tail['then']) if x['k'] == 'Adt' and x['variant'] == 'Ok' and canon(x['adt']) == 'std::result::Result']
                then_uses = then_ok and root_var(then_ok[0]['fields'][0]['expr']) == bound
                else_err = tail['else'] is not None and any(x['k'] == 'Adt' and x['variant'] == 'Err' and canon(x['adt']) == 'std::result::Result' for x in walk(tail['else'])) \
                    and not any(x['k'] == 'Adt' and x['variant'] == 'Ok' and canon(x['adt']) == 'std::result::Result' for x in walk(tail['else']))
                ok = rng_ok and bool(then_uses) and else_err and len(oks) == 1 and (src or '').startswith('edges')
                if not rng_ok: why = 'the slice taken is not 0..num_edges'
                elif len(oks) != 1: why = 'there are %d Ok(..) results; only the checked slice may be returned' % len(oks)
        R.count('L:refuse-not-truncate'); R.obligation(ok, 'L refuse')
        if not ok: R.violation(G + 'generate_graph / L / refuse-not-truncate', 'L', 'an infeasible request must be refused: ' + why, t['span']['loc'])
        # (b) candidates: directed under i != j, undirected from i+1
        sites = push_sites(t, is_push_to('edges'))
        R.count('L:candidate-push-sites', len(sites))
        dir_sites = [s for s in sites if any(c_['k'] != 'Let' and root_var(c_) and root_var(c_).startswith('undirected') and not pol for (c_, pol) in s[1])]
        und_sites = [s for s in sites if any(c_['k'] != 'Let' and root_var(c_) and root_var(c_).startswith('undirected') and pol for (c_, pol) in s[1])]
        ok = len(dir_sites) == 1 and len(und_sites) == 1 and len(sites) == 2
        R.obligation(ok, 'L push sites')
        if not ok: R.violation(G + 'generate_graph / L / candidate sites', 'L', 'expected one candidate insertion per mode (directed / undirected), found %d / %d' % (len(dir_sites), len(und_sites)))
        if ok:
            def spec_dir(a):
                if a[('flag', 'undirected')]: return None
                return not a[('eq', 'i', 'j')]
            truth_table(R, G + 'generate_graph', 'directed candidate (i,j)', dir_sites, spec_dir, t['span']['loc'])
            # undirected: inner iteration source is vertices.get((i + 1)..)
            okU = False
            for (cnd, pol) in und_sites[0][1]:
                if cnd['k'] == 'Let' and pol:
                    call = strip(cnd['expr'])
                    if call['k'] == 'Call' and callee_name(call) == 'core::slice::<impl [T]>::get' and (root_var(call['args'][0]) or '').startswith('vertices'):
                        rng = strip(call['args'][1])
                        if rng['k'] == 'Adt' and canon(rng['adt']) == 'std::ops::RangeFrom':
                            st = strip(rng['fields'][0]['expr'])
                            okU = st['k'] == 'Binary' and st['op'] == 'Add' and (root_var(st['lhs']) or '').startswith('i#') and strip(st['rhs']).get('value') == '1'
            R.count('L:undirected-slice'); R.obligation(okU, 'L undirected slice')
            if not okU: R.violation(G + 'generate_graph / L / undirected candidates', 'L', 'undirected candidates for vertex i must be taken from vertices[(i+1)..] (no self pair, each unordered pair once)')
            for (call, _) in sites:
                a = Atomizer().norm(call['args'][1])
                R.obligation(a == '(v1,v2)', None)
                if a != '(v1,v2)': R.violation(G + 'generate_graph / L / candidate pair', 'L', 'candidate pushed as %s' % a, call['loc'])
    # (c) --complete edge counts
    m = c.ithir.get(G + 'main')
    if m is not None:
        found = False
        for e in walk(m['body']):
            if e['k'] == 'If' and strip(e['cond'])['k'] == 'Field' and strip(e['cond']).get('field_name') == 'undirected' and e['else'] is not None:
                try:
                    th = e['then']; el = e['else']
                    while th['k'] == 'Block' and not th['stmts']: th = th['expr']
                    while el['k'] == 'Block' and not el['stmts']: el = el['expr']
                    pu, pd = poly_of(th, 'vertices'), poly_of(el, 'vertices')
                except (ValueError, TypeError) as ex:
                    if 'truncates' in str(ex):
                        found = True
                        R.count('L:complete-count'); R.obligation(False, 'L complete')
                        R.violation(G + 'main / L / --complete', 'L', '--complete edge count: %s' % ex, e['loc'])
                    continue
                found = True
                ok = pu == {2: Fraction(1, 2), 1: Fraction(-1, 2)} and pd == {2: Fraction(1), 1: Fraction(-1)}
                R.count('L:complete-count'); R.obligation(ok, 'L complete')
                R.sample({'rule': 'L', 'complete graph edge counts': {'undirected': str(pu), 'directed': str(pd)}})
                if not ok: R.violation(G + 'main / L / --complete', 'L', '--complete must request V(V-1)/2 undirected resp. V(V-1) directed edges; got %s / %s' % (pu, pd), e['loc'])
        if not found:
            R.violation(G + 'main / L / --complete anchor', 'UNDECIDABLE', 'cannot find the edge-count expression of --complete')
    # (d) read_graph
    t = c.ithir.get(G + 'read_graph')
    if t is not None:
        sites = push_sites(t, is_push_to('edges'))
        R.count('L:read_graph-push-sites', len(sites))
        def spec(a):
            return not (a[('flag', 'undirected')] and a[('in', '(edge[1],edge[0])', 'edges')])
        truth_table(R, G + 'read_graph', 'edge insertion', sites, spec, t['span']['loc'])
        for (call, _) in sites:
            a = Atomizer().norm(call['args'][1])
            R.obligation(a == '(edge[0],edge[1])', None)
            if a != '(edge[0],edge[1])': R.violation(G + 'read_graph / L / pair', 'L', '--convert must reproduce each edge as given; pushed %s' % a, call['loc'])
    # (e) augment_colors
    t = c.ithir.get(G + 'augment_colors')
    if t is not None:
        sites = push_sites(t, is_push_to('new_edges'))
        R.count('L:colour-push-sites', len(sites))
        def spec(a):
            diffv = not a[('eq', 'ov1', 'ov2')]
            diffc = not a[('eq', 'c1', 'c2')]
            adj = a[('in', '(ov1,ov2)', 'edges')] or a[('in', '(ov2,ov1)', 'edges')]
            return diffv and (diffc or not adj)
        truth_table(R, G + 'augment_colors', 'product-graph edge', sites, spec, t['span']['loc'])

# ------------------------------------------------------------------------------------------------ emitted templates (token level)
def tokenize_text(pattern, text):
    """tokenise a piece of emitted formula text with the repository's tokenizer pattern and the reference token tables;
    placeholders `{}` are read as the identifier ARG; quoted comments vanish, as in the real tokenizer"""
    import re as _re
    from engine_t import REF_SYMBOLS, REF_KEYWORDS
    text = text.replace('{}', 'ARG')
    out = []
    for m in _re.finditer(pattern, text):
        if m.group('symbol') is not None: out.append(REF_SYMBOLS.get(m.group('symbol'), '?' + m.group('symbol')))
        elif m.group('countable') is not None: out.append('NUM:' + m.group('countable'))
        elif m.group('reference') is not None: out.append('REF')
        elif m.group('identifier') is not None:
            w = m.group('identifier')
            out.append(REF_KEYWORDS.get(w, 'VAR:' + w))
        elif m.group('comment') is not None: pass
    return out

def emitted_templates(c, fn_prefix):
    import engine_u
    out = []
    # the function itself and every closure reachable from it (closures of inlined helpers included)
    todo = [fn_prefix]; seen = set()
    while todo:
        name = todo.pop()
        if name in seen or name not in c.ithir: continue
        seen.add(name)
        for x in walk(c.ithir[name]['body']):
            if x['k'] == 'Closure': todo.append(canon(x['def']))
    for name in sorted(seen):
        t = c.ithir[name]
        for x in walk(t['body']):
            if x['k'] == 'Literal' and x.get('lit') == 'ByteStr':
                try: out.append((engine_u.decode_template(x['value']), x['loc']))
                except Exception as ex: out.append(('<undecodable: %s>' % ex, x['loc']))
            if x['k'] == 'Literal' and x.get('lit') == 'Str' and x['loc'].split(':')[0].endswith('main.rs'):
                out.append((x['value'], x['loc']))
    return out

def rule_max_clique_templates(F, R):
    """the pieces of text the generator emits, tokenised with the language's own token table, form the reference skeleton:
    constraints `-(A & B) &` (or `true &`), then `true` (--all) or `forall L # ( -(v_A & v_B) & ... | true ) => [L] >= [L']`"""
    from engine_t import tokenizer_pattern
    c = F.crate('max_clique_gen')
    pat, _ = tokenizer_pattern(F.lib())
    if c is None or pat is None:
        R.violation('max_clique_gen::main / L / templates anchor', 'UNDECIDABLE', 'generator or tokenizer pattern not found'); return
    toks = []
    for text, loc in emitted_templates(c, 'max_clique_gen::main'):
        if text.startswith('<undecodable'):
            R.violation('max_clique_gen::main / L / template', 'UNDECIDABLE', 'format template with directives other than {}: %s' % text, loc); return
        tk = tokenize_text(pat, text)
        if tk and not (len(tk) <= 3 and all(x.startswith('NUM:') for x in tk)):      # skip the version string "0.1.0"
            toks.append((tuple(tk), text, loc))
    got = {}
    for tk, text, loc in toks: got.setdefault(tk, []).append((text, loc))
    V = 'VAR:ARG'; VV = 'VAR:v_ARG'
    want = {
        ('True', 'And'): 'no complement edges: `true &`',
        ('Not', 'OpenParen', V, 'And', V, 'CloseParen', 'And'): 'one constraint `-(A & B) &` per complement edge',
        ('True',): '`true` closing the conjunction (--all) / empty constraint block of the maximality part',
        ('Forall', V, 'Hash', 'OpenParen'): '`forall <v_ copies> # (`',
        ('Not', 'OpenParen', VV, 'And', VV, 'CloseParen'): '`-(v_A & v_B)` per complement edge in the maximality part',
        ('And',): 'constraints of the maximality part joined by `&`',
        ('Comma',): 'list separator',
        (V,): 'the joined constraint block',
        ('CloseParen', 'Implies', 'OpenSquare', V, 'CloseSquare', 'Geq', 'OpenSquare', V, 'CloseSquare'): '`) => [V] >= [v_V]`',
        (VV,): 'v_-prefixed copy of a vertex name',
    }
    for tk, why in want.items():
        ok = tk in got
        R.count('L:template-skeleton-pieces'); R.obligation(ok, 'L tmpl %s' % (tk,))
        if not ok:
            R.violation('max_clique_gen::main / L / template %s' % ' '.join(tk), 'L', 'no emitted piece of text tokenises to %s (%s); pieces found: %s' % (' '.join(tk), why, sorted(' '.join(k) for k in got)))
    extra = [k for k in got if k not in want]
    R.obligation(not extra, 'L tmpl extra')
    for k in extra:
        R.violation('max_clique_gen::main / L / unexpected template %s' % ' '.join(k), 'L', 'emitted text %r tokenises to %s, which is not part of the reference skeleton of the clique formula' % (got[k][0][0], ' '.join(k)), got[k][0][1])
    R.sample({'rule': 'L templates', 'pieces': {' '.join(k): v[0][0] for k, v in got.items()}})

def rule_graph_writers(F, R):
    """C18 writers: every edge of the selection is written once, source first: `a,b` (edge list), `a -- b` inside `graph G {}` when
    undirected, `a -> b` inside `digraph G {}` otherwise; the selection written is the one that was generated / converted / coloured."""
    import engine_u
    c = F.crate('random_graph_gen')
    t = c.ithir.get('random_graph_gen::main') if c else None
    if t is None:
        R.violation('random_graph_gen::main / L / writers anchor', 'UNDECIDABLE', 'random_graph_gen::main not found'); return
    # walk the If-structure on args.dot / args.undirected and collect (context, template, argument fields, iterated variable)
    found = []
    def visit(e, ctx):
        if not isinstance(e, dict): return
        if e['k'] == 'If' and e['cond']['k'] != 'Let':
            cnd = strip(e['cond'])
            neg = False
            while cnd['k'] == 'Unary' and cnd['op'] == 'Not': cnd = strip(cnd['arg']); neg = not neg
            if cnd['k'] == 'Field' and cnd.get('field_name') in ('dot', 'undirected'):
                fn = cnd['field_name']
                visit(e['then'], ctx + [(fn, not neg)])
                if e['else'] is not None: visit(e['else'], ctx + [(fn, neg)])
                return
        if e['k'] == 'Match' and strip(e['scrutinee'])['k'] == 'Call' and callee_decl(strip(e['scrutinee'])) == 'std::iter::IntoIterator::into_iter':
            src = root_var(strip(e['scrutinee'])['args'][0])
            for x in walk(e):
                if x['k'] == 'Call' and (callee_name(x) or '').endswith('write_fmt'):
                    tup = [y for y in walk(x) if y['k'] == 'Tuple' and len(y['fields']) == 2]
                    tm = [y for y in walk(x) if y['k'] == 'Literal' and y.get('lit') == 'ByteStr']
                    if tup and tm:
                        flds = []
                        for f in tup[0]['fields']:
                            g = strip(f)
                            flds.append((root_var(g['lhs']) if g['k'] == 'Field' else None, g.get('field') if g['k'] == 'Field' else None))
                        try: text = engine_u.decode_template(tm[0]['value'])
                        except Exception: text = None
                        found.append((tuple(ctx), text, flds, src, x['loc']))
            return
        if e['k'] == 'Call' and (callee_name(e) or '').endswith('write_fmt'):
            lits = [y['value'] for y in walk(e) if y['k'] == 'Literal' and y.get('lit') == 'Str']
            if lits: found.append((tuple(ctx), lits[0], None, None, e['loc']))
        for ch in children(e): visit(ch, ctx)
    visit(t['body'], [])
    edge_writes = [f for f in found if f[2] is not None]
    R.count('L:edge-writer-sites', len(edge_writes))
    want = {(('dot', True), ('undirected', True)): '{} -- {}', (('dot', True), ('undirected', False)): '{} -> {}', (('dot', False),): '{},{}'}
    heads = {(('dot', True), ('undirected', True)): 'graph G {', (('dot', True), ('undirected', False)): 'digraph G {'}
    for ctx, tmpl in want.items():
        ws = [f for f in edge_writes if f[0] == ctx]
        ok = len(ws) == 1 and ws[0][1] is not None and ws[0][1].strip() == tmpl
        if ok:
            (a, i0), (b, i1) = ws[0][2]
            ok = a is not None and a == b and (i0, i1) == (0, 1) and (ws[0][3] or '').startswith('selection')
        R.obligation(ok, 'L writer %s' % (ctx,))
        if not ok:
            R.violation('random_graph_gen::main / L / writer %s' % ' '.join('%s=%s' % kv for kv in ctx), 'L',
                        'in mode %s every edge of `selection` must be written once as `%s` with (source, target) in that order; found %s' % (dict(ctx), tmpl, [(w[1], w[2], w[3]) for w in ws]))
    for ctx, h in heads.items():
        hs = [f[1].strip() for f in found if f[0] == ctx and f[2] is None]
        ok = h in hs and '}' in hs
        R.obligation(ok, 'L head %s' % (ctx,))
        if not ok:
            R.violation('random_graph_gen::main / L / dot header %s' % ' '.join('%s=%s' % kv for kv in ctx), 'L', 'dot output in mode %s must be wrapped in `%s` ... `}`; found %s' % (dict(ctx), h, hs))

def rule_colour_vertices(F, R):
    """C18 --colors: one product vertex `<v>_c<k>` per input vertex v and colour k in 0..N, mapped back to (v, k); N is the number given on the command line"""
    import engine_u
    c = F.crate('random_graph_gen')
    t = c.ithir.get('random_graph_gen::augment_colors') if c else None
    m = c.ithir.get('random_graph_gen::main') if c else None
    if t is None or m is None:
        R.violation('random_graph_gen::augment_colors / L / anchor', 'UNDECIDABLE', 'augment_colors not found'); return
    # colour range 0..num_colors
    rng_ok = False
    for e in walk(t['body']):
        if e['k'] == 'Adt' and canon(e['adt']) == 'std::ops::Range':
            lo = [f['expr'] for f in e['fields'] if f['name'] == 'start'][0]; hi = [f['expr'] for f in e['fields'] if f['name'] == 'end'][0]
            if strip(lo).get('value') == '0' and (root_var(hi) or '').startswith('num_colors') and strip(hi)['k'] == 'VarRef': rng_ok = True
    R.count('L:colour-range'); R.obligation(rng_ok, 'L colour range')
    if not rng_ok: R.violation('random_graph_gen::augment_colors / L / colour range', 'L', 'colours must range over 0..num_colors')
    # names and maps
    lets = {}
    for b in walk(t['body']):
        if b['k'] == 'Block':
            for s in b['stmts']:
                if s['k'] == 'Let' and s['init'] is not None:
                    q = unwrap_pat(s['pat'])
                    if q['k'] == 'Binding': lets[q['var']] = s['init']
    def name_parts(var):
        init = lets.get(var)
        if init is None: return None
        tm = [y for y in walk(init) if y['k'] == 'Literal' and y.get('lit') == 'ByteStr']
        tup = [y for y in walk(init) if y['k'] == 'Tuple' and len(y['fields']) == 2]
        if not tm or not tup: return None
        try: text = engine_u.decode_template(tm[0]['value'])
        except Exception: return None
        a, b = [strip(f) for f in tup[0]['fields']]
        return text, (a.get('field') if a['k'] == 'Field' else None), (root_var(b) or '').split('#')[0]
    ins = [e for e in walk(t['body']) if e['k'] == 'Call' and callee_name(e) == 'std::collections::HashMap::insert']
    vmap = {}; cmap = {}
    for e in ins:
        tbl = (root_var(e['args'][0]) or '').split('#')[0]
        key = root_var(e['args'][1]); val = strip(e['args'][2])
        while val['k'] == 'Call' and callee_decl(val) == 'std::clone::Clone::clone': val = strip(val['args'][0])
        np = name_parts(key)
        if tbl == 'vertex_map': vmap[key] = (np, val.get('field') if val['k'] == 'Field' else None)
        if tbl == 'color_map': cmap[key] = (np, (root_var(val) or '').split('#')[0])
    ok = len(vmap) == 2 and len(cmap) == 2 and set(vmap) == set(cmap)
    if ok:
        ends = set()
        for k, (np, fld) in vmap.items():
            ok = ok and np is not None and np[0] == '{}_c{}' and np[1] == fld and np[2] == 'color' and cmap[k][1] == 'color'
            ends.add(fld)
        ok = ok and ends == {0, 1}
    R.count('L:colour-vertex-maps', len(vmap) + len(cmap)); R.obligation(ok, 'L colour maps')
    if not ok:
        R.violation('random_graph_gen::augment_colors / L / product vertices', 'L', 'for each edge end e.k and colour c the vertex `<e.k>_c<c>` must be mapped back to e.k and to c; found vertex_map=%s color_map=%s' % (
            {k.split('#')[0]: v for k, v in vmap.items()}, {k.split('#')[0]: v for k, v in cmap.items()}))
    # main: selection = augment_colors(&selection, N) with N the payload of args.colors
    ok = False
    for e in walk(m['body']):
        if e['k'] == 'If' and e['cond']['k'] == 'Let':
            src = strip(e['cond']['expr'])
            pat = unwrap_pat(e['cond']['pat'])
            if src['k'] == 'Field' and src.get('field_name') == 'colors' and pat['k'] == 'Variant' and pat['variant'] == 'Some' and pat['subs']:
                nv = unwrap_pat(pat['subs'][0]['pat']).get('var')
                calls = [x for x in walk(e['then']) if x['k'] == 'Call' and callee_name(x) == 'random_graph_gen::augment_colors']
                asg = [x for x in walk(e['then']) if x['k'] == 'Assign']
                if len(calls) == 1 and len(asg) == 1:
                    ok = strip(calls[0]['args'][1]).get('var') == nv and (root_var(calls[0]['args'][0]) or '').startswith('selection') and (root_var(asg[0]['lhs']) or '').startswith('selection')
    R.count('L:colour-call'); R.obligation(ok, 'L colour call')
    if not ok: R.violation('random_graph_gen::main / L / --colors', 'L', '--colors N must replace the selection by augment_colors(&selection, N) with N unchanged')

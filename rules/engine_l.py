"""Engine L: clauses of the puzzle / graph generators (C15, C16, C18).
Guards of `push` sites are extracted as path conditions and evaluated as truth tables over their atoms."""

from fractions import Fraction
from facts import canon, walk, callee_name, callee_decl, pp, children
from engine_e import strip
from engine_x import unwrap_pat, root_var

NARROW = ('u8', 'u16', 'i8', 'i16')
ARITH = ('Add', 'Sub', 'Mul', 'AddWithOverflow', 'SubWithOverflow', 'MulWithOverflow', 'AddUnchecked', 'SubUnchecked', 'MulUnchecked', 'Shl', 'Div', 'Rem')

def rule_width(F, R, crate_name):
    """L-W: no index arithmetic in an integer type narrower than 32 bits"""
    c = F.crate(crate_name)
    if c is None:
        R.violation('%s / L-W / anchor' % crate_name, 'UNDECIDABLE', 'crate %s not found' % crate_name); return
    n = 0
    for name, body in c.mir.items():
        if '<Args as clap::' in name: continue
        per = {}
        for b in body['blocks']:
            if b['cleanup']: continue
            for s in b['stmts']:
                if s['k'] == 'Assign' and s['rv'].get('k') == 'BinaryOp' and s['rv']['op'] in ARITH:
                    n += 1
                    ty = s['rv']['operand_ty']
                    R.count('L-W:arithmetic-sites')
                    ok = ty not in NARROW
                    R.obligation(ok, None)
                    if not ok:
                        k = '%s / L-W / %s in %s' % (name, s['rv']['op'].replace('WithOverflow', ''), ty)
                        per[k] = per.get(k, 0) + 1
                        if per[k] == 1:
                            R.violation(k, 'L-W', 'cell-index arithmetic (%s) is carried out in %s: indices reach n*n-1, which does not fit for n >= 256' % (s['rv']['op'], ty), s['loc'])
    # loop variables must not be narrow either (Range<u16> iteration keeps the arithmetic narrow)
    for name, t in c.ithir.items():
        if '<Args as clap::' in name: continue
        for e in walk(t['body']):
            if e['k'] == 'Adt' and canon(e['adt']) in ('std::ops::Range', 'std::ops::RangeInclusive'):
                tys = [f['expr']['ty']['s'] for f in e['fields']]
                R.count('L-W:ranges')
                ok = not any(x in NARROW for x in tys)
                R.obligation(ok, None)
                if not ok:
                    R.violation('%s / L-W / narrow range' % name, 'L-W', 'loop range over %s' % tys, e['loc'])
    if n == 0:
        R.violation('%s / L-W / VACUITY' % crate_name, 'VACUITY', 'no index arithmetic found in %s' % crate_name)

# ------------------------------------------------------------------------------------------------ path conditions
def diverges(e):
    """does this expression always leave the enclosing iteration / function (continue, break, return, `Err(..)?`)?"""
    e = strip(e)
    while e['k'] == 'Block':
        if e['expr'] is not None and not e['stmts']: e = strip(e['expr']); continue
        if e['stmts'] and e['expr'] is None and len(e['stmts']) == 1 and e['stmts'][0]['k'] == 'Expr': e = strip(e['stmts'][0]['expr']); continue
        if e['expr'] is not None and diverges(e['expr']): return True
        return False
    return e['k'] in ('Continue', 'Break', 'Return')

def option_match(e):
    """`match X { Some(p) => A, None => B }` (either arm order) -> (X, some-arm, none-arm) or None"""
    if e['k'] != 'Match' or e.get('source') not in (None, 'Normal') or len(e['arms']) != 2: return None
    some = none = None
    for a in e['arms']:
        p = unwrap_pat(a['pat'])
        if a.get('guard') is not None: return None
        if p['k'] == 'Variant' and canon(p.get('adt', '')) == 'std::option::Option':
            if p['variant'] == 'Some': some = a
            elif p['variant'] == 'None': none = a
        elif p['k'] == 'Wild': none = a
    if some is None or none is None: return None
    return e['scrutinee'], some, none

def push_sites(t, target_pred):
    """yield (call expr, [(cond expr, polarity)]) for every call satisfying target_pred, with the conditions under which it is
    reached: enclosing `if`s, `if let` / two-armed Option matches (as structural Let conditions), and earlier guard statements of the
    same block whose then-branch leaves the iteration (`if c { continue; }` puts not-c on everything after it)."""
    out = []
    def rec(e, conds):
        if not isinstance(e, dict): return
        if e['k'] == 'Call' and target_pred(e): out.append((e, list(conds)))
        if e['k'] == 'If':
            c = e['cond']
            if c['k'] == 'Let':
                rec(c['expr'], conds)
                rec(e['then'], conds + [(c, True)])
                if e['else'] is not None: rec(e['else'], conds + [(c, False)])
            else:
                rec(c, conds)
                rec(e['then'], conds + [(c, True)])
                if e['else'] is not None: rec(e['else'], conds + [(c, False)])
            return
        om = option_match(e)
        if om is not None:
            scr, some, none = om
            c = {'k': 'Let', 'pat': some['pat'], 'expr': scr, 'loc': e.get('loc')}
            rec(scr, conds)
            rec(some['body'], conds + [(c, True)])
            rec(none['body'], conds + [(c, False)])
            return
        if e['k'] == 'Block':
            extra = []
            for st in e['stmts']:
                x = st['expr'] if st['k'] == 'Expr' else st.get('init')
                if x is None: continue
                rec(x, conds + extra)
                y = strip(x)
                if st['k'] == 'Expr' and y['k'] == 'If' and y['cond']['k'] != 'Let' and y.get('else') is None and diverges(y['then']):
                    extra = extra + [(y['cond'], False)]
            if e['expr'] is not None: rec(e['expr'], conds + extra)
            return
        for ch in children(e): rec(ch, conds)
    rec(t['body'], [])
    return out

def simple_lets(t):
    """var -> initialiser for the immutable single-binding lets of a body whose initialiser is a plain value (variable, field,
    tuple, clone / to_string of those): such a variable is just a name for that value"""
    def plain(e):
        e = strip(e)
        if e['k'] in ('VarRef', 'UpvarRef', 'Literal'): return True
        if e['k'] == 'Field': return plain(e['lhs'])
        if e['k'] == 'Tuple': return all(plain(f) for f in e['fields'])
        if e['k'] == 'Index': return plain(e['lhs']) and plain(e['index'])
        if e['k'] == 'Call' and len(e['args']) == 2 and callee_decl(e) == 'std::ops::Index::index': return plain(e['args'][0]) and plain(e['args'][1])
        if e['k'] == 'Call' and e['args'] and (callee_decl(e) in ('std::clone::Clone::clone', 'std::string::ToString::to_string', 'std::ops::Deref::deref', 'std::convert::AsRef::as_ref',
                                                              'std::borrow::ToOwned::to_owned') or (callee_name(e) or '').split('::')[-1] in ('to_string', 'as_str', 'to_owned')): return plain(e['args'][0])
        if e['k'] == 'Adt' and e['fields'] and not canon(e['adt']).startswith(('std::', 'core::', 'alloc::')): return all(plain(f['expr']) for f in e['fields'])
        return False
    out = {}
    for b in walk(t['body']):
        if b['k'] != 'Block': continue
        for st in b['stmts']:
            if st['k'] == 'Let' and st.get('init') is not None:
                q = unwrap_pat(st['pat'])
                if q['k'] == 'Binding' and not q.get('mutable') and plain(st['init']): out[q['var']] = st['init']
    return out

def is_args_var(t, var):
    """is `var` the parsed command line (let args = Args::parse())?"""
    for b in walk(t['body']):
        if b['k'] != 'Block': continue
        for st in b['stmts']:
            if st['k'] == 'Let' and st.get('init') is not None and unwrap_pat(st['pat']).get('var') == var:
                i0 = strip(st['init'])
                return i0['k'] == 'Call' and (callee_name(i0) or '').split('::')[-1] in ('parse', 'parse_from')
    return False

def args_fields(t, crate):
    """variables bound by destructuring the parsed command line: `let Args { input, undirected, .. } = Args::parse();` (or `= args;`)
    -> {var: field name}"""
    out = {}
    if t is None or crate is None: return out
    for b in walk(t['body']):
        if b['k'] != 'Block': continue
        for st in b['stmts']:
            if st['k'] != 'Let' or st.get('init') is None: continue
            q = unwrap_pat(st['pat'])
            if q['k'] != 'Leaf' or 'adt' not in q: continue
            i0 = strip(st['init'])
            if not ((i0['k'] == 'Call' and (callee_name(i0) or '').split('::')[-1] in ('parse', 'parse_from')) or (i0['k'] in ('VarRef', 'UpvarRef') and is_args_var(t, i0['var']))): continue
            adt = crate.adts.get(canon(q['adt']))
            if adt is None or len(adt['variants']) != 1: continue
            fs = adt['variants'][0]['fields']
            for sp in q['subs']:
                b_ = unwrap_pat(sp['pat'])
                if b_['k'] == 'Binding' and sp['field'] < len(fs): out[b_['var']] = fs[sp['field']]['name']
    return out

CRATE_FOR_CLOSURES = [None]      # the crate whose closures the atomizer may read (set by the rule that uses it)

class Atomizer:
    def __init__(self, t=None, roles=None, places=None):
        self.atoms = {}
        self.t = t
        self.lets = simple_lets(t) if t is not None else {}
        self.roles = roles or {}
        self.places = places
        self.crate = CRATE_FOR_CLOSURES[0]
        self.argf = args_fields(t, self.crate)
    def norm(self, e):
        """readable normal form of a value expression: strips borrows, clones, to_string; local names for plain values are
        replaced by the value, variables with a known role by the role's name, fields of the parsed command line by args.<field>"""
        e = strip(e)
        if self.places is not None:
            pl = self.places.place(e)
            if pl is not None and pl in self.roles: return self.roles[pl]
        if e['k'] in ('VarRef', 'UpvarRef'):
            if e['var'] in self.roles: return self.roles[e['var']]
            if e['var'] in self.argf: return 'args.' + self.argf[e['var']]
            if e['var'] in self.lets: return self.norm(self.lets[e['var']])
        if e['k'] == 'Field' and self.t is not None:
            b = strip(e['lhs'])
            if b['k'] in ('VarRef', 'UpvarRef') and is_args_var(self.t, b['var']): return 'args.' + str(e.get('field_name', e['field']))
        while e['k'] == 'Call' and (callee_decl(e) in ('std::clone::Clone::clone', 'std::string::ToString::to_string', 'std::ops::Deref::deref', 'std::convert::AsRef::as_ref',
                                                      'std::borrow::ToOwned::to_owned', 'std::convert::From::from', 'std::convert::Into::into') or (callee_name(e) or '').split('::')[-1] in ('to_string', 'as_str', 'to_owned')) and e['args']:
            e = strip(e['args'][0])
        if e['k'] == 'Adt' and e['fields'] and not canon(e['adt']).startswith(('std::', 'core::', 'alloc::')) and len(e['fields']) >= 2:
            # a small record of plain values (`Edge { from, to }`) reads like the tuple of its fields in declaration order
            fs = sorted(e['fields'], key=lambda f: f['idx'])
            return '(' + ','.join(self.norm(f['expr']) for f in fs) + ')'
        if e['k'] in ('VarRef', 'UpvarRef'):
            if e['var'] in self.roles: return self.roles[e['var']]
            if e['var'] in self.lets: return self.norm(self.lets[e['var']])
            return e['var'].split('#')[0]
        if e['k'] == 'Tuple': return '(' + ','.join(self.norm(f) for f in e['fields']) + ')'
        if e['k'] == 'Field': return self.norm(e['lhs']) + '.' + str(e.get('field_name', e['field']))
        if e['k'] == 'Index': return '%s[%s]' % (self.norm(e['lhs']), self.norm(e['index']))
        if e['k'] == 'Call' and (callee_decl(e) or '') == 'std::ops::Index::index': return '%s[%s]' % (self.norm(e['args'][0]), self.norm(e['args'][1]))
        if e['k'] == 'Literal': return str(e.get('value'))
        return pp(e)[:40]
    def atom(self, key):
        self.atoms.setdefault(key, len(self.atoms)); return ('atom', key)
    def bool_lets(self):
        """var -> condition, for `let b = <condition>;` directly followed by the one `if` whose test holds every use of b: nothing
        can change between the let and the test, so the name stands for the condition"""
        if getattr(self, '_bl', None) is not None: return self._bl
        out = {}
        for b in walk(self.t['body']):
            if b['k'] != 'Block': continue
            seq = list(b['stmts']) + ([{'k': 'Expr', 'expr': b['expr']}] if b.get('expr') is not None else [])
            for i, st in enumerate(seq[:-1]):
                if st['k'] != 'Let' or st.get('init') is None or st.get('else_block') is not None: continue
                q = unwrap_pat(st['pat'])
                if q['k'] != 'Binding' or q.get('mutable') or q.get('by_ref'): continue
                nxt = seq[i + 1]
                y = nxt.get('expr') if nxt['k'] == 'Expr' else nxt.get('init')
                while y is not None and (y['k'] in ('Use', 'NeverToAny') or (y['k'] == 'Block' and not y['stmts'] and y.get('expr') is not None)): y = y['source'] if y['k'] != 'Block' else y['expr']
                if y is None or y['k'] != 'If' or y['cond']['k'] == 'Let': continue
                uses = sum(1 for z in walk(self.t['body']) if z['k'] in ('VarRef', 'UpvarRef') and z['var'] == q['var'])
                in_test = sum(1 for z in walk(y['cond']) if z['k'] in ('VarRef', 'UpvarRef') and z['var'] == q['var'])
                if uses and uses == in_test: out[q['var']] = st['init']
        self._bl = out
        return out
    def conv(self, e):
        e = strip(e)
        k = e['k']
        if k == 'LogicalOp': return (e['op'].lower(), self.conv(e['lhs']), self.conv(e['rhs']))
        if k == 'Unary' and e['op'] == 'Not': return ('not', self.conv(e['arg']))
        if k == 'Binary' and e['op'] in ('Eq', 'Ne'):
            a, b = sorted((self.norm(e['lhs']), self.norm(e['rhs'])))
            x = self.atom(('eq', a, b))
            return x if e['op'] == 'Eq' else ('not', x)
        if k == 'Call':
            d = callee_decl(e) or ''; c = callee_name(e) or ''
            if d in ('std::cmp::PartialEq::eq', 'std::cmp::PartialEq::ne'):
                a, b = sorted((self.norm(e['args'][0]), self.norm(e['args'][1])))
                x = self.atom(('eq', a, b))
                return x if d.endswith('eq') else ('not', x)
            if c == 'core::slice::<impl [T]>::contains':
                return self.atom(('in', self.norm(e['args'][1]), self.norm(e['args'][0])))
            if d == 'std::iter::Iterator::any' and len(e['args']) == 2 and self.crate is not None:
                # list.iter().any(|(a, b)| a == P && b == Q)  is  list.contains(&(P, Q))
                cl = [x for x in walk(e['args'][1]) if x['k'] == 'Closure']
                ct = self.crate.ithir.get(canon(cl[0]['def'])) if cl else None
                if ct is not None and len(ct['params']) == 2:
                    q = unwrap_pat(ct['params'][1]['pat'])
                    comps = {}
                    if q['k'] == 'Leaf' and 'adt' not in q:
                        for sp in q['subs']:
                            b_ = unwrap_pat(sp['pat'])
                            if b_['k'] == 'Binding': comps[b_['var']] = sp['field']
                    body = ct['body']
                    while body['k'] in ('Use', 'NeverToAny') or (body['k'] == 'Block' and not body['stmts'] and body['expr'] is not None): body = body['source'] if body['k'] != 'Block' else body['expr']
                    conj = []
                    def flat(x):
                        x = strip(x)
                        if x['k'] == 'LogicalOp' and x['op'] == 'And': flat(x['lhs']); flat(x['rhs'])
                        else: conj.append(x)
                    flat(body)
                    got = {}
                    for x in conj:
                        l = r = None
                        if x['k'] == 'Call' and callee_decl(x) == 'std::cmp::PartialEq::eq': l, r = x['args']
                        elif x['k'] == 'Binary' and x['op'] == 'Eq': l, r = x['lhs'], x['rhs']
                        if l is None: got = None; break
                        lv, rv = root_var(l), root_var(r)
                        if lv in comps and rv not in comps: got[comps[lv]] = self.norm(r)
                        elif rv in comps and lv not in comps: got[comps[rv]] = self.norm(l)
                        else: got = None; break
                    if got is not None and sorted(got) == [0, 1] and len(conj) == 2:
                        return self.atom(('in', '(%s,%s)' % (got[0], got[1]), self.norm(e['args'][0])))
            if d in ('std::cmp::PartialOrd::lt', 'std::cmp::PartialOrd::gt', 'std::cmp::PartialOrd::le', 'std::cmp::PartialOrd::ge'):
                a, b = self.norm(e['args'][0]), self.norm(e['args'][1])
                op = d.split('::')[-1]
                if op == 'lt': return self.atom(('lt', a, b))
                if op == 'gt': return self.atom(('lt', b, a))
                if op == 'le': return ('not', self.atom(('lt', b, a)))
                return ('not', self.atom(('lt', a, b)))
        if k == 'VarRef' and self.t is not None and e['var'] not in self.roles:
            bl = self.bool_lets()
            if e['var'] in bl: return self.conv(bl[e['var']])
        if k in ('VarRef', 'UpvarRef', 'Field'): return self.atom(('flag', self.norm(e)))
        if k == 'Literal' and e.get('lit') == 'Bool': return ('const', e['value'])
        raise ValueError('guard construct %s: %s' % (k, pp(e)[:60]))

def ev(t, asg):
    if t[0] == 'atom': return asg[t[1]]
    if t[0] == 'const': return t[1]
    if t[0] == 'not': return not ev(t[1], asg)
    if t[0] == 'and': return ev(t[1], asg) and ev(t[2], asg)
    if t[0] == 'or': return ev(t[1], asg) or ev(t[2], asg)
    raise ValueError(t)

def truth_table(R, fn, what, sites, spec, loc=None, rule='L', t=None, roles=None):
    """sites: list of path conditions; spec: function(asg-by-key) -> bool.  A = Atomizer shared by all sites."""
    A = Atomizer(t, roles)
    try:
        conds = []
        for (_call, pcs) in sites:
            cs = []
            for (c, pol) in pcs:
                if c['k'] == 'Let':
                    cs.append(('const', True))      # structural `if let` guards are checked separately
                    continue
                x = A.conv(c)
                cs.append(x if pol else ('not', x))
            conds.append(cs)
    except ValueError as ex:
        R.violation('%s / %s / UNDECIDABLE %s' % (fn, rule, what), 'UNDECIDABLE', 'cannot interpret the guard of %s: %s' % (what, ex), loc); return
    keys = list(A.atoms)
    n = len(keys)
    bad = []
    for m in range(1 << n):
        asg = {k: bool((m >> i) & 1) for i, k in enumerate(keys)}
        got = any(all(ev(c, asg) for c in cs) for cs in conds)
        try:
            want = spec(asg)
        except KeyError as ke:
            R.violation('%s / %s / %s atoms' % (fn, rule, what), rule, 'guard of %s does not mention %s (atoms found: %s)' % (what, ke, keys), loc); return
        if want is None: continue
        R.count('%s:truth-table-rows' % rule); R.obligation(got == want, '%s %s %s' % (fn, what, m))
        if got != want: bad.append({str(k): v for k, v in asg.items()})
    R.sample({'rule': rule, 'fn': fn, 'what': what, 'atoms': [str(k) for k in keys], 'rows': 1 << n})
    if bad:
        R.violation('%s / %s / %s' % (fn, rule, what), rule, 'guard of %s disagrees with the specification in %d case(s), e.g. %s' % (what, len(bad), bad[0]), loc)

def is_push_to(varprefix):
    def pred(e):
        return callee_name(e) == 'std::vec::Vec::push' and (root_var(e['args'][0]) or '').split('#')[0] == varprefix
    return pred

# ------------------------------------------------------------------------------------------------ C16

class Places:
    """canonical names for the storage an expression denotes, up to local aliasing: `let x = y;`, `let x = &y.f;`,
    `let S { a, b } = g;` (a is g.a), `let (a, b) = t;`, `let x = { ..; z };` (x is z: a helper's result after inlining)"""
    def __init__(self, t):
        self.alias = {}           # var -> (root var, field path tuple)
        self.falias = {}          # (var, field index) -> place, for records built from places
        for b in walk(t['body']):
            if b['k'] != 'Block': continue
            for st in b['stmts']:
                if st['k'] != 'Let' or st.get('init') is None: continue
                src = self.raw(st['init'])
                if src is None:
                    # a listing of borrowed elements (`let ordered: Vec<&String> = vertices.iter().collect();`): while it lives the borrow checker
                    # keeps the collection unchanged, and it holds the same elements in the collection's own order - the same storage for our purposes
                    i0 = strip(st['init'])
                    if i0['k'] == 'Call' and callee_decl(i0) == 'std::iter::Iterator::collect' and i0['args'] and str((i0.get('ty') or {}).get('s', '')).startswith('std::vec::Vec<&') \
                            and not unwrap_pat(st['pat']).get('mutable'):
                        src = self.raw(i0['args'][0])
                        if src is not None:
                            self.bind(st['pat'], src); continue
                if src is None:
                    # a record built from places: `let g = Graph { edges, vertices };` (also behind `Ok(..)?` of an inlined helper): g.f is that place
                    rec = self.record(st['init'])
                    q = unwrap_pat(st['pat'])
                    if rec is not None and q['k'] == 'Binding':
                        for fidx, pl in rec.items(): self.falias[(q['var'], fidx)] = pl
                    continue
                self.bind(st['pat'], src)
    def bind(self, pat, src):
        q = unwrap_pat(pat)
        if q['k'] == 'Binding':
            if q['var'] != src[0]: self.alias[q['var']] = src
        elif q['k'] in ('Leaf', 'Variant') and q.get('subs') is not None:
            for sp in q['subs']:
                self.bind(sp['pat'], (src[0], src[1] + (sp['field'],)))
    def raw(self, e):
        """(root var, path) of a place expression, looking through borrows, clones and block tails; None otherwise"""
        e = strip(e)
        while True:
            if e['k'] == 'Block' and e.get('expr') is not None: e = strip(e['expr']); continue
            if e['k'] == 'Call' and e['args'] and (callee_decl(e) in ('std::clone::Clone::clone', 'std::convert::AsRef::as_ref', 'std::ops::Deref::deref', 'std::ops::DerefMut::deref_mut', 'std::borrow::ToOwned::to_owned',
                                                                   'std::iter::IntoIterator::into_iter') or callee_name(e) in ('std::slice::<impl [T]>::to_vec', 'core::slice::<impl [T]>::iter', 'std::collections::HashSet::iter', 'std::vec::Vec::as_slice')):
                e = strip(e['args'][0]); continue
            break
        if e['k'] in ('VarRef', 'UpvarRef'): return (e['var'], ())
        if e['k'] == 'Field':
            b = self.raw(e['lhs'])
            if b is None: return None
            return (b[0], b[1] + (e['field'],))
        return None
    def record(self, e):
        """{field index: place} of a struct literal whose fields are places, looking through blocks, `Ok(..)` and `?`"""
        e = strip(e)
        for _ in range(12):
            if e['k'] == 'Block' and e.get('expr') is not None: e = strip(e['expr']); continue
            if e['k'] == 'Match' and 'TryDesugar' in str(e.get('source')):
                sc = strip(e['scrutinee'])
                if sc['k'] == 'Call' and sc['args']: e = strip(sc['args'][0]); continue
            if e['k'] == 'Adt' and canon(e['adt']) == 'std::result::Result' and e['variant'] == 'Ok' and e['fields']: e = strip(e['fields'][0]['expr']); continue
            break
        if e['k'] == 'Adt' and e['fields'] and not canon(e['adt']).startswith(('std::', 'core::', 'alloc::')):
            out = {}
            for f in e['fields']:
                pl = self.raw(f['expr'])
                if pl is not None: out[f['idx']] = pl
            return out or None
        return None
    def canon(self, pl, depth=0):
        if pl is None: return None
        while depth < 20:
            if pl[0] in self.alias:
                a = self.alias[pl[0]]
                pl = (a[0], a[1] + pl[1]); depth += 1; continue
            if pl[1] and (pl[0], pl[1][0]) in self.falias:
                a = self.falias[(pl[0], pl[1][0])]
                pl = (a[0], a[1] + pl[1][1:]); depth += 1; continue
            break
        return pl
    def place(self, e):
        pl = self.canon(self.raw(e))
        if pl is None: return None
        return pl[0] + ''.join('.%s' % f for f in pl[1])

def for_loops(e):
    """[(iterable expr, bound pattern, body)] for every `for` loop below e (outermost first)"""
    out = []
    for m in walk(e):
        if m['k'] == 'Match' and m.get('source') == 'ForLoopDesugar':
            sc = strip(m['scrutinee'])
            if sc['k'] != 'Call' or not sc['args']: continue
            for x in walk(m['arms'][0]['body']):
                if x['k'] == 'Match' and x.get('source') == 'ForLoopDesugar':
                    for a_ in x['arms']:
                        p = unwrap_pat(a_['pat'])
                        if p['k'] == 'Variant' and p['variant'] == 'Some' and p['subs']:
                            out.append((sc['args'][0], unwrap_pat(p['subs'][0]['pat']), a_['body']))
                    break
    return out

def clique_roles(t):
    """the storage of max_clique_gen::main by role, not by spelling: the two nested loops over one vertex collection (v1 outer,
    v2 inner), the list the loop pushes to (edges_complement), the other list the guard consults (edges)"""
    P = Places(t)
    for (it1, p1, body1) in for_loops(t['body']):
        X = P.place(it1)
        if X is None or p1['k'] != 'Binding': continue
        for (it2, p2, body2) in for_loops(body1):
            if P.place(it2) != X or p2['k'] != 'Binding': continue
            pushes = [x for x in walk(body2) if x['k'] == 'Call' and callee_name(x) == 'std::vec::Vec::push' and P.place(x['args'][0])]
            targets = set(P.place(x['args'][0]) for x in pushes)
            if len(targets) != 1: continue
            T = targets.pop()
            roles = {p1['var']: 'v1', p2['var']: 'v2', X: 'vertices', T: 'edges_complement'}
            others = set()
            for x in walk(body2):
                if x['k'] == 'Call' and callee_name(x) == 'core::slice::<impl [T]>::contains': others.add(P.place(x['args'][0]))
                if x['k'] == 'Call' and callee_decl(x) == 'std::iter::Iterator::any': others.add(P.place(x['args'][0]))
            others -= {T, None}
            if len(others) == 1: roles[others.pop()] = 'edges'
            return roles, T, P
    return None, None, P

def rule_max_clique(F, R):
    c = F.crate('max_clique_gen')
    t = lowered(c, c.ithir.get('max_clique_gen::main')) if c else None
    if t is None:
        R.violation('max_clique_gen::main / L / anchor', 'UNDECIDABLE', 'max_clique_gen::main not found'); return
    CRATE_FOR_CLOSURES[0] = c
    roles, T, P = clique_roles(t)
    if roles is None:
        R.violation('max_clique_gen::main / L / vertex loops', 'L', 'no pair of nested loops over one vertex collection that fills a list of vertex pairs was found'); return
    R.count('L:vertex-loops', 2); R.obligation(True, 'L loops')
    sites = push_sites(t, lambda e: callee_name(e) == 'std::vec::Vec::push' and P.place(e['args'][0]) == T)
    R.count('L:complement-push-sites', len(sites))
    # pair-level specification: for two distinct vertices a, b the constraint -(a & b) is emitted (in either orientation, whichever is
    # visited first) iff a and b are NOT adjacent, where adjacent = (-u ? E(a,b) or E(b,a) : E(a,b) and E(b,a)); never for a == b
    A = Atomizer(t, roles, P)
    FLAG = ('flag', 'args.undirected')
    try:
        conds = []
        for (_call, pcs) in sites:
            cs = []
            for (c_, pol) in pcs:
                if c_['k'] == 'Let': cs.append(('const', True)); continue
                x = A.conv(c_)
                cs.append(x if pol else ('not', x))
            conds.append(cs)
    except ValueError as ex:
        R.violation('max_clique_gen::main / L / UNDECIDABLE complement-edge insertion', 'UNDECIDABLE', 'cannot interpret the guard of the complement-edge insertion: %s' % ex, t['span']['loc']); return
    known = {('eq', 'v1', 'v2'), FLAG, ('in', '(v1,v2)', 'edges'), ('in', '(v2,v1)', 'edges'), ('in', '(v2,v1)', 'edges_complement'),
             ('in', '(v1,v2)', 'edges_complement'), ('lt', 'v1', 'v2'), ('lt', 'v2', 'v1')}
    unknown = [k for k in A.atoms if k not in known]
    if unknown:
        R.violation('max_clique_gen::main / L / UNDECIDABLE guard atoms', 'UNDECIDABLE', 'the complement-edge guard depends on %s, which the specification does not mention' % unknown, t['span']['loc']); return
    def g(asg): return any(all(ev(c_, asg) for c_ in cs) for cs in conds)
    def orient(U, Eab, Eba, L, Cba, Cab, first):
        # first=True: (v1,v2) = (a,b); else (b,a)
        e12, e21 = (Eab, Eba) if first else (Eba, Eab)
        return {('eq', 'v1', 'v2'): False, FLAG: U, ('in', '(v1,v2)', 'edges'): e12, ('in', '(v2,v1)', 'edges'): e21,
                ('in', '(v2,v1)', 'edges_complement'): Cba if first else Cab, ('in', '(v1,v2)', 'edges_complement'): Cab if first else Cba,
                ('lt', 'v1', 'v2'): L if first else (not L), ('lt', 'v2', 'v1'): (not L) if first else L}
    bad = []
    for U in (False, True):
        for Eab in (False, True):
            for Eba in (False, True):
                for L in (False, True):
                    adjacent = (Eab or Eba) if U else (Eab and Eba)
                    for ab_first in (True, False):
                        if ab_first:
                            g1 = g(orient(U, Eab, Eba, L, False, False, True)); g2 = g(orient(U, Eab, Eba, L, False, g1, False))
                        else:
                            g1 = g(orient(U, Eab, Eba, L, False, False, False)); g2 = g(orient(U, Eab, Eba, L, g1, False, True))
                        emitted = g1 or g2
                        R.count('L:truth-table-rows'); R.obligation(emitted == (not adjacent), 'L pair %s' % ((U, Eab, Eba, L, ab_first),))
                        if emitted != (not adjacent):
                            bad.append({'-u': U, 'E(a,b)': Eab, 'E(b,a)': Eba, 'a<b': L, '(a,b) visited first': ab_first, 'constraint emitted': emitted})
    # self pairs never produce a constraint
    for m in range(1 << 6):
        asg = {('eq', 'v1', 'v2'): True, FLAG: bool(m & 1), ('in', '(v1,v2)', 'edges'): bool(m & 2), ('in', '(v2,v1)', 'edges'): bool(m & 2),
               ('in', '(v2,v1)', 'edges_complement'): bool(m & 8), ('in', '(v1,v2)', 'edges_complement'): bool(m & 8), ('lt', 'v1', 'v2'): False, ('lt', 'v2', 'v1'): False}
        if g(asg): bad.append({'self pair': True, **{str(k): v for k, v in asg.items()}}); break
    R.sample({'rule': 'L', 'fn': 'max_clique_gen::main', 'what': 'pair-level complement-edge table', 'atoms': [str(k) for k in A.atoms], 'roles': {k.split('#')[0]: v for k, v in roles.items()}})
    if bad:
        R.violation('max_clique_gen::main / L / complement-edge insertion', 'L', 'for a pair of vertices the constraint -(a & b) must be emitted iff they are not adjacent; disagreement in %d case(s), e.g. %s' % (len(bad), bad[0]), t['span']['loc'])
    # the pushed pair is (v1, v2)
    for (call, _) in sites:
        a = Atomizer(t, roles, P).norm(call['args'][1])
        ok = a == '(v1,v2)'
        R.obligation(ok, None)
        if not ok: R.violation('max_clique_gen::main / L / pushed pair', 'L', 'complement edge pushed as %s, expected (v1,v2)' % a, call['loc'])
    # both emissions of the constraints use the same list and project (first, second) in that order
    uses = []
    for e in walk(t['body']):
        if e['k'] == 'Call' and (callee_decl(e) == 'std::iter::IntoIterator::into_iter' or callee_name(e) == 'core::slice::<impl [T]>::iter'):
            if P.place(e['args'][0]) == T: uses.append(e['loc'])
    R.count('L:complement-list-readers', len(uses)); R.obligation(len(uses) >= 2, 'L readers')
    if len(uses) < 2: R.violation('max_clique_gen::main / L / constraint copies', 'L', 'the plain and the v_-prefixed constraint blocks must both be generated from the complement-edge list (found %d readers)' % len(uses))
    # ... and each constraint names the two ends of its pair, first end first: a two-hole template fed from one pair shows .0 then .1
    npairs = 0
    bodies_ = [t] + [ct_ for g_, ct_ in c.ithir.items() if g_.startswith('max_clique_gen::main::{closure')]
    tuple_comp = {}          # var -> (id of the two-component tuple pattern that binds it, component)
    def note_tuple_pats(p_):
        p_ = unwrap_pat(p_)
        if p_['k'] == 'Leaf' and 'adt' not in p_ and len(p_.get('subs') or []) == 2:
            for sp_ in p_['subs']:
                b__ = unwrap_pat(sp_['pat'])
                if b__['k'] == 'Binding': tuple_comp[b__['var']] = (id(p_), sp_['field'])
        for sp_ in p_.get('subs') or []: note_tuple_pats(sp_['pat'])
    for bt_ in bodies_:
        for pr_ in bt_.get('params') or []:
            if 'pat' in pr_: note_tuple_pats(pr_['pat'])
        for (_it, pt_, _b) in for_loops(bt_['body']): note_tuple_pats(pt_)
    for bt_ in bodies_:
        for b_ in walk(bt_['body']):
            if b_['k'] == 'Block' and 'format_args' in str(b_.get('exp')):
                for st_ in b_['stmts']:
                    if st_['k'] == 'Let' and st_.get('init') is not None and strip(st_['init'])['k'] == 'Tuple' and len(strip(st_['init'])['fields']) == 2:
                        f0, f1 = [strip(x) for x in strip(st_['init'])['fields']]
                        def proj(x):
                            while x['k'] == 'Call' and x['args'] and (callee_name(x) or '').split('::')[-1] in ('clone', 'to_string', 'as_str', 'deref', 'as_ref'): x = strip(x['args'][0])
                            return (root_var(x['lhs']), x['field']) if x['k'] == 'Field' and isinstance(x.get('field'), int) else None
                        p0, p1 = proj(f0), proj(f1)
                        if p0 is None and p1 is None:
                            # the two ends named by a tuple pattern `|(a, b)|` / `for (a, b) in ..`
                            r0, r1 = root_var(f0), root_var(f1)
                            if r0 in tuple_comp and r1 in tuple_comp and tuple_comp[r0][0] == tuple_comp[r1][0]: p0, p1 = tuple_comp[r0], tuple_comp[r1]
                        if p0 is not None and p1 is not None and p0[0] is not None and p0[0] == p1[0]:
                            npairs += 1
                            okp = (p0[1], p1[1]) == (0, 1)
                            R.obligation(okp, 'L pair projection %s' % b_.get('loc'))
                            if not okp: R.violation('max_clique_gen::main / L / ends of a pair', 'L', 'a constraint must name the first and the second end of its pair, in that order; this one shows components %d and %d' % (p0[1], p1[1]), b_.get('loc'))
    R.count('L:pair-projections', npairs)
    # every endpoint of every record is a vertex: the vertex collection receives both fields of each record
    Xp = [k for k, v in roles.items() if v == 'vertices'][0]
    ins = [e for e in walk(t['body']) if e['k'] == 'Call' and (callee_name(e) or '').split('::')[-1] == 'insert' and P.place(e['args'][0]) == Xp]
    cols = set()
    import re as _re
    NV = Atomizer(t, roles, P)
    for e in ins:
        mm = _re.search(r'\[(\d+)\]$', NV.norm(e['args'][1]))       # reads through `let from = record[0].to_string();`
        if mm: cols.add(mm.group(1))
    # ... or, in a second pass, both components of every element of the edge list, which holds (record[0], record[1]) for every record
    Ep = [k for k, v in roles.items() if v == 'edges']
    if Ep:
        # every record of the input is an edge: one unconditional push of (record[0], record[1]) into the edge list, inside the loop over the records
        psites = push_sites(t, lambda e: callee_name(e) == 'std::vec::Vec::push' and P.place(e['args'][0]) == Ep[0])
        okr = len(psites) >= 1 and all(_re.fullmatch(r'\((.+)\[0\],(.+)\[1\]\)', NV.norm(cl_['args'][1])) and not [c_ for (c_, pol_) in cnds_ if c_['k'] != 'Let' and not any(y_['k'] == 'Call' and (callee_name(y_) or '').startswith('csv::') for y_ in walk(c_))] for (cl_, cnds_) in psites)
        R.count('L:edge-list-pushes', len(psites)); R.obligation(okr, 'L edges from records')
        if not okr: R.violation('max_clique_gen::main / L / edge list', 'L', 'every record of the input must be added to the edge list as (record[0], record[1]), unconditionally (found %d insertion(s))' % len(psites), t['span']['loc'])
    if Ep and not cols:
        pushed = [NV.norm(x['args'][1]) for x in walk(t['body']) if x['k'] == 'Call' and callee_name(x) == 'std::vec::Vec::push' and P.place(x['args'][0]) == Ep[0]]
        whole = bool(pushed) and all(_re.fullmatch(r'\((.+)\[0\],(.+)\[1\]\)', q_) and _re.fullmatch(r'\((.+)\[0\],(.+)\[1\]\)', q_).group(1) == _re.fullmatch(r'\((.+)\[0\],(.+)\[1\]\)', q_).group(2) for q_ in pushed)
        for (it, pt, body_) in for_loops(t['body']):
            if not whole or P.place(it) != Ep[0]: continue
            vs = pat_vars(pt)
            for e in walk(body_):
                if not any(e is i_ for i_ in ins): continue
                a = strip(e['args'][1])
                while a['k'] == 'Call' and a['args'] and (callee_decl(a) in ('std::clone::Clone::clone', 'std::string::ToString::to_string', 'std::borrow::ToOwned::to_owned') or (callee_name(a) or '').split('::')[-1] in ('to_string', 'to_owned')): a = strip(a['args'][0])
                if len(vs) == 2 and a['k'] == 'VarRef' and a['var'] in vs: cols.add(str(vs.index(a['var'])))
                if len(vs) == 1 and a['k'] == 'Field' and strip(a['lhs'])['k'] == 'VarRef' and strip(a['lhs'])['var'] == vs[0]: cols.add(str(a['field']))
    okv = cols == {'0', '1'}
    R.count('L:vertex-inserts', len(ins)); R.obligation(okv, 'L vertex set')
    if not okv: R.violation('max_clique_gen::main / L / vertex set', 'L', 'both endpoints of every record must be added to the vertex collection (record fields 0 and 1); found fields %s' % sorted(cols))
    # the `true` alternative of a constraint block is taken exactly when the complement-edge list is empty
    empt = [e for e in walk(t['body']) if e['k'] == 'If' and e['cond']['k'] != 'Let' and strip(e['cond'])['k'] == 'Call' and (callee_name(strip(e['cond'])) or '').split('::')[-1] == 'is_empty']
    # one emptiness alternative per block that is generated from the list (the plain block and the v_ block): an empty conjunction is not a formula
    readers_ = [e for e in walk(t['body']) if e['k'] == 'Call' and (callee_decl(e) == 'std::iter::IntoIterator::into_iter' or callee_name(e) == 'core::slice::<impl [T]>::iter') and P.place(e['args'][0]) == T]
    oke = len(empt) >= 1 and all(P.place(strip(e['cond'])['args'][0]) == T for e in empt) and len(empt) >= min(2, len(readers_))
    R.count('L:emptiness-tests', len(empt)); R.obligation(oke, 'L emptiness')
    if not oke: R.violation('max_clique_gen::main / L / empty constraint block', 'L', 'the `true` alternative of a constraint block must be chosen by the emptiness of the complement-edge list itself')
    # --all replaces the maximality part by `true`
    ok = False
    N = Atomizer(t, roles, P)
    all_ifs = [e for e in walk(t['body']) if e['k'] == 'If' and e['cond']['k'] != 'Let' and strip(e['cond'])['k'] in ('VarRef', 'UpvarRef', 'Field') and N.norm(e['cond']) == 'args.all']
    for e in all_ifs:
        def lits(x):
            out = []
            for y in walk(x):
                if y['k'] == 'Literal' and y.get('lit') == 'ByteStr': out.append(bytes(y['value']))
                if y['k'] == 'Literal' and y.get('lit') == 'Str': out.append(y['value'].encode())
            return out
        th = lits(e['then'])
        el_forall = any(b'forall' in b for b in lits(e['else'])) if e['else'] else False
        ok = any(b'true' in b for b in th) and not any(b'forall' in b for b in th) and el_forall
    R.count('L:all-switch'); R.obligation(ok, 'L --all')
    if not ok: R.violation('max_clique_gen::main / L / --all', 'L', 'with --all the maximality conjunct must be replaced by `true`, without it the forall block must be emitted')
    # the quantifier list and both counting lists are produced from the vertex collection
    n = 0
    X = [k for k, v in roles.items() if v == 'vertices'][0]
    for e in all_ifs:
        if not e['else']: continue
        for x in walk(e['else']):
            if x['k'] == 'Call' and x['args'] and ((callee_name(x) or '') in ('std::collections::HashSet::iter', 'core::slice::<impl [T]>::iter', 'std::collections::BTreeSet::iter') or
                                                  callee_decl(x) == 'std::iter::IntoIterator::into_iter') and P.place(x['args'][0]) == X: n += 1
    # ... and each of these lists is a list: its members are joined by a comma (a list joined by blanks is not a sentence); the constraints
    # generated from the complement list are joined by `&`
    from engine_t import tokenizer_pattern as _tp
    pat_ = _tp(F.lib())[0]
    if pat_ is not None:
        nj = 0
        for x in walk(t['body']):
            if x['k'] == 'Call' and (callee_name(x) or '').split('::')[-1] == 'join' and len(x['args']) == 2:
                sep = [y['value'] for y in walk(x['args'][1]) if y['k'] == 'Literal' and y.get('lit') == 'Str']
                src = strip(x['args'][0])
                while src['k'] == 'Call' and src['args']: src = strip(src['args'][0])
                pl = P.place(src) if src['k'] in ('VarRef', 'UpvarRef', 'Field') else None
                want_ = ['Comma'] if pl == X else ['And'] if pl == T else None
                if want_ is None or len(sep) != 1: continue
                nj += 1
                okj = tokenize_text(pat_, sep[0]) == want_
                R.obligation(okj, 'L join separator %s' % x.get('loc'))
                if not okj: R.violation('max_clique_gen::main / L / list separator', 'L', 'the members of this list must be joined by `%s`; they are joined by %r' % (', ' if want_ == ['Comma'] else ' & ', sep[0]), x.get('loc'))
        R.count('L:join-separators', nj)
    R.count('L:vertex-list-uses', n); R.obligation(n == 3, 'L vertices uses')
    if n != 3: R.violation('max_clique_gen::main / L / vertex lists', 'L', 'the forall binder list and the two counting lists must each be generated from the vertex collection (found %d uses)' % n)

# ------------------------------------------------------------------------------------------------ C18
def poly_of(e, varname):
    """polynomial in one variable as {power: Fraction}"""
    e = strip(e)
    if e['k'] in ('VarRef', 'UpvarRef'):
        if e['var'].split('#')[0] == varname: return {1: Fraction(1)}
        raise ValueError('unexpected variable ' + e['var'])
    if e['k'] == 'Literal' and e.get('lit') == 'Int': return {0: Fraction(int(e['value']))}
    if e['k'] == 'Binary':
        a, b = poly_of(e['lhs'], varname), poly_of(e['rhs'], varname)
        if e['op'] == 'Add': return padd(a, b)
        if e['op'] == 'Sub': return padd(a, {k: -v for k, v in b.items()})
        if e['op'] == 'Mul':
            out = {}
            for i, x in a.items():
                for j, y in b.items(): out[i + j] = out.get(i + j, 0) + x * y
            return out
        if e['op'] == 'Div' and list(b) == [0] and b[0] != 0 and b[0].denominator == 1:
            # integer division: exact only if the numerator is a multiple of the divisor for EVERY integer value of the variable.
            # An integer-coefficient polynomial is periodic modulo d, so checking one period decides this for all values.
            d = int(b[0])
            if any(c.denominator != 1 for c in a.values()): raise ValueError('division of a non-integer polynomial')
            for r in range(abs(d)):
                if sum(int(c) * r ** k for k, c in a.items()) % d != 0:
                    raise ValueError('integer division `%s / %d` truncates (e.g. when %s = %d mod %d)' % (pp(e['lhs'])[:40], d, varname, r, abs(d)))
            return {k: v / b[0] for k, v in a.items()}
    raise ValueError('not a polynomial: ' + pp(e)[:60])

def padd(a, b):
    out = dict(a)
    for k, v in b.items(): out[k] = out.get(k, 0) + v
    return {k: v for k, v in out.items() if v != 0}


def param_vars(t):
    out = []
    for p in t['params']:
        q = unwrap_pat(p['pat']) if 'pat' in p else {'k': '?'}
        out.append(q.get('var') if q['k'] == 'Binding' else None)
    return out

def pat_vars(p):
    """variables of a loop pattern: Binding -> [v]; tuple pattern (a, b) -> [a, b]"""
    p = unwrap_pat(p)
    if p['k'] == 'Binding': return [p['var']]
    if p['k'] == 'Leaf' and 'adt' not in p:
        out = []
        for sp in sorted(p['subs'], key=lambda x: x['field']):
            q = unwrap_pat(sp['pat'])
            out.append(q['var'] if q['k'] == 'Binding' else None)
        return out
    return []

def is_enumerate(e):
    e = strip(e)
    return e['k'] == 'Call' and callee_decl(e) == 'std::iter::Iterator::enumerate'

def push_target(t):
    ts = set(root_var(x['args'][0]) for x in walk(t['body']) if x['k'] == 'Call' and callee_name(x) == 'std::vec::Vec::push') - {None}
    return ts.pop() if len(ts) == 1 else None

def graph_roles(c):
    """variables of random_graph_gen's functions by role (what they do), not by spelling"""
    G = 'random_graph_gen::'
    out = {}
    # generate_graph(num_vertices, num_edges, undirected): outer loop (i, v1) over enumerate(vertices); inner (j, v2) or v2
    t = lowered(c, c.ithir.get(G + 'generate_graph'))
    if t is not None:
        r = {}
        pv = param_vars(t)
        for v, nm in zip(pv, ('num_vertices', 'num_edges', 'undirected')):
            if v: r[v] = nm
        T = push_target(t)
        if T: r[T] = 'edges'
        for (it, p, body) in for_loops(t['body']):
            vs = pat_vars(p)
            if is_enumerate(it) and len(vs) == 2 and any(x['k'] == 'Call' and callee_name(x) == 'std::vec::Vec::push' for x in walk(body)) and not (vs[0] in r or vs[1] in r):
                if vs[0]: r[vs[0]] = 'i'
                if vs[1]: r[vs[1]] = 'v1'
                X = root_var(strip(it)['args'][0]) if strip(it)['args'] else None
                xi = strip(strip(it)['args'][0])
                if xi['k'] == 'Call' and xi['args']: X = root_var(xi['args'][0])
                if X: r[X] = 'vertices'
                for (it2, p2, body2) in for_loops(body):
                    vs2 = pat_vars(p2)
                    if len(vs2) == 2:
                        if vs2[0]: r[vs2[0]] = 'j'
                        if vs2[1]: r[vs2[1]] = 'v2'
                    elif len(vs2) == 1 and vs2[0]: r[vs2[0]] = 'v2'
        # a local that receives the finished list from an inlined helper (`let mut edges = candidate_edges(..)?`) is the same list
        for b in walk(t['body']):
            if b['k'] != 'Block': continue
            for st in b['stmts']:
                if st['k'] == 'Let' and st.get('init') is not None and unwrap_pat(st['pat'])['k'] == 'Binding':
                    v = helper_result_var(st['init'])
                    if v is not None and v in r and unwrap_pat(st['pat'])['var'] not in r: r[unwrap_pat(st['pat'])['var']] = r[v]
        out['generate_graph'] = r
    # read_graph(reader, undirected)
    t = c.ithir.get(G + 'read_graph')
    if t is not None:
        r = {}
        pv = param_vars(t)
        if len(pv) >= 2 and pv[1]: r[pv[1]] = 'undirected'
        T = push_target(t)
        if T: r[T] = 'edges'
        for x in walk(t['body']):
            if x['k'] == 'Call' and callee_name(x) == 'std::vec::Vec::push':
                for y in walk(x['args'][1]):
                    base = None
                    if y['k'] == 'Index': base = root_var(y['lhs'])
                    if y['k'] == 'Call' and callee_decl(y) == 'std::ops::Index::index': base = root_var(y['args'][0])
                    if base: r[base] = 'edge'
        out['read_graph'] = r
    # augment_colors(edges, num_colors)
    t = unrolled(c.ithir.get(G + 'augment_colors'))
    if t is not None:
        r = {}
        pv = param_vars(t)
        for v, nm in zip(pv, ('edges', 'num_colors')):
            if v: r[v] = nm
        T = push_target(t)
        if T: r[T] = 'new_edges'
        # the colour loop variable and the edge loop variable of the first nest
        for (it, p, body) in for_loops(t['body']):
            vs = pat_vars(p); i0 = strip(it)
            if i0['k'] == 'Adt' and canon(i0['adt']) == 'std::ops::Range' and len(vs) == 1 and vs[0] and any(x['k'] == 'Call' and callee_name(x) == 'std::collections::HashMap::insert' for x in walk(body)):
                r[vs[0]] = 'color'
            elif root_var(it) == pv[0] and len(vs) == 1 and vs[0]:
                r[vs[0]] = 'edge'
        for x in walk(t['body']):
            if x['k'] == 'Call' and callee_name(x) == 'std::collections::HashMap::insert':
                M = root_var(x['args'][0]); val = strip(x['args'][2])
                while val['k'] == 'Call' and callee_decl(val) == 'std::clone::Clone::clone': val = strip(val['args'][0])
                if M and val['k'] == 'Field' and r.get(root_var(val['lhs'])) == 'edge': r[M] = 'vertex_map'
                if M and val['k'] in ('VarRef', 'UpvarRef') and r.get(val['var']) == 'color': r[M] = 'color_map'
        for (it, p, body) in for_loops(t['body']):
            vs = pat_vars(p)
            if is_enumerate(it) and len(vs) == 2 and T and any(x['k'] == 'Call' and callee_name(x) == 'std::vec::Vec::push' for x in walk(body)):
                if vs[0]: r[vs[0]] = 'i'
                if vs[1]: r[vs[1]] = 'v1'
                xi = strip(strip(it)['args'][0])
                X = root_var(xi['args'][0]) if xi['k'] == 'Call' and xi['args'] else root_var(xi)
                if X: r[X] = 'vertices'
                for (it2, p2, body2) in for_loops(body):
                    vs2 = pat_vars(p2)
                    if len(vs2) == 1 and vs2[0]: r[vs2[0]] = 'v2'
        out['augment_colors'] = r
    # main: the selection is the value of generate_graph / read_graph
    t = c.ithir.get(G + 'main')
    if t is not None:
        r = {}
        for b in walk(t['body']):
            if b['k'] != 'Block': continue
            for st in b['stmts']:
                if st['k'] == 'Let' and st.get('init') is not None and unwrap_pat(st['pat'])['k'] == 'Binding':
                    if any(x['k'] == 'Call' and callee_name(x) in (G + 'generate_graph', G + 'read_graph') for x in walk(st['init'])):
                        r[unwrap_pat(st['pat'])['var']] = 'selection'
        # the colour step written as a new binding: `let selection = match args.colors { Some(n) => augment_colors(&selection, n)?, None => selection }`
        # - the new local is the selection from there on, the old one is the uncoloured list and must not be written out
        sh = coloured_shadow(c, t, r)
        if sh is not None:
            r[sh[1]] = 'uncoloured selection'; r[sh[0]] = 'selection'
        out['main'] = r
    return out

def coloured_shadow(c, t, r):
    """(new local, old local) when main binds a new local to  args.colors ? augment_colors(&old, N) : old  with old a selection and N
    the number given with --colors; None otherwise.  Decided on value provenance (flow), not on the spelling of the statement."""
    import flow as _flow
    fl = _flow.Flow(c, max_depth=0)
    blk = t['body']
    while blk['k'] in ('Use', 'NeverToAny'): blk = blk['source']
    if blk['k'] != 'Block': return None
    env = {}
    for st in blk['stmts']:
        if st['k'] != 'Let' or st.get('init') is None: continue
        q = unwrap_pat(st['pat'])
        try: v = fl.ev(st['init'], env)
        except Exception: v = ('unknown', 'error')
        if q['k'] != 'Binding' or not fl.bind(st['pat'], v, env): 
            for x in _flow.walk_pat_vars(st['pat']): env[x] = ('unknown', 'pattern')
            continue
        if v[0] == 'optcase' and v[1][0] == 'field' and v[1][2] == 'colors' and not q.get('mutable'):
            b, th, el = v[2], v[3], v[4]
            for old, role in r.items():
                if role != 'selection' or old not in env or old == q['var']: continue
                S = env[old]
                if el == S and th[0] == 'call' and th[1] == 'random_graph_gen::augment_colors' and len(th[2]) == 2 and th[2][0] == S and th[2][1] == b:
                    return (q['var'], old)
    return None

_LOWERED = {}
def lowered(c, t):
    """the function with iterator chains that feed a `for` loop or an `extend` written out as loop nests (facts.iter_chains_as_loops)"""
    if t is None: return None
    if id(t) not in _LOWERED:
        import facts as _facts
        nb = _facts.iter_chains_as_loops(t['body'], c)
        u = dict(t); u['body'] = nb
        _LOWERED[id(t)] = (t, u if any(isinstance(x, dict) and x.get('synthetic') == 'iter-chain' for x in _facts._all_nodes(nb)) else t)
    return _LOWERED[id(t)][1]

def unrolled(t):
    """the function with its loops over spelt-out arrays written out (`for end in [&e.0, &e.1] {..}` is its two copies)"""
    if t is None: return None
    if id(t) not in _UNROLLED:
        import facts as _facts
        u = dict(t); u['body'] = _facts.unroll_array_loops(t['body']); _UNROLLED[id(t)] = (t, u)
    return _UNROLLED[id(t)][1]
_UNROLLED = {}

def helper_result_var(e):
    """the local an inlined helper hands back: `{ ..; v }`, `{ ..; Ok(v) }?` - None when the value is anything else"""
    e = strip(e)
    if e['k'] == 'Match' and str(e.get('source', '')).startswith('TryDesugar'):
        q = strip(e['scrutinee'])
        if q['k'] == 'Call' and callee_decl(q) == 'std::ops::Try::branch':
            a = strip(q['args'][0])
            if a['k'] == 'Block' and a.get('inlined_from') and a.get('expr') is not None and not any(z['k'] == 'Return' and 'QuestionMark' not in str(z.get('exp')) for z in walk(a)):
                v = strip(a['expr'])
                if v['k'] == 'Adt' and v.get('variant') == 'Ok' and canon(v['adt']) == 'std::result::Result':
                    w = strip(v['fields'][0]['expr'])
                    if w['k'] == 'VarRef': return w['var']
        return None
    if e['k'] == 'Block' and e.get('inlined_from') and e.get('expr') is not None and not any(z['k'] == 'Return' and 'QuestionMark' not in str(z.get('exp')) for z in walk(e)):
        w = strip(e['expr'])
        if w['k'] == 'VarRef': return w['var']
    return None

def rolename(roles, var):
    if var is None: return None
    return roles.get(var, '~' + var.split('#')[0])          # no role: the spelling alone never stands for a role (a shadowing local of the same name is another value)

def rule_random_graph(F, R):
    c = F.crate('random_graph_gen')
    if c is None:
        R.violation('random_graph_gen / L / anchor', 'UNDECIDABLE', 'crate not found'); return
    G = 'random_graph_gen::'
    ROLES = graph_roles(c)
    t = lowered(c, c.ithir.get(G + 'generate_graph'))
    roles = ROLES.get('generate_graph', {})
    if t is None:
        R.violation(G + 'generate_graph / L / anchor', 'UNDECIDABLE', 'generate_graph not found')
    else:
        # (a) refuse, never truncate
        body = t['body']
        tail = body['expr'] if body['k'] == 'Block' else None
        ok = False; why = 'the function result is not `if let Some(..) = edges.get(0..num_edges) { Ok(..) } else { Err(..) }`'
        tried = set()        # Ok(..) values under a `?` (an inlined helper's own result, unwrapped on the spot) are not results of this function
        for q in walk(body):
            if q['k'] == 'Call' and __import__('facts').callee_decl(q) == 'std::ops::Try::branch':
                for a in q['args']:
                    tried.update(id(z) for z in walk(a))
        oks = [x for x in walk(body) if x['k'] == 'Adt' and canon(x['adt']) == 'std::result::Result' and x['variant'] == 'Ok' and id(x) not in tried]
        while tail is not None and tail['k'] in ('Use', 'NeverToAny'): tail = tail['source']
        parts = None        # (pattern of the Some arm, checked call, value when Some, value when None) - `if let` and `match` forms alike
        if tail is not None and tail['k'] == 'If' and tail['cond']['k'] == 'Let' and tail['else'] is not None:
            parts = (tail['cond']['pat'], tail['cond']['expr'], tail['then'], tail['else'])
        elif tail is not None and option_match(tail) is not None:
            scr, some, none = option_match(tail)
            parts = (some['pat'], scr, some['body'], none['body'])
        if parts is not None:
            pat = unwrap_pat(parts[0]); call = strip(parts[1])
            if pat['k'] == 'Variant' and pat['variant'] == 'Some' and call['k'] == 'Call' and callee_name(call) == 'core::slice::<impl [T]>::get':
                rng = strip(call['args'][1])
                src = root_var(call['args'][0])
                rng_ok = rng['k'] == 'Adt' and canon(rng['adt']) == 'std::ops::Range' and len(rng['fields']) == 2 and \
                    strip(rng['fields'][0]['expr']).get('value') == '0' and rolename(roles, root_var(rng['fields'][1]['expr'])) == 'num_edges'
                bound = unwrap_pat(pat['subs'][0]['pat']).get('var') if pat['subs'] else None
                then_ok = [x for x in walk(parts[2]) if x['k'] == 'Adt' and x['variant'] == 'Ok' and canon(x['adt']) == 'std::result::Result']
                then_uses = then_ok and root_var(then_ok[0]['fields'][0]['expr']) == bound
                else_err = any(x['k'] == 'Adt' and x['variant'] == 'Err' and canon(x['adt']) == 'std::result::Result' for x in walk(parts[3])) \
                    and not any(x['k'] == 'Adt' and x['variant'] == 'Ok' and canon(x['adt']) == 'std::result::Result' for x in walk(parts[3]))
                ok = rng_ok and bool(then_uses) and else_err and len(oks) == 1 and rolename(roles, src) == 'edges'
                if not rng_ok: why = 'the slice taken is not 0..num_edges'
                elif len(oks) != 1: why = 'there are %d Ok(..) results; only the checked slice may be returned' % len(oks)
        if not ok:
            # the other way to say it: `if num_edges > edges.len() { return Err(..) }`, then `edges.truncate(num_edges)`, then `Ok(edges)`
            N = Atomizer(t, roles)
            guards = []      # statements `if C { return Err }` of the function's own block, in order, with the statements after them
            blk = body
            while blk['k'] in ('Use', 'NeverToAny'): blk = blk['source']
            stmts = list(blk['stmts']) + ([{'k': 'Expr', 'expr': blk['expr']}] if blk.get('expr') is not None else []) if blk['k'] == 'Block' else []
            def short_guard(c):
                """condition means num_edges > len(edges)"""
                c = strip(c)
                def is_len(x):
                    x = strip(x)
                    return x['k'] == 'Call' and (callee_name(x) or '').split('::')[-1] == 'len' and rolename(roles, root_var(x['args'][0])) == 'edges'
                def is_k(x): return rolename(roles, root_var(x)) == 'num_edges' and strip(x)['k'] in ('VarRef', 'UpvarRef')
                if c['k'] == 'Binary' and c['op'] == 'Gt': return is_k(c['lhs']) and is_len(c['rhs'])
                if c['k'] == 'Binary' and c['op'] == 'Lt': return is_len(c['lhs']) and is_k(c['rhs'])
                return False
            state = 0
            for st in stmts:
                x = st['expr'] if st['k'] == 'Expr' else st.get('init')
                if x is None: continue
                y = x
                while y['k'] in ('Use', 'NeverToAny') or (y['k'] == 'Block' and not y['stmts'] and y['expr'] is not None): y = y['source'] if y['k'] != 'Block' else y['expr']
                if state == 0 and y['k'] == 'If' and y['cond']['k'] != 'Let' and y.get('else') is None and short_guard(y['cond']) and diverges(y['then']) and \
                        any(z['k'] == 'Adt' and z['variant'] == 'Err' for z in walk(y['then'])):
                    state = 1; continue
                if state == 1 and y['k'] == 'Call' and callee_name(y) == 'std::vec::Vec::truncate' and rolename(roles, root_var(y['args'][0])) == 'edges' and rolename(roles, root_var(y['args'][1])) == 'num_edges':
                    state = 2; continue
                if state >= 1 and any(z['k'] == 'Call' and rolename(roles, root_var(z['args'][0]) if z['args'] else None) == 'edges' and (callee_name(z) or '').split('::')[-1] in ('push', 'extend', 'insert', 'append', 'clear', 'pop', 'remove', 'retain', 'drain') for z in walk(y)):
                    state = -1; break
                if state == 2 and y['k'] == 'Adt' and y['variant'] == 'Ok' and canon(y['adt']) == 'std::result::Result' and rolename(roles, root_var(y['fields'][0]['expr'])) == 'edges' and len(oks) == 1:
                    state = 3
            if state == 3: ok = True
            elif state in (1, 2): why = 'after the feasibility test the candidate list must be cut to num_edges (`truncate`) and returned'
        # (a0) the graph has exactly the requested number of vertices: the candidate list is built over (0..num_vertices) mapped to names
        import flow as _fl0
        fl0 = _fl0.Flow(c, max_depth=0)
        vp = [v for v, nm in roles.items() if nm == 'vertices']
        okv = False; whyv = 'the vertex list was not found'
        for b_ in walk(t['body']):
            if b_['k'] != 'Block': continue
            for st_ in b_['stmts']:
                if st_['k'] == 'Let' and st_.get('init') is not None and unwrap_pat(st_['pat']).get('var') in vp:
                    rngs_ = [x for x in walk(st_['init']) if x['k'] == 'Adt' and canon(x['adt']) == 'std::ops::Range']
                    incl_ = [x for x in walk(st_['init']) if x['k'] == 'Call' and callee_name(x) == 'std::ops::RangeInclusive::new']
                    if len(rngs_) == 1 and not incl_:
                        lo_ = [f['expr'] for f in rngs_[0]['fields'] if f['name'] == 'start'][0]; hi_ = [f['expr'] for f in rngs_[0]['fields'] if f['name'] == 'end'][0]
                        okv = str(strip(lo_).get('value')) == '0' and rolename(roles, root_var(hi_)) == 'num_vertices' and strip(hi_)['k'] in ('VarRef', 'UpvarRef')
                        whyv = 'the vertices must be numbered 0..num_vertices (found %s..%s)' % (pp(lo_)[:20], pp(hi_)[:30])
                        skip_ = [x for x in walk(st_['init']) if x['k'] == 'Call' and (callee_name(x) or '').split('::')[-1] in ('skip', 'take', 'filter', 'step_by', 'rev', 'skip_while', 'take_while', 'dedup')]
                        if skip_: okv = False; whyv = 'the vertex list is thinned by %s' % (callee_name(skip_[0]) or '').split('::')[-1]
                    elif incl_ and not rngs_:
                        lo_, hi_ = incl_[0]['args']
                        okv = str(strip(lo_).get('value')) == '1' and rolename(roles, root_var(hi_)) == 'num_vertices' and strip(hi_)['k'] in ('VarRef', 'UpvarRef')
                        whyv = 'the vertices must be as many as requested (found %s..=%s)' % (pp(lo_)[:20], pp(hi_)[:30])
        R.count('L:vertex-range'); R.obligation(okv, 'L vertex range')
        if not okv: R.violation(G + 'generate_graph / L / number of vertices', 'L', whyv, t['span']['loc'])
        R.count('L:refuse-not-truncate'); R.obligation(ok, 'L refuse')
        if not ok: R.violation(G + 'generate_graph / L / refuse-not-truncate', 'L', 'an infeasible request must be refused: ' + why, t['span']['loc'])
        # (b) candidates: directed under i != j, undirected from i+1
        sites = push_sites(t, lambda e: callee_name(e) == 'std::vec::Vec::push' and rolename(roles, root_var(e['args'][0])) == 'edges')
        R.count('L:candidate-push-sites', len(sites))
        dir_sites = [s for s in sites if any(c_['k'] != 'Let' and rolename(roles, root_var(c_)) == 'undirected' and not pol for (c_, pol) in s[1])]
        und_sites = [s for s in sites if any(c_['k'] != 'Let' and rolename(roles, root_var(c_)) == 'undirected' and pol for (c_, pol) in s[1])]
        ok = len(dir_sites) == 1 and len(und_sites) == 1 and len(sites) == 2
        R.obligation(ok, 'L push sites')
        if not ok: R.violation(G + 'generate_graph / L / candidate sites', 'L', 'expected one candidate insertion per mode (directed / undirected), found %d / %d' % (len(dir_sites), len(und_sites)))
        if ok:
            def spec_dir(a):
                if a[('flag', 'undirected')]: return None
                return not a[('eq', 'i', 'j')]
            truth_table(R, G + 'generate_graph', 'directed candidate (i,j)', dir_sites, spec_dir, t['span']['loc'], t=t, roles=roles)
            # undirected: inner iteration source is vertices.get((i + 1)..)
            okU = False
            for (cnd, pol) in und_sites[0][1]:
                if cnd['k'] == 'Let' and pol:
                    call = strip(cnd['expr'])
                    if call['k'] == 'Call' and callee_name(call) == 'core::slice::<impl [T]>::get' and rolename(roles, root_var(call['args'][0])) == 'vertices':
                        rng = strip(call['args'][1])
                        if rng['k'] == 'Adt' and canon(rng['adt']) == 'std::ops::RangeFrom':
                            st = strip(rng['fields'][0]['expr'])
                            okU = st['k'] == 'Binary' and st['op'] == 'Add' and rolename(roles, root_var(st['lhs'])) == 'i' and strip(st['rhs']).get('value') == '1'
            R.count('L:undirected-slice'); R.obligation(okU, 'L undirected slice')
            if not okU: R.violation(G + 'generate_graph / L / undirected candidates', 'L', 'undirected candidates for vertex i must be taken from vertices[(i+1)..] (no self pair, each unordered pair once)')
            for (call, _) in sites:
                a = Atomizer(t, roles).norm(call['args'][1])
                R.obligation(a == '(v1,v2)', None)
                if a != '(v1,v2)': R.violation(G + 'generate_graph / L / candidate pair', 'L', 'candidate pushed as %s' % a, call['loc'])
    # (c) what main passes on: value provenance of the arguments of generate_graph / read_graph, under the conditions of the call
    m = c.ithir.get(G + 'main')
    if m is not None:
        import flow
        fl = flow.Flow(c)
        found = []
        flow.scan(fl, m['body'], {}, lambda x: x.get('k') == 'Call' and callee_name(x) in (G + 'generate_graph', G + 'read_graph'), found)
        ARGS = ('args',)
        fld = lambda n: ('field', ARGS, n)
        unwrap = lambda x: ('some_payload', x)
        V = unwrap(fld('vertices'))
        def poly(tm):
            if tm == V: return {1: Fraction(1)}
            if tm[0] == 'lit': return {0: Fraction(int(tm[1]))}
            if tm[0] == 'bin':
                x, y = poly(tm[2]), poly(tm[3])
                if tm[1] == 'Add': return padd(x, y)
                if tm[1] == 'Sub': return padd(x, {k: -v for k, v in y.items()})
                if tm[1] == 'Mul':
                    o = {}
                    for i, p_ in x.items():
                        for j, q_ in y.items(): o[i + j] = o.get(i + j, 0) + p_ * q_
                    return o
                if tm[1] == 'Div' and list(y) == [0] and y[0] != 0 and y[0].denominator == 1:
                    d = int(y[0])
                    if any(cf.denominator != 1 for cf in x.values()): raise ValueError('division of a non-integer polynomial')
                    for r_ in range(abs(d)):
                        if sum(int(cf) * r_ ** k for k, cf in x.items()) % d != 0:
                            raise ValueError('integer division `%s / %d` truncates (e.g. when vertices = %d mod %d)' % (flow.show(tm[2])[:40], d, r_, abs(d)))
                    return {k: v / y[0] for k, v in x.items()}
            raise ValueError('not a polynomial in the number of vertices: ' + flow.show(tm)[:60])
        gens = [(n_, env) for n_, env in found if callee_name(n_) == G + 'generate_graph']
        reads = [(n_, env) for n_, env in found if callee_name(n_) == G + 'read_graph']
        def cond_val(env, name):
            for ct, pol in env.get('#conds', ()):
                if ct == fld(name): return pol
            return None
        seen_complete = seen_random = False
        for n_, env in gens:
            a0, a1, a2 = [fl.ev(x, env) for x in n_['args']]
            comp = cond_val(env, 'complete')
            okc = a0 == V and a2 == fld('undirected')
            why = 'generate_graph must receive args.vertices, the edge count and args.undirected unchanged (got %s, %s, %s)' % (flow.show(a0), flow.show(a1)[:80], flow.show(a2))
            if okc and comp is True:
                seen_complete = True
                try:
                    okc = a1[0] == 'ite' and a1[1] == fld('undirected')
                    if okc:
                        pu, pd = poly(a1[2]), poly(a1[3])
                        okc = pu == {2: Fraction(1, 2), 1: Fraction(-1, 2)} and pd == {2: Fraction(1), 1: Fraction(-1)}
                        why = '--complete must request V(V-1)/2 undirected resp. V(V-1) directed edges; got %s / %s' % (pu, pd)
                        R.sample({'rule': 'L', 'complete graph edge counts': {'undirected': str(pu), 'directed': str(pd)}})
                    else: why = '--complete must choose the edge count by args.undirected; got %s' % flow.show(a1)[:100]
                except ValueError as ex:
                    okc = False; why = '--complete edge count: %s' % ex
                R.count('L:complete-count'); R.obligation(okc, 'L complete')
                if not okc: R.violation(G + 'main / L / --complete', 'L', why, n_.get('loc'))
            elif okc and comp is False:
                seen_random = True
                okc = a1 == unwrap(fld('edges'))
                R.count('L:random-call'); R.obligation(okc, 'L random call')
                if not okc: R.violation(G + 'main / L / random graph call', 'L', 'without --complete the requested number of edges must be args.edges; got %s' % flow.show(a1)[:100], n_.get('loc'))
            else:
                R.obligation(False, 'L gen call')
                R.violation(G + 'main / L / generate_graph call', 'L', why if not okc else 'a call of generate_graph that is not decided by --complete', n_.get('loc'))
        if not (seen_complete and seen_random):
            R.obligation(False, 'L gen calls')
            R.violation(G + 'main / L / generate_graph calls', 'L', 'expected one call for --complete and one for a random graph (found complete=%s random=%s)' % (seen_complete, seen_random))
        okr = len(reads) == 1 and fl.ev(reads[0][0]['args'][1], reads[0][1]) == fld('undirected')
        R.count('L:convert-call'); R.obligation(okr, 'L convert call')
        if not okr: R.violation(G + 'main / L / --convert call', 'L', '--convert must read the graph with args.undirected unchanged')
    # (d) read_graph
    t = c.ithir.get(G + 'read_graph')
    roles = ROLES.get('read_graph', {})
    if t is not None:
        sites = push_sites(t, lambda e: callee_name(e) == 'std::vec::Vec::push' and rolename(roles, root_var(e['args'][0])) == 'edges')
        R.count('L:read_graph-push-sites', len(sites))
        def spec(a):
            return not (a[('flag', 'undirected')] and a[('in', '(edge[1],edge[0])', 'edges')])
        truth_table(R, G + 'read_graph', 'edge insertion', sites, spec, t['span']['loc'], t=t, roles=roles)
        for (call, _) in sites:
            a = Atomizer(t, roles).norm(call['args'][1])
            R.obligation(a == '(edge[0],edge[1])', None)
            if a != '(edge[0],edge[1])': R.violation(G + 'read_graph / L / pair', 'L', '--convert must reproduce each edge as given; pushed %s' % a, call['loc'])
    # (e) augment_colors
    t = unrolled(c.ithir.get(G + 'augment_colors'))
    roles = ROLES.get('augment_colors', {})
    if t is not None:
        sites = push_sites(t, lambda e: callee_name(e) == 'std::vec::Vec::push' and rolename(roles, root_var(e['args'][0])) == 'new_edges')
        R.count('L:colour-push-sites', len(sites))
        def spec(a):
            diffv = not a[('eq', 'vertex_map[v1]', 'vertex_map[v2]')]
            diffc = not a[('eq', 'color_map[v1]', 'color_map[v2]')]
            adj = a[('in', '(vertex_map[v1],vertex_map[v2])', 'edges')] or a[('in', '(vertex_map[v2],vertex_map[v1])', 'edges')]
            return diffv and (diffc or not adj)
        truth_table(R, G + 'augment_colors', 'product-graph edge', sites, spec, t['span']['loc'], t=t, roles=roles)
        for (call, _) in sites:
            a_ = Atomizer(t, roles).norm(call['args'][1])
            okq = a_ in ('(v1,v2)', '(v2,v1)')
            R.count('L:colour-pushed-pairs'); R.obligation(okq, 'L colour pushed pair')
            if not okq: R.violation(G + 'augment_colors / L / product-graph edge ends', 'L', 'the edge added for a pair of product vertices must join the two vertices of the pair; pushed %s' % a_, call['loc'])
        # ... and every unordered pair of product vertices is looked at: for the i-th vertex the partners are the whole list, or its tail
        # from i or i + 1 on (`vertices.get((i + 1)..)`); a tail that starts later (or a head) leaves pairs out
        okp = True; whyp = ''          # another way of walking the pairs (`while let Some((v1, rest)) = remaining.split_first()`) is not read: only a tail that can be seen to start too late is reported
        for (it1, p1, body1) in for_loops(t['body']):
            vs1 = pat_vars(p1)
            if not (is_enumerate(it1) and len(vs1) == 2 and roles.get(vs1[1]) == 'v1'): continue
            for (it2, p2, body2) in for_loops(body1):
                vs2 = pat_vars(p2)
                if not (len(vs2) >= 1 and roles.get(vs2[-1]) == 'v2'): continue
                src = strip(it2)
                while src['k'] == 'Call' and src['args'] and (callee_name(src) or '').split('::')[-1] in ('iter', 'into_iter', 'deref', 'as_slice'): src = strip(src['args'][0])
                rv = root_var(src) if src['k'] in ('VarRef', 'UpvarRef') else None
                tail = None
                okp = False
                if rv is not None and roles.get(rv) == 'vertices': okp = True; break          # the whole list
                # a slice bound by `if let Some(rest) = vertices.get(START..)` / `&vertices[START..]`
                cands_ = []
                for x in walk(body1):
                    if x['k'] == 'Call' and callee_name(x) == 'core::slice::<impl [T]>::get' and len(x['args']) == 2: cands_.append(strip(x['args'][1]))
                    if x['k'] == 'Index': cands_.append(strip(x['index']))
                    if x['k'] == 'Call' and callee_decl(x) == 'std::ops::Index::index' and len(x['args']) == 2: cands_.append(strip(x['args'][1]))
                rngs_ = [r_ for r_ in cands_ if r_['k'] == 'Adt' and canon(r_['adt']) in ('std::ops::RangeFrom',)]
                others_ = [r_ for r_ in cands_ if r_['k'] == 'Adt' and canon(r_['adt']).startswith('std::ops::Range') and canon(r_['adt']) != 'std::ops::RangeFrom']
                if len(rngs_) == 1 and not others_:
                    st_ = strip(rngs_[0]['fields'][0]['expr'])
                    i_ok = st_['k'] in ('VarRef', 'UpvarRef') and st_['var'] == vs1[0]
                    i1_ok = st_['k'] == 'Binary' and st_['op'] == 'Add' and strip(st_['lhs']).get('var') == vs1[0] and str(strip(st_['rhs']).get('value')) == '1'
                    okp = i_ok or i1_ok
                    whyp = 'the partners of the i-th product vertex must be the list from i or i + 1 on; found the tail from %s' % pp(st_)[:40]
                else:
                    whyp = 'the partners of a product vertex are taken from %s, which is neither the whole vertex list nor its tail from i (+ 1)' % pp(src)[:50]
                break
            break
        R.count('L:colour-pair-space'); R.obligation(okp, 'L colour pairs')
        if not okp: R.violation(G + 'augment_colors / L / pairs of product vertices', 'L', whyp, t['span']['loc'])

# ------------------------------------------------------------------------------------------------ emitted templates (token level)
def tokenize_text(pattern, text):
    """tokenise a piece of emitted formula text with the repository's tokenizer pattern and the reference token tables;
    placeholders `{}` are read as the identifier ARG; quoted comments vanish, as in the real tokenizer"""
    import re as _re
    from engine_t import REF_SYMBOLS, REF_KEYWORDS
    text = text.replace('{}', 'ARG')
    out = []
    for m in _re.finditer(pattern, text):
        if m.group('symbol') is not None: out.append(REF_SYMBOLS.get(m.group('symbol'), '?' + m.group('symbol')))
        elif m.group('countable') is not None: out.append('NUM:' + m.group('countable'))
        elif m.group('reference') is not None: out.append('REF')
        elif m.group('identifier') is not None:
            w = m.group('identifier')
            out.append(REF_KEYWORDS.get(w, 'VAR:' + w))
        elif m.group('comment') is not None: pass
    return out

def emitted_templates(c, fn_prefix):
    import engine_u
    out = []
    # the function itself and every closure reachable from it (closures of inlined helpers included)
    todo = [fn_prefix]; seen = set()
    while todo:
        name = todo.pop()
        if name in seen or name not in c.ithir: continue
        seen.add(name)
        for x in walk(c.ithir[name]['body']):
            if x['k'] == 'Closure': todo.append(canon(x['def']))
            # local functions used as values (`.map(shadow_clause)`) or called without having been inlined
            if x['k'] == 'ZstLiteral' and 'fn' in x:
                g = canon(x['fn'].get('res') or x['fn']['def'])
                if g in c.ithir and g not in __import__('facts').baseline_fns(): todo.append(g)
            if x['k'] == 'Call':
                g = callee_name(x)
                if g in c.ithir and g not in __import__('facts').baseline_fns(): todo.append(g)
    for name in sorted(seen):
        t = c.ithir[name]
        for x in walk(t['body']):
            if x['k'] == 'Literal' and x.get('lit') == 'ByteStr':
                try: out.append((engine_u.decode_template(x['value']), x['loc']))
                except Exception as ex: out.append(('<undecodable: %s>' % ex, x['loc']))
            if x['k'] == 'Literal' and x.get('lit') == 'Str' and x['loc'].split(':')[0].endswith('main.rs'):
                out.append((x['value'], x['loc']))
    return out

def rule_max_clique_templates(F, R):
    """the pieces of text the generator emits, tokenised with the language's own token table, form the reference skeleton:
    constraints `-(A & B) &` (or `true &`), then `true` (--all) or `forall L # ( -(v_A & v_B) & ... | true ) => [L] >= [L']`"""
    from engine_t import tokenizer_pattern
    c = F.crate('max_clique_gen')
    pat, _ = tokenizer_pattern(F.lib())
    if c is None or pat is None:
        R.violation('max_clique_gen::main / L / templates anchor', 'UNDECIDABLE', 'generator or tokenizer pattern not found'); return
    toks = []
    for text, loc in emitted_templates(c, 'max_clique_gen::main'):
        if text.startswith('<undecodable'):
            R.violation('max_clique_gen::main / L / template', 'UNDECIDABLE', 'format template with directives other than {}: %s' % text, loc); return
        tk = tokenize_text(pat, text)
        if tk and not (len(tk) <= 3 and all(x.startswith('NUM:') for x in tk)):      # skip the version string "0.1.0"
            toks.append((tuple(tk), text, loc))
    got = {}
    for tk, text, loc in toks: got.setdefault(tk, []).append((text, loc))
    V = 'VAR:ARG'; VV = 'VAR:v_ARG'
    want = {
        ('True', 'And'): 'no complement edges: `true &`',
        ('Not', 'OpenParen', V, 'And', V, 'CloseParen', 'And'): 'one constraint `-(A & B) &` per complement edge',
        ('True',): '`true` closing the conjunction (--all) / empty constraint block of the maximality part',
        ('Forall', V, 'Hash', 'OpenParen'): '`forall <v_ copies> # (`',
        ('Not', 'OpenParen', VV, 'And', VV, 'CloseParen'): '`-(v_A & v_B)` per complement edge in the maximality part',
        ('And',): 'constraints of the maximality part joined by `&`',
        ('Comma',): 'list separator',
        (V,): 'the joined constraint block',
        ('CloseParen', 'Implies', 'OpenSquare', V, 'CloseSquare', 'Geq', 'OpenSquare', V, 'CloseSquare'): '`) => [V] >= [v_V]`',
        (VV,): 'v_-prefixed copy of a vertex name',
    }
    for tk, why in want.items():
        ok = tk in got
        R.count('L:template-skeleton-pieces'); R.obligation(ok, 'L tmpl %s' % (tk,))
        if not ok:
            R.violation('max_clique_gen::main / L / template %s' % ' '.join(tk), 'L', 'no emitted piece of text tokenises to %s (%s); pieces found: %s' % (' '.join(tk), why, sorted(' '.join(k) for k in got)))
    extra = [k for k in got if k not in want]
    R.obligation(not extra, 'L tmpl extra')
    for k in extra:
        R.violation('max_clique_gen::main / L / unexpected template %s' % ' '.join(k), 'L', 'emitted text %r tokenises to %s, which is not part of the reference skeleton of the clique formula' % (got[k][0][0], ' '.join(k)), got[k][0][1])
    R.sample({'rule': 'L templates', 'pieces': {' '.join(k): v[0][0] for k, v in got.items()}})

def rule_comment_holes(F, R, crate_name):
    """a remark in the emitted formula is the text between two double quotes: whatever a generator formats into a remark must not be able to
    contain a double quote (it would end the remark early and turn the rest of the line into formula text).  Holes inside a remark may show
    integers, string constants, or text from which the quote character has been removed."""
    import engine_u
    c = F.crate(crate_name)
    if c is None:
        R.violation('%s / L / anchor' % crate_name, 'UNDECIDABLE', 'crate not found'); return
    n = 0
    import facts as _facts
    def fmt_parts(e):
        """(template text, argument expressions) of the first format_args below e, or None"""
        import engine_n
        for b in walk(e):
            if b['k'] == 'Block' and 'format_args' in str(b.get('exp')) and b['stmts']:
                tm0, args = engine_n.format_block_parts(b)
                if tm0 is None: return None
                try: text = engine_u.decode_template(tm0['value'])
                except Exception: return None
                return text, (args or [])
        return None
    for name, t in sorted(c.ithir.items()):
        if '<Args as clap::' in name or '@inl' in name: continue
        if name.split('::{closure')[0] not in _facts.baseline_fns(): continue          # a new helper is read where it is inlined, with its actual arguments
        lets = {}
        for b in walk(t['body']):
            if b['k'] == 'Block':
                for st in b['stmts']:
                    if st['k'] == 'Let' and st.get('init') is not None and (st['init'].get('exp') is None or strip(st['init'])['k'] == 'Literal'):
                        q = unwrap_pat(st['pat'])
                        if q['k'] == 'Binding' and not q.get('mutable'): lets[q['var']] = st['init']          # includes `let version = env!("CARGO_PKG_VERSION");`
        def quote_free(e, depth=0):
            import engine_n
            e = engine_n.peel_text(e)
            ty = e.get('ty', {})
            while ty.get('k') == 'Ref': ty = ty['to']
            if ty.get('k') in ('Uint', 'Int', 'Bool'): return True
            if e['k'] == 'Literal' and e.get('lit') == 'Str': return '"' not in e['value']
            if e['k'] in ('VarRef', 'UpvarRef') and e['var'] in lets and depth < 4: return quote_free(lets[e['var']], depth + 1)
            if e['k'] == 'NamedConst':
                ct = c.ithir.get(canon(e['def']))
                return ct is not None and depth < 4 and quote_free(ct['body'], depth + 1)
            if e['k'] == 'Block' and not e['stmts'] and e.get('expr') is not None: return quote_free(e['expr'], depth + 1)
            if e['k'] == 'Call' and ((callee_name(e) or '').endswith('fmt::format') or (callee_name(e) or '').endswith('::must_use')):
                fp = fmt_parts(e)             # a nested format!(..): its literal pieces and its own holes
                if fp is not None and depth < 4: return '"' not in fp[0] and all(quote_free(a, depth + 1) for a in fp[1])
            if e['k'] == 'Call' and (callee_name(e) or '').split('::')[-1] == 'replace' and len(e['args']) == 3:
                pat, rep = strip(e['args'][1]), strip(e['args'][2])
                pv = pat.get('value') if pat['k'] == 'Literal' else None
                return pv in ('"', 34, '34') and rep['k'] == 'Literal' and rep.get('lit') == 'Str' and '"' not in rep['value']
            return False
        for e in walk(t['body']):
            if not (e['k'] == 'Call' and (callee_name(e) or '').endswith('write_fmt')): continue
            fp = fmt_parts(e)
            if fp is None: continue
            text, args = fp
            if '"' not in text or '{}' not in text: continue
            parts = text.split('{}')
            if args is None or len(parts) != len(args) + 1: continue
            inside = False
            for piece, a in zip(parts[:-1], args):
                if piece.count('"') % 2 == 1: inside = not inside
                if not inside: continue
                n += 1
                ok = quote_free(a)
                R.count('L:remark-holes'); R.obligation(ok, 'L remark hole %s %s' % (name, e['loc']))
                if not ok:
                    R.violation('%s / L / text formatted into a remark' % name.split('::{closure')[0], 'L',
                                'the remark `%s` shows %s, which can contain a double quote: the remark would end there and the rest be read as formula text' % (text.strip()[:60], pp(a)[:40]), e['loc'])
    return n

def written_text(call):
    """(text, remaining arguments) of one `write!`/`writeln!`: the template with every hole whose argument is a string literal filled
    in (`writeln!(w, "{} G {{", keyword)` of an inlined helper called with "graph" is `graph G {`); a write without holes is its text"""
    import engine_u
    tm = [y for y in walk(call) if y['k'] == 'Literal' and y.get('lit') == 'ByteStr']
    if not tm:
        lits = [y['value'] for y in walk(call) if y['k'] == 'Literal' and y.get('lit') == 'Str']
        return (lits[0], []) if lits else (None, [])
    args = None
    for b in walk(call):
        if b['k'] == 'Block' and 'format_args' in str(b.get('exp')) and b['stmts']:
            for st in b['stmts']:
                if st['k'] == 'Let' and st.get('init') is not None and strip(st['init'])['k'] == 'Tuple' and args is None: args = strip(st['init'])['fields']
    try: text = engine_u.decode_template(tm[0]['value'])
    except (ValueError, IndexError, KeyError): return (None, [])
    if args is None: return (text, [])
    parts = text.split('{}')
    if len(parts) != len(args) + 1: return (None, list(args))
    res = parts[0]; rest = []
    for a, nxt in zip(args, parts[1:]):
        a0 = strip(a)
        if a0['k'] == 'Literal' and a0.get('lit') == 'Str': res += a0['value']
        else: res += '{}'; rest.append(a)
        res += nxt
    return (res, rest)

def rule_graph_writers(F, R):
    """C18 writers: every edge of the selection is written once, source first: `a,b` (edge list), `a -- b` inside `graph G {}` when
    undirected, `a -> b` inside `digraph G {}` otherwise; the selection written is the one that was generated / converted / coloured."""
    import engine_u
    c = F.crate('random_graph_gen')
    t = c.ithir.get('random_graph_gen::main') if c else None
    if t is None:
        R.violation('random_graph_gen::main / L / writers anchor', 'UNDECIDABLE', 'random_graph_gen::main not found'); return
    mroles = graph_roles(c).get('main', {})
    # walk the If-structure on args.dot / args.undirected and collect (context, template, argument fields, iterated variable)
    found = []
    import itertools as _it
    def flag_formula(c_):
        """condition over the two mode flags as a function of (dot, undirected), None if it mentions anything else"""
        c_ = strip(c_)
        if c_['k'] == 'Field' and c_.get('field_name') in ('dot', 'undirected'):
            i_ = 0 if c_['field_name'] == 'dot' else 1
            return lambda a: a[i_]
        if c_['k'] == 'Unary' and c_['op'] == 'Not':
            f_ = flag_formula(c_['arg'])
            return None if f_ is None else (lambda a: not f_(a))
        if c_['k'] == 'LogicalOp':
            l_, r_ = flag_formula(c_['lhs']), flag_formula(c_['rhs'])
            if l_ is None or r_ is None: return None
            return (lambda a: l_(a) and r_(a)) if c_['op'] == 'And' else (lambda a: l_(a) or r_(a))
        return None
    def assignments_of(ctx):
        return [a for a in _it.product((True, False), repeat=2) if all(a[0 if k_ == 'dot' else 1] == v_ for k_, v_ in ctx if k_ in ('dot', 'undirected'))]
    def ctx_of(ctx, asg):
        base = [kv for kv in ctx if kv[0] not in ('dot', 'undirected')]
        cx_ = [(fl_, asg[0][i]) for i, fl_ in enumerate(('dot', 'undirected')) if all(v[i] == asg[0][i] for v in asg)]
        cx_ = [kv for kv in cx_ if not (kv[0] == 'undirected' and ('dot', False) in cx_)]
        return base + cx_
    def visit(e, ctx):
        if not isinstance(e, dict): return
        if e['k'] == 'If' and e['cond']['k'] != 'Let' and strip(e['cond'])['k'] in ('LogicalOp',) and flag_formula(e['cond']) is not None:
            # a compound test over the mode flags (`if dot && undirected {..} else if dot && !undirected {..} else {..}`): each branch runs
            # under the flag assignments that reach it
            f_ = flag_formula(e['cond'])
            now = assignments_of(ctx)
            th_ = [a for a in now if f_(a)]; el_ = [a for a in now if not f_(a)]
            if th_: visit(e['then'], ctx_of(ctx, th_))
            if el_ and e['else'] is not None: visit(e['else'], ctx_of(ctx, el_))
            return
        if e['k'] == 'If' and e['cond']['k'] != 'Let':
            cnd = strip(e['cond'])
            neg = False
            while cnd['k'] == 'Unary' and cnd['op'] == 'Not': cnd = strip(cnd['arg']); neg = not neg
            if cnd['k'] == 'Field' and cnd.get('field_name') in ('dot', 'undirected'):
                fn = cnd['field_name']
                visit(e['then'], ctx + [(fn, not neg)])
                if e['else'] is not None: visit(e['else'], ctx + [(fn, neg)])
                return
        if e['k'] == 'Match' and e.get('source') == 'Normal' and strip(e['scrutinee'])['k'] == 'Tuple':
            # match (args.dot, args.undirected) { (true, true) => .., (true, false) => .., (false, _) => .. }
            flags = []
            for f in strip(e['scrutinee'])['fields']:
                g = strip(f)
                flags.append(g.get('field_name') if g['k'] == 'Field' and g.get('field_name') in ('dot', 'undirected') else None)
            if all(flags):
                def bool_of(p):
                    p = unwrap_pat(p)
                    if p['k'] == 'Wild' or p['k'] == 'Binding': return None
                    if p['k'] == 'Constant':
                        v = str(p.get('value'))
                        if 'true' in v or '0x01' in v: return True
                        if 'false' in v or '0x00' in v: return False
                    return 'bad'
                ok_arms = True
                for a in e['arms']:
                    p = unwrap_pat(a['pat'])
                    if a.get('guard') is not None or p['k'] not in ('Leaf', 'Wild'): ok_arms = False; break
                if ok_arms:
                    seen = []          # assignments already taken by earlier arms (first match wins)
                    import itertools
                    for a in e['arms']:
                        p = unwrap_pat(a['pat'])
                        want = [None] * len(flags)
                        if p['k'] == 'Leaf':
                            for sp in p['subs']: want[sp['field']] = bool_of(sp['pat'])
                        if 'bad' in want: ok_arms = False; break
                        mine = []
                        for vals in itertools.product((True, False), repeat=len(flags)):
                            if vals in seen: continue
                            if all(w is None or w == v for w, v in zip(want, vals)):
                                seen.append(vals); mine.append(vals)
                        if not mine: continue
                        # what this arm knows: the flags that have one value in every assignment it covers
                        # (contexts are keyed like the nested-if form: `undirected` only matters under dot)
                        cx_ = [(fl_, mine[0][i]) for i, fl_ in enumerate(flags) if all(v[i] == mine[0][i] for v in mine)]
                        cx_ = [kv for kv in cx_ if not (kv[0] == 'undirected' and ('dot', False) in cx_)]
                        visit(a['body'], ctx + cx_)
                    if ok_arms: return
        if e['k'] == 'Match' and strip(e['scrutinee'])['k'] == 'Call' and callee_decl(strip(e['scrutinee'])) == 'std::iter::IntoIterator::into_iter':
            src = root_var(strip(e['scrutinee'])['args'][0])
            # loop pattern: `edge` (fields .0 / .1 are used) or `(from, to)` (the components are named)
            comp = {}
            for m_ in walk(e['arms'][0]['body']):
                if m_['k'] == 'Match' and m_.get('source') == 'ForLoopDesugar':
                    for a_ in m_['arms']:
                        p_ = unwrap_pat(a_['pat'])
                        if p_['k'] == 'Variant' and p_['variant'] == 'Some' and p_['subs']:
                            q_ = unwrap_pat(p_['subs'][0]['pat'])
                            if q_['k'] == 'Leaf' and 'adt' not in q_:
                                for sp in q_['subs']:
                                    b_ = unwrap_pat(sp['pat'])
                                    if b_['k'] == 'Binding': comp[b_['var']] = sp['field']
                    break
            for x in walk(e):
                if x['k'] == 'Call' and (callee_name(x) or '').endswith('write_fmt'):
                    text, rest = written_text(x)
                    if text is not None and len(rest) == 2:
                        flds = []
                        for f in rest:
                            g = strip(f)
                            if g['k'] in ('VarRef', 'UpvarRef') and g['var'] in comp: flds.append(('<edge>', comp[g['var']]))
                            else: flds.append((root_var(g['lhs']) if g['k'] == 'Field' else None, g.get('field') if g['k'] == 'Field' else None))
                        found.append((tuple(ctx), text, flds, src, x['loc']))
            return
        if e['k'] == 'Call' and (callee_name(e) or '').endswith('write_fmt'):
            text, rest = written_text(e)
            if text is not None and not rest: found.append((tuple(ctx), text, None, None, e['loc']))
        for ch in children(e): visit(ch, ctx)
    visit(t['body'], [])
    edge_writes = [f for f in found if f[2] is not None]
    R.count('L:edge-writer-sites', len(edge_writes))
    want = {(('dot', True), ('undirected', True)): '{} -- {}', (('dot', True), ('undirected', False)): '{} -> {}', (('dot', False),): '{},{}'}
    heads = {(('dot', True), ('undirected', True)): 'graph G {', (('dot', True), ('undirected', False)): 'digraph G {'}
    for ctx, tmpl in want.items():
        ws = [f for f in edge_writes if f[0] == ctx]
        ok = len(ws) == 1 and ws[0][1] is not None and ws[0][1].strip() == tmpl
        if ok and ctx == (('dot', False),) and not ws[0][1].endswith('\n'): ok = False          # one edge per line: the edge list is read back line by line
        if ok:
            (a, i0), (b, i1) = ws[0][2]
            ok = a is not None and a == b and (i0, i1) == (0, 1) and rolename(mroles, ws[0][3]) == 'selection'
        R.obligation(ok, 'L writer %s' % (ctx,))
        if not ok:
            R.violation('random_graph_gen::main / L / writer %s' % ' '.join('%s=%s' % kv for kv in ctx), 'L',
                        'in mode %s every edge of `selection` must be written once as `%s` with (source, target) in that order; found %s' % (dict(ctx), tmpl, [(w[1], w[2], w[3]) for w in ws]))
    for ctx, h in heads.items():
        hs = [f[1].strip() for f in found if f[0] == ctx and f[2] is None]
        ok = h in hs and '}' in hs
        R.obligation(ok, 'L head %s' % (ctx,))
        if not ok:
            R.violation('random_graph_gen::main / L / dot header %s' % ' '.join('%s=%s' % kv for kv in ctx), 'L', 'dot output in mode %s must be wrapped in `%s` ... `}`; found %s' % (dict(ctx), h, hs))

THINNING = ('skip', 'take', 'step_by', 'skip_while', 'take_while', 'filter', 'filter_map', 'dedup', 'dedup_by', 'nth', 'last', 'unique', 'rev')

def rule_complete_walks(F, R, crate_name, fns):
    """the loops and listings of a generator walk their collections completely: no adaptor that drops or re-orders elements (`skip`, `take`,
    `step_by`, `filter`, `rev` under an `enumerate` index, ..) sits between a collection and the `for` loop or the `join` that consumes it,
    other than those of the pinned tree's own idiom (slices `get(i + 1 ..)` are judged by the rules of the pair loops)"""
    c = F.crate(crate_name)
    if c is None:
        R.violation('%s / L / anchor' % crate_name, 'UNDECIDABLE', 'crate not found'); return
    n = 0
    for fn in fns:
        bodies = [(g, t) for g, t in c.ithir.items() if g == fn or g.startswith(fn + '::{closure')]
        for g, t in bodies:
            heads = []
            for (it, pat, body) in for_loops(t['body']): heads.append(it)
            for x in walk(t['body']):
                if x['k'] == 'Call' and (callee_name(x) or '').split('::')[-1] in ('join', 'collect') and x['args']: heads.append(x['args'][0])
            for h in heads:
                chain = []; y = strip(h)
                while y['k'] == 'Call' and y['args']:
                    chain.append((callee_name(y) or '').split('::')[-1]); y = strip(y['args'][0])
                n += 1
                bad = [c_ for c_ in chain if c_ in THINNING and not (c_ == 'rev' and 'enumerate' not in chain)]
                # the whitespace filter of sudoku_gen and similar content filters are part of the pinned idiom: `filter` directly on `chars()`
                bad = [c_ for c_ in bad if not (c_ == 'filter' and 'chars' in chain)]
                R.obligation(not bad, 'L complete walk %s' % h.get('loc'))
                if bad: R.violation('%s / L / complete walk' % g.split('::{closure')[0], 'L', 'a collection is walked through `%s`: elements are dropped or re-ordered before they are used' % '.'.join(reversed(chain)), h.get('loc'))
    R.count('L:complete-walks', n)

def rule_csv_records(F, R, crate_name):
    """every line of the input is an edge: the csv reader is built with `has_headers(false)` (the default treats the first line as a header
    and drops it), and the check on a record's width, where there is one, demands exactly two columns"""
    c = F.crate(crate_name)
    if c is None:
        R.violation('%s / L / anchor' % crate_name, 'UNDECIDABLE', 'crate not found'); return
    n = 0
    for name, t in sorted(c.ithir.items()):
        if '@inl' in name: continue
        builders = [e for e in walk(t['body']) if e['k'] == 'Call' and (callee_name(e) or '') in ('csv::ReaderBuilder::new',)]
        direct = [e for e in walk(t['body']) if e['k'] == 'Call' and (callee_name(e) or '') in ('csv::Reader::from_reader', 'csv::Reader::from_path')]
        hh = [e for e in walk(t['body']) if e['k'] == 'Call' and (callee_name(e) or '') == 'csv::ReaderBuilder::has_headers']
        if not builders and not direct and not hh: continue
        n += 1
        ok = not direct and len(hh) >= 1 and all(len(e['args']) == 2 and strip(e['args'][1]).get('value') is False for e in hh)
        R.count('L:csv-readers'); R.obligation(ok, 'L csv headers ' + name)
        if not ok:
            R.violation('%s / L / first line of the input' % name.split('::{closure')[0], 'L', 'the csv reader must be built with has_headers(false): otherwise the first edge of the input is taken for a header and dropped', (hh or builders or direct)[0].get('loc'))
        # width check: `assert!(record.len() == 2)` / `assert_eq!(record.len(), 2)`: an `if` whose failing branch panics
        for e in walk(t['body']):
            if e['k'] != 'If' or e['cond']['k'] == 'Let': continue
            if not any(x['k'] == 'Call' and (callee_name(x) or '').startswith(('core::panicking', 'std::rt::panic', 'std::rt::begin_panic')) for x in walk(e['then'])): continue
            cnd = strip(e['cond']); neg = False
            while cnd['k'] == 'Unary' and cnd['op'] == 'Not': cnd = strip(cnd['arg']); neg = not neg
            lens = [x for x in walk(cnd) if x['k'] == 'Call' and (callee_name(x) or '').split('::')[-1] == 'len' and 'csv::' in str((x['args'][0].get('ty') or {}).get('s'))] if cnd['k'] in ('Binary', 'Call') else []
            if not lens: continue
            # the test that lets a record *through* is `len == 2`: the panic branch runs under its negation
            op = cnd.get('op') if cnd['k'] == 'Binary' else ('Eq' if (callee_decl(cnd) or '').endswith('::eq') else 'Ne' if (callee_decl(cnd) or '').endswith('::ne') else None)
            two = any(x['k'] == 'Literal' and str(x.get('value')) == '2' for x in walk(cnd))
            passes_on_eq = (op == 'Eq' and neg) or (op == 'Ne' and not neg)
            okw = two and passes_on_eq
            R.count('L:csv-width-checks'); R.obligation(okw, 'L csv width ' + name)
            if not okw: R.violation('%s / L / width of a record' % name.split('::{closure')[0], 'L', 'the width check of a record must let exactly the two-column records through', e.get('loc'))
    if n == 0: R.violation('%s / L / csv reader / VACUITY' % crate_name, 'VACUITY', 'no csv reader found in %s' % crate_name)

def rule_colour_vertices(F, R):
    """C18 --colors: one product vertex `<v>_c<k>` per input vertex v and colour k in 0..N, mapped back to (v, k); N is the number given on the command line"""
    import engine_u
    c = F.crate('random_graph_gen')
    t = unrolled(c.ithir.get('random_graph_gen::augment_colors')) if c else None
    m = c.ithir.get('random_graph_gen::main') if c else None
    if t is None or m is None:
        R.violation('random_graph_gen::augment_colors / L / anchor', 'UNDECIDABLE', 'augment_colors not found'); return
    ROLES = graph_roles(c)
    roles = ROLES.get('augment_colors', {}); mroles = ROLES.get('main', {})
    # colour range 0..num_colors
    rng_ok = False
    import flow as _flow
    fl_ = _flow.Flow(c)
    pcol = [v for v, nm in roles.items() if nm == 'num_colors' and any(('pat' in p_ and unwrap_pat(p_['pat']).get('var') == v) for p_ in t['params'])]
    rngs = []
    _flow.scan(fl_, t['body'], {}, lambda x: x.get('k') == 'Adt' and canon(x.get('adt', '')) == 'std::ops::Range', rngs)
    for e, env_ in rngs:
        lo = [f['expr'] for f in e['fields'] if f['name'] == 'start'][0]; hi = [f['expr'] for f in e['fields'] if f['name'] == 'end'][0]
        # the bound is the parameter itself (value provenance): a local of the same name computed from it (`num_colors.min(..)`) is not
        if strip(lo).get('value') == '0' and pcol and fl_.ev(hi, env_) == ('param', pcol[0]): rng_ok = True
    R.count('L:colour-range'); R.obligation(rng_ok, 'L colour range')
    if not rng_ok: R.violation('random_graph_gen::augment_colors / L / colour range', 'L', 'colours must range over 0..num_colors')
    # names and maps
    lets = {}
    for b in walk(t['body']):
        if b['k'] == 'Block':
            for s in b['stmts']:
                if s['k'] == 'Let' and s['init'] is not None:
                    q = unwrap_pat(s['pat'])
                    if q['k'] == 'Binding': lets[q['var']] = s['init']
    def name_parts(var):
        init = lets.get(var)
        if init is None: return None
        tm = [y for y in walk(init) if y['k'] == 'Literal' and y.get('lit') == 'ByteStr']
        tup = [y for y in walk(init) if y['k'] == 'Tuple' and len(y['fields']) == 2]
        if not tm or not tup: return None
        try: text = engine_u.decode_template(tm[0]['value'])
        except Exception: return None
        a, b = [strip(f) for f in tup[0]['fields']]
        return text, (a.get('field') if a['k'] == 'Field' and rolename(roles, root_var(a['lhs'])) == 'edge' else None), rolename(roles, root_var(b))
    ins = [e for e in walk(t['body']) if e['k'] == 'Call' and callee_name(e) == 'std::collections::HashMap::insert']
    vmap = {}; cmap = {}
    for e in ins:
        tbl = rolename(roles, root_var(e['args'][0]))
        key = root_var(e['args'][1]); val = strip(e['args'][2])
        while val['k'] == 'Call' and callee_decl(val) == 'std::clone::Clone::clone': val = strip(val['args'][0])
        np = name_parts(key)
        if tbl == 'vertex_map': vmap[key] = (np, val.get('field') if val['k'] == 'Field' else None)
        if tbl == 'color_map': cmap[key] = (np, rolename(roles, root_var(val)))
    ok = len(vmap) == 2 and len(cmap) == 2 and set(vmap) == set(cmap)
    if ok:
        ends = set()
        for k, (np, fld) in vmap.items():
            ok = ok and np is not None and np[0] == '{}_c{}' and np[1] == fld and np[2] == 'color' and cmap[k][1] == 'color'
            ends.add(fld)
        ok = ok and ends == {0, 1}
    R.count('L:colour-vertex-maps', len(vmap) + len(cmap)); R.obligation(ok, 'L colour maps')
    if not ok:
        R.violation('random_graph_gen::augment_colors / L / product vertices', 'L', 'for each edge end e.k and colour c the vertex `<e.k>_c<c>` must be mapped back to e.k and to c; found vertex_map=%s color_map=%s' % (
            {k.split('#')[0]: v for k, v in vmap.items()}, {k.split('#')[0]: v for k, v in cmap.items()}))
    # main: selection = augment_colors(&selection, N) with N the payload of args.colors
    ok = False
    for e in walk(m['body']):
        if e['k'] == 'If' and e['cond']['k'] == 'Let':
            src = strip(e['cond']['expr'])
            pat = unwrap_pat(e['cond']['pat'])
            if src['k'] == 'Field' and src.get('field_name') == 'colors' and pat['k'] == 'Variant' and pat['variant'] == 'Some' and pat['subs']:
                nv = unwrap_pat(pat['subs'][0]['pat']).get('var')
                calls = [x for x in walk(e['then']) if x['k'] == 'Call' and callee_name(x) == 'random_graph_gen::augment_colors']
                asg = [x for x in walk(e['then']) if x['k'] == 'Assign']
                if len(calls) == 1 and len(asg) == 1:
                    ok = strip(calls[0]['args'][1]).get('var') == nv and rolename(mroles, root_var(calls[0]['args'][0])) == 'selection' and rolename(mroles, root_var(asg[0]['lhs'])) == 'selection'
    if not ok and any(role == 'uncoloured selection' for role in mroles.values()): ok = True      # the binding form, decided in graph_roles (coloured_shadow)
    R.count('L:colour-call'); R.obligation(ok, 'L colour call')
    if not ok: R.violation('random_graph_gen::main / L / --colors', 'L', '--colors N must replace the selection by augment_colors(&selection, N) with N unchanged')

"""Engine U: constraint-family analysis of sudoku_gen (property C17), in the style of engine N.

Every `[..] = 1` list is produced by a stack of numeric `for` loops and one `(range).map(|m| format!("_{}_is_{}", CELL, NUM)).join(", ")`.
CELL and NUM are brought to polynomial normal form over the loop variables and the size symbols root, square (= root*root),
numcells (= square*square); `m / root` and `m % root` of an index m ranging over [0, root*root) are replaced by two fresh "digit"
variables using the div/mod bijection lemma.  Each list must be one of the four sudoku families, complete in all its indices:
  cell : for every cell c in [0, numcells): exactly one number d in [1, square]
  row  : for every row r and number d: exactly one column;   col: symmetric
  box  : for every box (a, b) in [0, root)^2 and number d: exactly one cell (a*root + p, b*root + q), (p, q) in [0, root)^2
with cell index = row*square + col (row-major).  Trusted lemmas (pure arithmetic, no code content):
  L1 row-major: c -> (c div S, c mod S) is a bijection [0, S*S) -> [0, S)^2;   L2 the same for l -> (l / r, l % r) on [0, r*r);
  L3 for digits a, p in [0, r): a*r + p ranges bijectively over [0, r*r)."""

from facts import canon, walk, callee_name, callee_decl, pp
from engine_e import strip
from engine_x import unwrap_pat, root_var

class UUndec(Exception):
    def __init__(self, msg, loc=None):
        Exception.__init__(self, msg); self.msg, self.loc = msg, loc

# ---------------------------------------------------------------- polynomials: {monomial: coeff}, monomial = sorted tuple of (symbol, power)
def pc(c): return {(): c} if c else {}
def pv(sym): return {((sym, 1),): 1}
def padd(a, b, s=1):
    out = dict(a)
    for k, v in b.items(): out[k] = out.get(k, 0) + s * v
    return {k: v for k, v in out.items() if v != 0}
def mmul(m1, m2):
    d = dict(m1)
    for s, p in m2: d[s] = d.get(s, 0) + p
    return tuple(sorted(d.items(), key=repr))
def pmul(a, b):
    out = {}
    for m1, x in a.items():
        for m2, y in b.items():
            k = mmul(m1, m2); out[k] = out.get(k, 0) + x * y
    return {k: v for k, v in out.items() if v != 0}
def psubst(p, sym, q):
    """substitute symbol := polynomial q"""
    out = {}
    for m, c in p.items():
        term = {(): c}
        for s, pw in m:
            base = q if s == sym else pv(s)
            for _ in range(pw): term = pmul(term, base)
        out = padd(out, term)
    return out
def syms(p): return set(s for m in p for s, _ in m)
def pshow(p):
    if not p: return '0'
    def ms(m): return '*'.join((str(s) if not isinstance(s, tuple) else '%s(%s)' % s) + ('^%d' % pw if pw > 1 else '') for s, pw in m)
    return ' + '.join(('%d*%s' % (c, ms(m)) if m and c != 1 else (ms(m) if m else str(c))) for m, c in sorted(p.items(), key=repr))
def divide_by(p, sym):
    """p = Q*sym + Rm with Rm free of sym (sym appears with power <= 1 in every monomial of the quotient part); returns (Q, Rm)"""
    Q = {}; Rm = {}
    for m, c in p.items():
        d = dict(m)
        if d.get(sym, 0) >= 1:
            d[sym] -= 1
            if d[sym] == 0: del d[sym]
            Q[tuple(sorted(d.items(), key=repr))] = c
        else:
            Rm[m] = c
    return Q, Rm
def as_single_var(p):
    if len(p) == 1:
        (m, c), = p.items()
        if c == 1 and len(m) == 1 and m[0][1] == 1: return m[0][0]
    return None

# ---------------------------------------------------------------- extraction
class Ctx:
    def __init__(self):
        self.defs = {}       # let-bound var -> polynomial (size symbols and per-iteration helpers like `lt`)
        self.names = {}      # var id -> symbol
        self.ranges = {}     # symbol -> (lo poly, hi-exclusive poly)

def poly_of(e, cx):
    e = strip(e)
    k = e['k']
    if k in ('VarRef', 'UpvarRef'):
        v = e['var']
        if v in cx.defs: return cx.defs[v]
        if v in cx.names: return pv(cx.names[v])
        raise UUndec('expression uses %s, which is neither a loop index nor a size' % v.split('#')[0], e['loc'])
    if k == 'Literal' and e.get('lit') == 'Int': return pc(int(e['value']))
    if k == 'Binary':
        op = e['op']
        if op in ('Add', 'Sub', 'Mul'):
            a, b = poly_of(e['lhs'], cx), poly_of(e['rhs'], cx)
            return padd(a, b) if op == 'Add' else padd(a, b, -1) if op == 'Sub' else pmul(a, b)
        if op in ('Div', 'Rem'):
            a, b = poly_of(e['lhs'], cx), poly_of(e['rhs'], cx)
            va, vb = as_single_var(a), as_single_var(b)
            if va is None or vb != 'root': raise UUndec('division/remainder other than <index> / root or <index> %% root: %s' % pp(e)[:50], e['loc'])
            return pv(('div' if op == 'Div' else 'rem', va))
    if k in ('Cast', 'Use'): return poly_of(e['source'], cx)
    if k == 'Field' and e.get('field_name') == 'root': return pv('root')
    raise UUndec('index expression construct %s (%s)' % (k, pp(e)[:50]), e.get('loc'))

def range_of(e, cx):
    """numeric range expression -> (lo, hi_exclusive) polynomials, or None"""
    r = strip(e)
    if r['k'] == 'Adt' and canon(r['adt']) == 'std::ops::Range':
        lo = [f['expr'] for f in r['fields'] if f['name'] == 'start'][0]; hi = [f['expr'] for f in r['fields'] if f['name'] == 'end'][0]
        return poly_of(lo, cx), poly_of(hi, cx)
    if r['k'] == 'Call' and callee_name(r) == 'std::ops::RangeInclusive::new':
        return poly_of(r['args'][0], cx), padd(poly_of(r['args'][1], cx), pc(1))
    return None

def loop_parts(e, cx):
    """`for v in RANGE { BODY }` -> (var id, (lo,hi), body) or None"""
    if e['k'] != 'Match': return None
    sc = strip(e['scrutinee'])
    if not (sc['k'] == 'Call' and callee_decl(sc) == 'std::iter::IntoIterator::into_iter'): return None
    rg = range_of(sc['args'][0], cx)
    if rg is None: raise UUndec('loop over something that is not a numeric range: %s' % pp(sc['args'][0])[:50], sc.get('loc'))
    for m in walk(e):
        if m['k'] == 'Match' and m is not e:
            for a in m['arms']:
                p = unwrap_pat(a['pat'])
                if p['k'] == 'Variant' and p['variant'] == 'Some' and p['subs']:
                    q = unwrap_pat(p['subs'][0]['pat'])
                    if q['k'] == 'Binding': return q['var'], rg, a['body']
            break
    return None

def char_loop_parts(e, cx):
    """`for (i, ch) in X.chars().enumerate()[.take(N)] { BODY }` -> {ivar, chvar, src, bound, body} or None"""
    if e['k'] != 'Match': return None
    sc = strip(e['scrutinee'])
    if not (sc['k'] == 'Call' and callee_decl(sc) == 'std::iter::IntoIterator::into_iter'): return None
    it = strip(sc['args'][0]); bound = None
    if it['k'] == 'Call' and callee_decl(it) == 'std::iter::Iterator::take':
        try: bound = poly_of(it['args'][1], cx)
        except UUndec: return None
        it = strip(it['args'][0])
    if not (it['k'] == 'Call' and callee_decl(it) == 'std::iter::Iterator::enumerate'): return None
    ch = strip(it['args'][0])
    if not (ch['k'] == 'Call' and (callee_name(ch) or '').endswith('str::<impl str>::chars')): return None
    src = root_var(ch['args'][0])
    for m in walk(e):
        if m['k'] == 'Match' and m is not e:
            for a in m['arms']:
                p = unwrap_pat(a['pat'])
                if p['k'] == 'Variant' and p['variant'] == 'Some' and p['subs']:
                    q = unwrap_pat(p['subs'][0]['pat'])
                    if q['k'] == 'Leaf' and 'adt' not in q and len(q['subs']) == 2:
                        subs = sorted(q['subs'], key=lambda x: x['field'])
                        a0, a1 = unwrap_pat(subs[0]['pat']), unwrap_pat(subs[1]['pat'])
                        if a0['k'] == 'Binding' and a1['k'] == 'Binding':
                            return {'ivar': a0['var'], 'chvar': a1['var'], 'src': src, 'bound': bound, 'body': a['body']}
            break
    return None

def decode_template(bs):
    """format_args! byte template of this nightly: <len> <len literal bytes> | 0xC0 (plain `{}` placeholder) ... 0x00"""
    out = ''; i = 0
    while i < len(bs):
        b = bs[i]
        if b == 0: break
        if b == 0xC0: out += '{}'; i += 1; continue
        if b >= 0x80: raise UUndec('format directive 0x%02x other than a plain {} placeholder' % b)
        out += bytes(bs[i + 1:i + 1 + b]).decode('utf-8', 'replace'); i += 1 + b
    return out

def template_text(e):
    out = ''
    for x in walk(e):
        if x['k'] == 'Literal' and x.get('lit') == 'Str': out += x['value']
        if x['k'] == 'Literal' and x.get('lit') == 'ByteStr': out += decode_template(x['value'])
    return out

def extract(F, c):
    t = c.ithir['sudoku_gen::main']
    lib_closures = c.ithir
    cx = Ctx()
    import facts as _facts
    body = _facts.split_tuple_lets(_facts.hoist_try_blocks(t['body']))          # the statements of an inlined helper under `?` are statements of main; `let (i, j) = (x, y)` is two lets
    while body['k'] in ('Use', 'NeverToAny'): body = body['source']
    emissions = []; hints = []; filters = []; size_defs = {}
    fresh = [0]
    def sym_for(var):
        fresh[0] += 1
        s = '%s@%d' % (var.split('#')[0], fresh[0])
        cx.names[var] = s
        return s
    def visit_block(b, stack):
        while b['k'] in ('Use', 'NeverToAny'): b = b['source']
        if b['k'] != 'Block':
            visit_expr(b, stack); return
        pending = {}     # let var -> (range, closure def) for `let vars = (range).map(closure).collect().join(", ")`
        builders = {}
        iters = all_iters        # iterators / collected index lists kept in locals: visible in nested blocks (`let row: Vec<usize> = ..;` outside the number loop)
        for s in b['stmts']:
            if s['k'] == 'Let' and s['init'] is not None:
                q = unwrap_pat(s['pat'])
                init = s['init']
                if q['k'] == 'Binding':
                    mp = [x for x in walk(init) if x['k'] == 'Call' and callee_decl(x) == 'std::iter::Iterator::map']
                    jn = [x for x in walk(init) if x['k'] == 'Call' and (callee_name(x) or '').endswith('::join')]
                    flt = [x for x in walk(init) if x['k'] == 'Call' and callee_decl(x) == 'std::iter::Iterator::filter']
                    if mp and not jn:
                        # an iterator kept in a local (`let cells = (0..n).map(|j| ..);`): remembered, read where it is consumed
                        mc = map_chain(init, iters)
                        if mc is not None: iters[q['var']] = init; continue
                    if mp and jn:
                        mc = map_chain(jn[0]['args'][0], iters)
                        if mc is None: raise UUndec('list built from something other than a numeric range mapped through a closure', init.get('loc'))
                        rg, chain = mc
                        sep = [x['value'] for x in walk(jn[0]['args'][1]) if x['k'] == 'Literal' and x.get('lit') == 'Str']
                        pending[q['var']] = (rg, chain if len(chain) > 1 else chain[0], sep, dict(cx.names), dict(cx.defs), init.get('loc'))
                        continue
                    i0_ = strip(init)
                    if i0_['k'] == 'VarRef' and any(f[2] == i0_['var'] for f in filters):
                        # `let text = text;` - the filtered text under a fresh (immutable) binding
                        for f in [f for f in filters if f[2] == i0_['var']]: filters.append((q['name'], f[1], q['var']))
                        continue
                    if i0_['k'] == 'Call' and callee_decl(i0_) == 'std::iter::Iterator::collect' and (i0_.get('ty') or {}).get('s') == 'std::string::String':
                        sw = strip(i0_['args'][0])
                        if sw['k'] == 'Call' and (callee_name(sw) or '').endswith('str::<impl str>::split_whitespace'):
                            # the pieces between runs of (Unicode) whitespace glued together: the text without its whitespace
                            filters.append((q['name'], '#split_whitespace', q['var']))
                            continue
                    if flt:
                        cl = [x for x in walk(flt[0]['args'][1]) if x['k'] == 'Closure']
                        filters.append((q['name'], canon(cl[0]['def']) if cl else None, q['var']))
                        continue
                    i0 = strip(init)
                    if q.get('mutable') and i0['k'] == 'Call' and (callee_name(i0) or '') in ('std::vec::Vec::new', 'std::vec::Vec::with_capacity'):
                        builders[q['var']] = init.get('loc')        # a list under construction: filled by a loop of pushes, joined when written
                        continue
                    if q['name'] in ('root', 'square', 'numcells'):
                        try:
                            size_defs[q['name']] = poly_of(init, cx)
                        except UUndec:
                            size_defs[q['name']] = None
                        cx.names[q['var']] = q['name']
                        continue
                    try:
                        cx.defs[q['var']] = poly_of(init, cx)
                    except UUndec:
                        if not q.get('mutable'): plain_lets[q['var']] = init           # e.g. `let hint = text.chars().nth(i).and_then(..);`
                continue
            e = s['expr'] if s['k'] == 'Expr' else None
            if e is None: continue
            e0_ = strip(e)
            if b is body_block and not hints and e0_['k'] == 'Call' and (callee_name(e0_) or '') == 'std::string::String::retain' and len(e0_['args']) == 2 and root_var(e0_['args'][0]) in var_names:
                # `text.retain(|c| !c.is_whitespace());` as a statement of main itself, before any hint is written: the text is filtered in place -
                # the closure keeps the characters the filter form would keep
                cl = [x for x in walk(e0_['args'][1]) if x['k'] == 'Closure']
                v_ = root_var(e0_['args'][0])
                filters.append((var_names[v_], canon(cl[0]['def']) if cl else None, v_))
                continue
            if builders and fill_loop(e, builders, pending): continue
            if id(s) in consumed_stmts: continue
            idx = b['stmts'].index(s)
            if manual_join(b['stmts'], idx, stack): continue
            visit_expr(e, stack, pending)
        if b['expr'] is not None: visit_expr(b['expr'], stack, pending)
    consumed_stmts = set()
    def plain_write(st):
        """the text of a statement `write!(w, "text")?;` / `writeln!(..)?;` without arguments, None otherwise"""
        if st is None or st['k'] != 'Expr': return None
        e = st['expr']
        while e['k'] in ('Use', 'NeverToAny'): e = e['source']
        if not (e['k'] == 'Match' and 'TryDesugar' in str(e.get('source', ''))): return None
        wf = [x for x in walk(e['scrutinee']) if x['k'] == 'Call' and (callee_name(x) or '').endswith('write_fmt')]
        if len(wf) != 1 or any(x['k'] == 'Tuple' and x['fields'] for x in walk(wf[0])): return None
        return ''.join((y['value'] if y.get('lit') == 'Str' else decode_template(y['value'])) for y in walk(wf[0]) if y['k'] == 'Literal' and y.get('lit') in ('Str', 'ByteStr'))
    def manual_join(stmts, k, stack):
        """`write!(w, "[")?; for j in RANGE { if j > LO { write!(w, SEP)?; } write!(w, ITEM, ..)?; } writeln!(w, "] = 1 &")?;` is the list
        `(RANGE).map(|j| format!(ITEM, ..)).join(SEP)` written between the two texts: registered as that emission"""
        e = stmts[k]['expr']
        while e['k'] in ('Use', 'NeverToAny') or (e['k'] == 'Block' and not e['stmts'] and e['expr'] is not None): e = e['source'] if e['k'] != 'Block' else e['expr']
        if e['k'] != 'Match' or e.get('source') != 'ForLoopDesugar' or k == 0 or k + 1 >= len(stmts): return False
        before, after = plain_write(stmts[k - 1]), plain_write(stmts[k + 1])
        if before is None or after is None: return False
        try: lp = loop_parts(e, cx)
        except UUndec: return False
        if lp is None: return False
        var, rg, lbody = lp
        bb = lbody
        while bb['k'] in ('Use', 'NeverToAny'): bb = bb['source']
        if bb['k'] != 'Block': return False
        sts = list(bb['stmts']) + ([{'k': 'Expr', 'expr': bb['expr']}] if bb['expr'] is not None else [])
        if len(sts) not in (1, 2) or any(x['k'] != 'Expr' for x in sts): return False
        sep = None
        if len(sts) == 2:
            g = sts[0]['expr']
            while g['k'] in ('Use', 'NeverToAny') or (g['k'] == 'Block' and not g['stmts'] and g['expr'] is not None): g = g['source'] if g['k'] != 'Block' else g['expr']
            if g['k'] != 'If' or g.get('else') is not None: return False
            cnd = strip(g['cond'])
            # every element but the first: `j > LO` / `j != LO` with LO the lower bound of the range
            if not (cnd['k'] == 'Binary' and cnd['op'] in ('Gt', 'Ne') and root_var(cnd['lhs']) == var and strip(cnd['lhs'])['k'] == 'VarRef'): return False
            try:
                if poly_of(cnd['rhs'], cx) != rg[0]: return False
            except UUndec: return False
            th = g['then']
            while th['k'] in ('Use', 'NeverToAny'): th = th['source']
            if th['k'] != 'Block' or len(th['stmts']) + (1 if th['expr'] is not None else 0) != 1: return False
            sep = plain_write(th['stmts'][0] if th['stmts'] else {'k': 'Expr', 'expr': th['expr']})
            if sep is None: return False
        item = sts[-1]['expr']
        while item['k'] in ('Use', 'NeverToAny'): item = item['source']
        if not (item['k'] == 'Match' and 'TryDesugar' in str(item.get('source', ''))): return False
        wf = [x for x in walk(item['scrutinee']) if x['k'] == 'Call' and (callee_name(x) or '').endswith('write_fmt')]
        if len(wf) != 1 or '_is_' not in template_text(wf[0]): return False
        synth[0] += 1
        name = 'sudoku_gen::main::{join-loop#%d}' % synth[0]
        fa = [x for x in walk(wf[0]) if x['k'] == 'Block' and 'format_args' in str(x.get('exp'))]
        c.ithir[name] = {'def': name, 'params': [{}, {'pat': {'k': 'Binding', 'var': var, 'name': var.split('#')[0], 'mutable': False}}],
                         'body': fa[0] if fa else wf[0], 'span': {'loc': e.get('loc')}}
        emissions.append({'stack': list(stack), 'range': rg, 'closure': name, 'sep': [sep] if sep is not None else None, 'text': before + '{}' + after,
                          'names': dict(cx.names), 'defs': dict(cx.defs), 'loc': e.get('loc')})
        # the opening text was already seen as a plain text; the closing one is consumed here
        if texts and texts[-1] == before: texts.pop()
        consumed_stmts.add(id(stmts[k + 1]))
        return True
    def map_chain(e, iters, depth=0):
        """(range, [closure defs, innermost first]) of `RANGE.map(c1).map(c2)...[.collect()]`, reading iterators kept in locals"""
        x = strip(e)
        if depth > 14: return None
        if x['k'] == 'Block' and not x['stmts'] and x['expr'] is not None: return map_chain(x['expr'], iters, depth + 1)
        if x['k'] in ('VarRef', 'UpvarRef') and x['var'] in iters: return map_chain(iters[x['var']], iters, depth + 1)
        if x['k'] == 'Call' and x['args'] and (callee_decl(x) in ('std::iter::Iterator::collect', 'std::iter::IntoIterator::into_iter', 'std::ops::Deref::deref', 'std::convert::AsRef::as_ref', 'std::borrow::Borrow::borrow', 'std::iter::Iterator::copied', 'std::iter::Iterator::cloned') or (callee_name(x) or '').endswith(('::as_slice', '<impl [T]>::iter'))): return map_chain(x['args'][0], iters, depth + 1)
        if x['k'] == 'Call' and callee_decl(x) == 'std::iter::Iterator::flat_map' and len(x['args']) == 2:
            # `(0..root).flat_map(|a| (0..root).map(move |b| E(a, b)))`: the pairs (a, b) in row-major order are the two digits of an
            # index m over 0..root*root (lemma L2), a = m / root, b = m % root: read as `(0..root*root).map(|m| E(m / root, m % root))`
            import copy
            cl1 = [y for y in walk(x['args'][1]) if y['k'] == 'Closure']
            ct1 = c.ithir.get(canon(cl1[0]['def'])) if cl1 else None
            try: rg1 = range_of(x['args'][0], cx)
            except UUndec: rg1 = None
            if ct1 is None or rg1 is None or len(ct1['params']) != 2 or unwrap_pat(ct1['params'][1]['pat'])['k'] != 'Binding': return None
            b1 = ct1['body']
            while b1['k'] in ('Use', 'NeverToAny') or (b1['k'] == 'Block' and not b1['stmts'] and b1['expr'] is not None): b1 = b1['source'] if b1['k'] != 'Block' else b1['expr']
            b1 = strip(b1)
            if not (b1['k'] == 'Call' and callee_decl(b1) == 'std::iter::Iterator::map' and len(b1['args']) == 2): return None
            cl2 = [y for y in walk(b1['args'][1]) if y['k'] == 'Closure']
            ct2 = c.ithir.get(canon(cl2[0]['def'])) if cl2 else None
            try: rg2 = range_of(b1['args'][0], cx)
            except UUndec: rg2 = None
            if ct2 is None or rg2 is None or len(ct2['params']) != 2 or unwrap_pat(ct2['params'][1]['pat'])['k'] != 'Binding': return None
            if not (rg1 == rg2 == ({}, pv('root'))): return None
            rootvar = [v for v, sy in cx.names.items() if sy == 'root']
            if not rootvar: return None
            synth[0] += 1
            mvar = 'm#product%d' % synth[0]
            def digit(op, like):
                return {'k': 'Binary', 'op': op, 'loc': like.get('loc'), 'ty': like.get('ty'),
                        'lhs': {'k': 'VarRef', 'var': mvar, 'loc': like.get('loc'), 'ty': like.get('ty')}, 'rhs': {'k': 'VarRef', 'var': rootvar[0], 'loc': like.get('loc'), 'ty': like.get('ty')}}
            m_ = {unwrap_pat(ct1['params'][1]['pat'])['var']: 'Div', unwrap_pat(ct2['params'][1]['pat'])['var']: 'Rem'}
            def subst(y):
                if isinstance(y, list): return [subst(z) for z in y]
                if not isinstance(y, dict): return y
                if y.get('k') in ('VarRef', 'UpvarRef') and y.get('var') in m_: return digit(m_[y['var']], y)
                return {k_: (subst(v) if isinstance(v, (dict, list)) else v) for k_, v in y.items()}
            name = 'sudoku_gen::main::{product#%d}' % synth[0]
            c.ithir[name] = {'def': name, 'params': [{}, {'pat': {'k': 'Binding', 'var': mvar, 'name': 'm', 'mutable': False}}], 'body': subst(copy.deepcopy(ct2['body'])), 'span': {'loc': x.get('loc')}}
            return (pc(0), pmul(pv('root'), pv('root'))), [name]
        if x['k'] == 'Call' and callee_decl(x) == 'std::iter::Iterator::map' and len(x['args']) == 2:
            cl = [y for y in walk(x['args'][1]) if y['k'] == 'Closure']
            if not cl: return None
            rg = range_of(x['args'][0], cx)
            if rg is not None: return rg, [canon(cl[0]['def'])]
            inner = map_chain(x['args'][0], iters, depth + 1)
            if inner is None: return None
            return inner[0], inner[1] + [canon(cl[0]['def'])]
        return None
    def fill_loop(e, builders, pending):
        """`for m in RANGE { [lets] v.push(format!(..)) }` with v a list under construction: the same list as
        `(RANGE).map(|m| { [lets] format!(..) }).collect()`; registered under a synthetic closure"""
        while e['k'] in ('Use', 'NeverToAny') or (e['k'] == 'Block' and not e['stmts'] and e['expr'] is not None): e = e['source'] if e['k'] != 'Block' else e['expr']
        if e['k'] != 'Match' or e.get('source') != 'ForLoopDesugar': return False
        try: lp = loop_parts(e, cx)
        except UUndec: return False
        if lp is None: return False
        var, rg, lbody = lp
        b = lbody
        while b['k'] in ('Use', 'NeverToAny'): b = b['source']
        if b['k'] != 'Block': return False
        stmts = list(b['stmts']) + ([{'k': 'Expr', 'expr': b['expr']}] if b['expr'] is not None else [])
        lets = [st for st in stmts if st['k'] == 'Let']
        rest = [st for st in stmts if st['k'] != 'Let']
        if len(rest) != 1: return False
        call = strip(rest[0]['expr'])
        if not (call['k'] == 'Call' and callee_name(call) == 'std::vec::Vec::push' and root_var(call['args'][0]) in builders): return False
        v = root_var(call['args'][0])
        synth[0] += 1
        name = 'sudoku_gen::main::{fill-loop#%d}' % synth[0]
        c.ithir[name] = {'def': name, 'params': [{}, {'pat': {'k': 'Binding', 'var': var, 'name': var.split('#')[0], 'mutable': False}}],
                         'body': {'k': 'Block', 'stmts': lets, 'expr': call['args'][1], 'loc': e.get('loc')}, 'span': {'loc': e.get('loc')}}
        pending[v] = (rg, name, None, dict(cx.names), dict(cx.defs), e.get('loc'))
        del builders[v]
        return True
    synth = [0]
    all_iters = {}
    plain_lets = {}
    cx.plain_lets = plain_lets
    def visit_expr(e, stack, pending=None):
        pending = pending or {}
        while e['k'] in ('Use', 'NeverToAny'): e = e['source']
        if e['k'] == 'Block':
            visit_block(e, stack); return
        cl = char_loop_parts(e, cx) if e['k'] == 'Match' else None
        if cl is not None:
            s = sym_for(cl['ivar'])
            cx.ranges[s] = (pc(0), cl['bound'])       # bound None: not limited to the cells
            char_loops[s] = cl
            visit_block(cl['body'], stack + [s])
            return
        try:
            lp = loop_parts(e, cx) if e['k'] == 'Match' else None
        except UUndec as u:
            # a loop over something else: keep reading; whatever is emitted inside it is judged (and rejected) individually
            sc = strip(e['scrutinee'])
            s = sym_for('opaque#0')
            cx.ranges[s] = None
            cx.opaque[s] = pp(sc['args'][0])[:80]
            for m in walk(e):
                if m['k'] == 'Match' and m is not e:
                    for a in m['arms']:
                        p = unwrap_pat(a['pat'])
                        if p['k'] == 'Variant' and p['variant'] == 'Some': visit_block(a['body'], stack + [s])
                    break
            return
        if lp is not None:
            var, rg, lbody = lp
            s = sym_for(var)
            cx.ranges[s] = rg
            visit_block(lbody, stack + [s])
            return
        if e['k'] == 'If':
            # hint structure: remember the conditions
            conds = stack_conds[-1] if stack_conds else []
            stack_conds.append(conds + [e['cond']])
            visit_block(e['then'], stack)
            stack_conds.pop()
            if e['else'] is not None: visit_block(e['else'], stack)
            return
        if e['k'] == 'Match' and e.get('source') == 'Normal':
            # `match X { Some(ch) if guard => .., _ => .. }` reads like `if let Some(ch) = X { if guard { .. } }`
            conds = stack_conds[-1] if stack_conds else []
            for a in e['arms']:
                extra = [{'k': 'Let', 'pat': a['pat'], 'expr': e['scrutinee'], 'loc': e.get('loc')}]
                if a.get('guard') is not None: extra.append(a['guard'])
                stack_conds.append(conds + extra)
                visit_block(a['body'], stack)
                stack_conds.pop()
            return
        if e['k'] == 'Match' and 'TryDesugar' in e.get('source', ''):
            inner = strip(e['scrutinee'])
            wf = [x for x in walk(inner) if x['k'] == 'Call' and (callee_name(x) or '').endswith('write_fmt')]
            if wf:
                skip = set()
                for x in walk(wf[0]):
                    if x['k'] == 'Call' and (callee_name(x) or '').endswith('::join'):
                        for y in walk(x): skip.add(id(y))
                txt = ''.join((y['value'] if y.get('lit') == 'Str' else decode_template(y['value'])) for y in walk(wf[0])
                              if y['k'] == 'Literal' and y.get('lit') in ('Str', 'ByteStr') and id(y) not in skip)
                refs = [root_var(f) for x in walk(wf[0]) if x['k'] == 'Tuple' for f in x['fields']]
                joined_sep = None
                for x in walk(wf[0]):
                    if x['k'] == 'Tuple':
                        for f in x['fields']:
                            g = strip(f)
                            if g['k'] == 'Call' and (callee_name(g) or '').endswith('::join') and root_var(g['args'][0]) in pending:
                                refs.append(root_var(g['args'][0]))
                                joined_sep = [y['value'] for y in walk(g['args'][1]) if y['k'] == 'Literal' and y.get('lit') == 'Str']
                used = [r for r in refs if r in pending]
                if used:
                    rg, cl, sep, names, defs, loc = pending[used[0]]
                    if sep is None: sep = joined_sep
                    emissions.append({'stack': list(stack), 'range': rg, 'closure': cl, 'sep': sep, 'text': txt, 'names': names, 'defs': defs, 'loc': loc})
                elif '_is_' in txt:
                    tup = [x for x in walk(wf[0]) if x['k'] == 'Tuple' and len(x['fields']) == 2]
                    hints.append({'stack': list(stack), 'conds': list(stack_conds[-1]) if stack_conds else [], 'args': tup[0]['fields'] if tup else [], 'text': txt, 'loc': wf[0].get('loc')})
                else:
                    texts.append(txt)
            return
    stack_conds = []
    texts = []
    char_loops = {}
    cx.char_loops = char_loops
    cx.opaque = {}
    body_block = body
    while body_block['k'] in ('Use', 'NeverToAny'): body_block = body_block['source']
    var_names = {}
    for x_ in walk(body):
        if x_['k'] != 'Block': continue
        for s_ in x_['stmts']:
            if s_['k'] == 'Let':
                q_ = unwrap_pat(s_['pat'])
                if q_['k'] == 'Binding': var_names[q_['var']] = q_['name']
    visit_block(body, [])
    return cx, emissions, hints, filters, texts, size_defs

# ---------------------------------------------------------------- analysis
def same_range(rg, lo, hi): return rg[0] == lo and rg[1] == hi

ROOT = pv('root'); SQ = pv('square'); NC = pv('numcells')

def walk_pat_vars_(p):
    out = []
    def rec(q):
        if not isinstance(q, dict): return
        if q.get('k') == 'Binding' and q.get('var'): out.append(q['var'])
        if isinstance(q.get('sub'), dict): rec(q['sub'])
        if isinstance(q.get('subpattern'), dict): rec(q['subpattern'])
        for sp in q.get('subs') or []: rec(sp['pat'])
        for sp in q.get('pats') or []: rec(sp)
    rec(p)
    return out

def rule_sudoku(F, R):
    c = F.crate('sudoku_gen')
    if c is None or 'sudoku_gen::main' not in c.ithir:
        R.violation('sudoku_gen::main / U / anchor', 'UNDECIDABLE', 'sudoku_gen::main not found'); return
    try:
        cx, emissions, hints, filters, texts, size_defs = extract(F, c)
    except UUndec as u:
        R.obligation(False, 'U extract')
        R.violation('sudoku_gen::main / U / UNDECIDABLE / %s' % u.msg[:70], 'UNDECIDABLE', 'cannot read the constraint loops: %s (fail closed)' % u.msg, u.loc); return
    # size definitions are symbolic facts used by the lemmas: root = args.root, square = root*root, numcells = square*square
    ok = size_defs.get('root') == ROOT and size_defs.get('square') == pmul(ROOT, ROOT) and size_defs.get('numcells') == pmul(SQ, SQ)
    R.count('U:size-definitions'); R.obligation(ok, 'U sizes')
    if not ok:
        R.violation('sudoku_gen::main / U / sizes', 'U', 'expected root = args.root, square = root*root, numcells = square*square; found %s' % {k: pshow(v) if v is not None else None for k, v in size_defs.items()}); return
    R.count('U:list-emissions', len(emissions)); R.count('U:hint-emissions', len(hints))
    fam = {}
    for k, em in enumerate(emissions):
        try:
            for sy in em['stack']:
                if cx.ranges.get(sy) is None: raise UUndec('the list is emitted inside a loop over %s, which is not a numeric range' % cx.opaque.get(sy, '?'))
            kind = classify(F, c, em, cx)
        except UUndec as u:
            R.obligation(False, 'U em %d' % k)
            R.violation('sudoku_gen::main / U / list #%d' % (k + 1), 'U', 'constraint list #%d is not a complete sudoku family: %s' % (k + 1, u.msg), u.loc or em['loc'])
            continue
        R.obligation(True, 'U em %d' % k); R.count('U:proved-families')
        fam[kind['kind']] = fam.get(kind['kind'], 0) + 1
        R.sample({'rule': 'U', 'list': k + 1, 'family': kind['kind'], 'cell index': kind['cell'], 'number': kind['num'], 'indices': kind['indices']})
    for need in ('cell', 'row', 'col', 'box'):
        ok = fam.get(need, 0) >= 1
        R.count('U:families-required'); R.obligation(ok, 'U fam ' + need)
        if not ok: R.violation('sudoku_gen::main / U / missing family %s' % need, 'U', 'no constraint list establishes the %s family of sudoku constraints' % need)
    # hints
    okh = len(hints) == 1
    why = 'expected exactly one hint emission'
    if okh:
        h = hints[0]
        st = h['stack']
        okh = len(st) == 1 and cx.ranges[st[0]] is not None and cx.ranges[st[0]][0] == {} and cx.ranges[st[0]][1] in (NC, pmul(pmul(ROOT, ROOT), pmul(ROOT, ROOT)), pmul(SQ, SQ))
        why = 'hints must be read for every cell index 0..numcells'
        if len(st) == 1 and cx.ranges[st[0]] is None:
            why = 'the hint loop runs over %s: cell i must be the i-th *character* of the whitespace-filtered text, for i in 0..numcells' % cx.opaque.get(st[0], '?')
        if okh:
            a0 = root_var(h['args'][0]) if h['args'] else None
            loopvar = [v for v, s in cx.names.items() if s == st[0]]
            okh = a0 in loopvar and __import__('engine_l').tokenize_text(__import__('engine_t').tokenizer_pattern(F.lib())[0], h['text']) == ['VAR:_ARG_is_ARG', 'And']
            why = 'the hint must name the cell by the loop index'
        if okh:
            # the character shown in the hint: the i-th character of the whitespace-filtered text ...
            conds = h['conds']
            filtered = [f[2] for f in filters if f[0] == 'puzzle_input']
            a1 = root_var(h['args'][1])
            cl = getattr(cx, 'char_loops', {}).get(st[0])
            digit_by_payload = False
            if cl is not None:
                okh = cl['chvar'] == a1 and cl['src'] in filtered
            else:
                okh = False
                for cnd in conds:
                    if cnd['k'] != 'Let': continue
                    src = strip(cnd['expr']); pt = unwrap_pat(cnd['pat'])
                    if src['k'] in ('VarRef', 'UpvarRef') and src['var'] in getattr(cx, 'plain_lets', {}): src = strip(cx.plain_lets[src['var']])
                    if src['k'] == 'Call' and callee_name(src) == 'std::option::Option::and_then' and len(src['args']) == 2:
                        # `text.chars().nth(i).and_then(|ch| ch.to_digit(10))`: Some(d) exactly when the i-th character is an ASCII decimal digit,
                        # and d prints like that character - the digit test and the character shown in one step
                        cl_ = [y for y in walk(src['args'][1]) if y['k'] == 'Closure']
                        ct_ = c.ithir.get(canon(cl_[0]['def'])) if cl_ else None
                        b_ = ct_['body'] if ct_ is not None and len(ct_['params']) == 2 else None
                        while b_ is not None and (b_['k'] in ('Use', 'NeverToAny') or (b_['k'] == 'Block' and not b_['stmts'] and b_['expr'] is not None)): b_ = b_['source'] if b_['k'] != 'Block' else b_['expr']
                        b_ = strip(b_) if b_ is not None else None
                        if b_ is not None and b_['k'] == 'Call' and (callee_name(b_) or '').endswith('<impl char>::to_digit') and str(strip(b_['args'][1]).get('value')) == '10' \
                                and root_var(b_['args'][0]) == unwrap_pat(ct_['params'][1]['pat']).get('var'):
                            src = strip(src['args'][0]); digit_by_payload = True
                        else: continue
                    if src['k'] == 'Call' and (callee_name(src) or '') in ('core::slice::<impl [T]>::get',) and len(src['args']) == 2 and root_var(src['args'][1]) in loopvar and strip(src['args'][1])['k'] == 'VarRef':
                        # `let symbols: Vec<char> = text.chars().collect(); symbols.get(i)`: the i-th character, looked up in a listing of them
                        lst = getattr(cx, 'plain_lets', {}).get(root_var(src['args'][0]))
                        lst = strip(lst) if lst is not None else None
                        if lst is not None and lst['k'] == 'Call' and callee_decl(lst) == 'std::iter::Iterator::collect' and str((lst.get('ty') or {}).get('s', '')).startswith('std::vec::Vec<char'):
                            src = {'k': 'Call', 'callee': {'def': 'std::iter::Iterator::nth', 'res': 'std::iter::Iterator::nth'}, 'args': [lst['args'][0], src['args'][1]], 'loc': src.get('loc'), 'ty': src.get('ty')}
                    if not (src['k'] == 'Call' and callee_decl(src) == 'std::iter::Iterator::nth' and root_var(src['args'][1]) in loopvar and strip(src['args'][1])['k'] == 'VarRef'): continue
                    chs = strip(src['args'][0])
                    while chs['k'] in ('Borrow', 'Deref'): chs = strip(chs['arg'])
                    if not (chs['k'] == 'Call' and (callee_name(chs) or '').endswith('str::<impl str>::chars') and root_var(chs['args'][0]) in filtered): continue
                    if pt['k'] == 'Variant' and pt['variant'] == 'Some' and pt['subs'] and unwrap_pat(pt['subs'][0]['pat']).get('var') == a1: okh = True
            why = 'the hint for cell i must show the i-th character of the whitespace-filtered input text'
        if okh:
            # ... emitted exactly when that character is a decimal digit
            digs = []
            for cnd in conds:
                b = strip(cnd)
                if b['k'] == 'Call' and (callee_name(b) or '').endswith('<impl char>::is_digit') and strip(b['args'][1]).get('value') == '10' and root_var(b['args'][0]) == a1: digs.append(b)
                if b['k'] == 'Call' and (callee_name(b) or '').endswith('<impl char>::is_ascii_digit') and root_var(b['args'][0]) == a1: digs.append(b)
            others = [cnd for cnd in conds if cnd['k'] != 'Let' and not any(strip(cnd) is d for d in digs)]
            okh = (len(digs) >= 1 or digit_by_payload) and not others
            why = 'a hint must be emitted exactly when the character is a decimal digit (is_digit(ch, 10) / is_ascii_digit), under no other condition'
    R.count('U:hint-rule'); R.obligation(okh, 'U hints')
    if not okh: R.violation('sudoku_gen::main / U / hints', 'U', why)
    # whitespace is ignored: the input is filtered by !is_whitespace before indexing
    okf = False
    for name, cl, _var in filters:
        if cl == '#split_whitespace' and name == 'puzzle_input': okf = True
        ct = c.ithir.get(cl) if cl else None
        if ct is not None:
            b = strip(ct['body'])
            neg = False
            while b['k'] == 'Unary' and b['op'] == 'Not': b = strip(b['arg']); neg = not neg
            if b['k'] == 'Call' and (callee_name(b) or '').split('::')[-1] == 'is_whitespace' and neg and name == 'puzzle_input': okf = True      # the Unicode predicate, not is_ascii_whitespace
    R.count('U:whitespace-filter'); R.obligation(okf, 'U whitespace')
    if not okf: R.violation('sudoku_gen::main / U / whitespace', 'U', 'the puzzle text must be stripped of whitespace (filter(|c| !c.is_whitespace())) before characters are indexed by cell')
    # the whole puzzle text is read, from either channel: read_to_string on the file and on stdin (read_line would stop at the first row)
    t_main = c.ithir['sudoku_gen::main']
    reads = [x for x in walk(t_main['body']) if x['k'] == 'Call' and (callee_name(x) or '').split('::')[-1] in ('read_to_string', 'read_line', 'read', 'read_exact', 'read_until', 'lines', 'read_to_end')]
    chans = set()
    for x in walk(t_main['body']):
        if x['k'] == 'Call' and callee_name(x) == 'std::io::stdin': chans.add('stdin')
        if x['k'] == 'Call' and callee_name(x) == 'std::fs::File::open': chans.add('file')
        if x['k'] == 'Call' and callee_name(x) == 'std::fs::read_to_string': chans.add('file'); reads.append(x)        # the whole file in one call
    # ... and each channel that is opened is also read: the read on the opened file, the read on stdin
    file_vars = set()
    for b_ in walk(t_main['body']):
        if b_['k'] != 'Block': continue
        for st_ in b_['stmts']:
            if st_['k'] == 'Let' and st_.get('init') is not None and any(y['k'] == 'Call' and callee_name(y) == 'std::fs::File::open' for y in walk(st_['init'])):
                file_vars.update(walk_pat_vars_(st_['pat']))
    read_from = set()
    for x in reads:
        if callee_name(x) == 'std::fs::read_to_string': read_from.add('file'); continue
        rc = x['args'][0] if x['args'] else None
        if rc is None: continue
        if any(y['k'] == 'Call' and callee_name(y) == 'std::io::stdin' for y in walk(rc)): read_from.add('stdin')
        if any(y['k'] == 'Call' and callee_name(y) == 'std::fs::File::open' for y in walk(rc)) or root_var(rc) in file_vars: read_from.add('file')
        # a reader variable that is either channel (`let mut reader: Box<dyn Read> = match args.input { Some(p) => Box::new(File::open(p)?), None => Box::new(stdin()) }`)
        rv_ = root_var(rc)
        for b_ in walk(t_main['body']):
            if b_['k'] != 'Block' or rv_ is None: continue
            for st_ in b_['stmts']:
                if st_['k'] == 'Let' and st_.get('init') is not None and rv_ in walk_pat_vars_(st_['pat']):
                    if any(y['k'] == 'Call' and callee_name(y) == 'std::io::stdin' for y in walk(st_['init'])): read_from.add('stdin')
                    if any(y['k'] == 'Call' and callee_name(y) == 'std::fs::File::open' for y in walk(st_['init'])): read_from.add('file')
    okr = len(reads) >= 1 and all((callee_name(x) or '').split('::')[-1] == 'read_to_string' for x in reads) and chans == {'stdin', 'file'} and read_from == {'stdin', 'file'}
    R.count('U:input-reads', len(reads)); R.obligation(okr, 'U reads')
    if not okr: R.violation('sudoku_gen::main / U / input', 'U', 'the puzzle text must be read completely (read_to_string) from the input file and from stdin; found %s' % [(callee_name(x) or '').split('::')[-1] for x in reads])
    tail_true = any(s.strip() == 'true' for s in texts)
    R.obligation(tail_true, 'U closing')
    if not tail_true: R.violation('sudoku_gen::main / U / closing conjunct', 'U', 'the conjunction must be closed by `true`')

def classify(F, c, em, gcx):
    chain = em['closure'] if isinstance(em['closure'], list) else [em['closure']]
    cx = Ctx(); cx.names = dict(em['names']); cx.defs = dict(em['defs'])
    carried = None          # value handed from one `.map(..)` stage to the next
    for stage, cname in enumerate(chain):
        ct = c.ithir.get(cname)
        if ct is None: raise UUndec('closure body not found')
        p = [unwrap_pat(x['pat']) for x in ct['params'][1:] if 'pat' in x]
        if len(p) != 1 or p[0]['k'] != 'Binding': raise UUndec('list closure must take one index')
        if stage == 0: cx.names[p[0]['var']] = 'm'
        else: cx.defs[p[0]['var']] = carried
        if stage < len(chain) - 1:
            b_ = ct['body']
            while b_['k'] in ('Use', 'NeverToAny') or (b_['k'] == 'Block' and not b_['stmts'] and b_['expr'] is not None): b_ = b_['source'] if b_['k'] != 'Block' else b_['expr']
            carried = poly_of(b_, cx)
    # local names inside the closure: `let row = m / root;`, `let (row, col) = (m / root, m % root);`
    in_lets = set()
    for b in walk(ct['body']):
        if b['k'] != 'Block': continue
        for st in b['stmts']:
            if st['k'] != 'Let' or st.get('init') is None or st['init'].get('exp') is not None: continue      # lets written in the source, not those of macro expansions
            for x in walk(st['init']): in_lets.add(id(x))
            q = unwrap_pat(st['pat']); i0 = strip(st['init'])
            if q['k'] == 'Binding' and not q.get('mutable'):
                try: cx.defs[q['var']] = poly_of(st['init'], cx)
                except UUndec: pass
            elif q['k'] == 'Leaf' and 'adt' not in q and i0['k'] == 'Tuple':
                for sp in q['subs']:
                    qq = unwrap_pat(sp['pat'])
                    if qq['k'] == 'Binding' and not qq.get('mutable') and sp['field'] < len(i0['fields']):
                        try: cx.defs[qq['var']] = poly_of(i0['fields'][sp['field']], cx)
                        except UUndec: pass
    tup = [x for x in walk(ct['body']) if x['k'] == 'Tuple' and len(x['fields']) == 2 and id(x) not in in_lets]
    txt = template_text(ct['body'])
    import engine_l
    from engine_t import tokenizer_pattern
    pat = tokenizer_pattern(F.lib())[0]
    if pat is None: raise UUndec('tokenizer pattern not found')
    if len(tup) != 1 or engine_l.tokenize_text(pat, txt) != ['VAR:_ARG_is_ARG']: raise UUndec('list member is not formatted as the single variable _<cell>_is_<number> (template %r)' % txt)
    if not (isinstance(em['sep'], list) and len(em['sep']) == 1 and isinstance(em['sep'][0], str) and engine_l.tokenize_text(pat, em['sep'][0]) == ['Comma']):
        raise UUndec('list members must be separated by one comma (found %r)' % (em['sep'],))
    if engine_l.tokenize_text(pat, em['text']) != ['OpenSquare', 'VAR:ARG', 'CloseSquare', 'Eq', 'NUM:1', 'And']: raise UUndec('list must be emitted as `[..] = 1 &`, got %r' % em['text'])
    cell = poly_of(tup[0]['fields'][0], cx)
    num = poly_of(tup[0]['fields'][1], cx)
    mlo, mhi = em['range']
    rng = gcx.ranges
    stack = em['stack']
    def full(sym, lo, hi): return sym in rng and rng[sym][0] == lo and rng[sym][1] == hi
    ONE = pc(1)
    desc = {'cell': pshow(cell), 'num': pshow(num)}
    # ---- cell family: CELL is an outer index over all cells, NUM is m over 1..=square
    if not any(x == 'm' or (isinstance(x, tuple) and x[1] == 'm') for x in syms(cell)):
        cv = as_single_var(cell)
        if as_single_var(num) != 'm': raise UUndec('number %s is not the list index' % pshow(num))
        if not (mlo == ONE and mhi == padd(SQ, ONE)): raise UUndec('numbers must range over 1..=square')
        if cv is None or cv not in stack or not (full(cv, {}, NC) or full(cv, {}, pmul(SQ, SQ))): raise UUndec('the cell index %s must be a loop index over all cells 0..numcells' % pshow(cell))
        if len(stack) != 1: raise UUndec('unexpected extra loops around the per-cell constraint')
        return dict(kind='cell', indices='cell in 0..numcells, number in 1..=square', **desc)
    # ---- line families: NUM is an outer index over 1..=square, CELL varies with m over 0..square
    kv = as_single_var(num)
    if kv is None or kv not in stack or not full(kv, ONE, padd(SQ, ONE)): raise UUndec('the number %s must be a loop index over 1..=square' % pshow(num))
    if not (mlo == {} and mhi in (SQ, pmul(ROOT, ROOT))): raise UUndec('the list index must range over 0..square')
    # L2: m / root, m % root over [0, root*root) are two independent digits
    Rw, Cl = divide_by(cell, 'square')
    if 'square' in syms(Rw) or 'square' in syms(Cl): raise UUndec('cell index %s is not of the form row*square + col' % pshow(cell))
    others = [s for s in stack if s != kv]
    def digit_pair(pol, digit_sym):
        """pol == a*root + digit with a an outer index over 0..root ; returns a"""
        Q, Rm = divide_by(pol, 'root')
        a = as_single_var(Q)
        if a is None or a not in others or not full(a, {}, ROOT): return None
        if Rm != pv(digit_sym): return None
        return a
    r_single, c_single = as_single_var(Rw), as_single_var(Cl)
    if c_single == 'm' and r_single in others and full(r_single, {}, SQ) and len(others) == 1:
        return dict(kind='row', indices='row %s in 0..square, number in 1..=square, column = list index' % r_single, **desc)
    if r_single == 'm' and c_single in others and full(c_single, {}, SQ) and len(others) == 1:
        return dict(kind='col', indices='column %s in 0..square, number in 1..=square, row = list index' % c_single, **desc)
    a = digit_pair(Rw, ('div', 'm')); b = digit_pair(Cl, ('rem', 'm'))
    if a is not None and b is not None and a != b and len(others) == 2:
        return dict(kind='box', indices='box (%s, %s) in (0..root)^2, number in 1..=square, (row, col) offset = (index / root, index %% root)' % (a, b), **desc)
    a = digit_pair(Rw, ('rem', 'm')); b = digit_pair(Cl, ('div', 'm'))
    if a is not None and b is not None and a != b and len(others) == 2:
        return dict(kind='box', indices='box (%s, %s), transposed offsets' % (a, b), **desc)
    # the boxes numbered by one index x over 0..square: (x / root, x % root) are the two box coordinates (L2 again, for the outer index)
    def digit_of_outer(pol, digit_sym):
        Q, Rm = divide_by(pol, 'root')
        a = as_single_var(Q)
        if Rm != pv(digit_sym) or not (isinstance(a, tuple) and len(a) == 2 and a[0] in ('div', 'rem')): return None
        x = a[1]
        if x not in others or not (full(x, {}, SQ) or full(x, {}, pmul(ROOT, ROOT))): return None
        return a
    for (dr, dc) in ((('div', 'm'), ('rem', 'm')), (('rem', 'm'), ('div', 'm'))):
        a = digit_of_outer(Rw, dr); b = digit_of_outer(Cl, dc)
        if a is not None and b is not None and a[1] == b[1] and {a[0], b[0]} == {'div', 'rem'} and len(others) == 1:
            return dict(kind='box', indices='box %s in 0..square with coordinates (%s, %s), number in 1..=square' % (a[1], pshow(pv(a)), pshow(pv(b))), **desc)
    raise UUndec('cell index %s = (%s)*square + (%s) is neither a row, a column nor a box' % (pshow(cell), pshow(Rw), pshow(Cl)))


"""Engine A: structure of the recursive-descent parser (src/parser.rs).
 A1  error discipline: the Result of a token-consuming parse function may only be propagated
 A2  extracted grammar == reference grammar (regular right-hand sides over tokens + {sub, simple}, with look-ahead labels)
 A3  constructor provenance: which parsed piece ends up in which field of each syntax node
The walker enumerates the success paths of each parse function from its THIR (loops are summarised as stars)."""

from facts import canon, walk, callee_name, pp, pp_pat
from engine_t import token_of_pat, flat_pats, TOK

PARSER = 'rsbdd::parser::SymbolicBDD::'
EXPECT = 'rsbdd::parser::expect'
CHECK = 'rsbdd::parser::check'
SYN = 'rsbdd::parser::SymbolicBDD'
NEXTS = ('<std::iter::Peekable as std::iter::Iterator>::next',)
PEEKS = ('std::iter::Peekable::peek',)

class Undec(Exception):
    def __init__(self, msg, loc=None):
        Exception.__init__(self, msg); self.msg, self.loc = msg, loc

def is_reader_ty(ty):
    t = ty
    while t.get('k') == 'Ref': t = t['to']
    if t.get('k') == 'Param' and 'Iterator' in str(t.get('s') or t.get('name')) and 'SymbolicBDDToken' in str(t.get('s') or t.get('name')):
        return True          # `tokens: &mut impl Iterator<Item = &SymbolicBDDToken>`: the reader by what it yields
    return t.get('k') == 'Adt' and canon(t['def']) == 'std::iter::Peekable' and 'SymbolicBDDToken' in t.get('s', '')

def consumers(lib):
    """K: functions with a token-reader parameter that (transitively) advance it"""
    cands = {}
    for name, t in lib.ithir.items():
        if any(is_reader_ty(p['ty']) for p in t['params']): cands[name] = t
    direct = set(); calls = {}
    def own_nodes(name, t):
        # the function's body and the bodies of the closures written in it (a local `let mut part = |kw| { expect(kw, tokens)?; .. }`)
        for e in walk(t['body']): yield e
        for cname, ct in lib.ithir.items():
            if cname.startswith(name + '::{closure'):
                for e in walk(ct['body']): yield e
    for name, t in cands.items():
        cs = set()
        for e in own_nodes(name, t):
            if e['k'] == 'Call':
                cn = callee_name(e) or ''
                if cn in NEXTS or (cn.endswith('::next') and e['args'] and is_reader_ty(e['args'][0]['ty'])): direct.add(name)
                if cn.startswith('std::iter::Peekable::next_if') or cn.endswith('Iterator::nth') and e['args'] and is_reader_ty(e['args'][0]['ty']): direct.add(name)
                if cn in cands: cs.add(cn)
        calls[name] = cs
    K = set(direct)
    changed = True
    while changed:
        changed = False
        for n, cs in calls.items():
            if n not in K and cs & K:
                K.add(n); changed = True
    return K, cands

# ------------------------------------------------------------------------------------------------ A1
def tail_exprs(e, acc):
    """expressions whose value is the function's return value"""
    k = e['k']
    if k == 'Block':
        if e['expr'] is not None: tail_exprs(e['expr'], acc)
    elif k == 'If':
        tail_exprs(e['then'], acc)
        if e['else'] is not None: tail_exprs(e['else'], acc)
    elif k == 'Match':
        for a in e['arms']: tail_exprs(a['body'], acc)
    elif k in ('Use', 'NeverToAny'):
        tail_exprs(e['source'], acc)
    else:
        acc.append(e)

def rule_A1(F, R):
    lib = F.lib()
    K, cands = consumers(lib)
    R.count('A1:consuming-parse-functions', len(K))
    R.sample({'rule': 'A1', 'K': sorted(k.split('::')[-1] for k in K)})
    for name in sorted(cands):
        t = cands[name]
        tails = []
        tail_exprs(t['body'], tails)
        tail_ids = set(id(x) for x in tails)
        ok_ids = set(tail_ids)
        for e in walk(t['body']):
            if e['k'] == 'Call' and (callee_name(e) or '') == '<std::result::Result as std::ops::Try>::branch':
                ok_ids.add(id(e['args'][0]))
            if e['k'] == 'Return' and e['value'] is not None:
                ok_ids.add(id(e['value']))
            if e['k'] == 'Adt' and canon(e['adt']) == 'std::result::Result' and e['variant'] == 'Ok' and id(e) in tail_ids:
                pass
        # a propagated `call.map(|v| ..)` / `.map_err(..)` propagates the call's failure unchanged
        changed = True
        while changed:
            changed = False
            for e in walk(t['body']):
                if e['k'] == 'Call' and id(e) in ok_ids and (callee_name(e) or '') in ('std::result::Result::map', 'std::result::Result::map_err', 'std::result::Result::and_then') and e['args'] and id(e['args'][0]) not in ok_ids:
                    ok_ids.add(id(e['args'][0])); changed = True
                if id(e) in ok_ids and e['k'] in ('Block', 'If', 'Match', 'Use', 'NeverToAny') and 'TryDesugar' not in str(e.get('source')):
                    # the value of a propagated block / branch (the body of an inlined helper under `?`) is the value of its tail expressions
                    acc = []
                    tail_exprs(e, acc)
                    for x in acc:
                        if id(x) not in ok_ids and x is not e: ok_ids.add(id(x)); changed = True
        # Ok(<call>?) is covered because the inner call sits under Try::branch
        ordinal = {}
        for e in walk(t['body']):
            if e['k'] == 'Call' and callee_name(e) in K:
                cn = callee_name(e)
                ordinal[cn] = ordinal.get(cn, 0) + 1
                R.count('A1:calls-to-consuming-functions')
                ok = id(e) in ok_ids
                if not ok and refusal_clean(lib, K, cn):
                    ok = True          # the callee refuses cleanly: nothing is consumed when it fails, so looking at its failure and going on is rewinding-free
                R.obligation(ok, 'A1 %s -> %s #%d' % (name, cn, ordinal[cn]))
                if not ok:
                    R.violation('%s / A1 / result of %s #%d inspected' % (name, cn.split('::')[-1], ordinal[cn]), 'A1',
                                'the Result of %s (which may have consumed tokens) is inspected instead of propagated: a failed attempt is not rewound, so a non-sentence can be accepted' % cn.split('::')[-1], e['loc'])

class _Ret(Exception):
    def __init__(self, v): self.v = v

def helper_outcomes(lib, t, adv):
    """Outcome of a token helper (expect / check) in the three situations the token reader can be in: no token left ('none'), the next
    token equal to the argument ('eq'), a different token ('other').  -> {situation: 'ok' | 'err'}; the reader is advanced/peeked
    exactly once (`adv`).  Raises Undec for anything the small evaluator does not read."""
    tokvar = None
    for p in t['params']:
        if 'pat' in p and p['pat']['k'] == 'Binding' and not is_reader_ty(p['ty']): tokvar = p['pat']['var']
    if tokvar is None: raise Undec('no token parameter')
    def peel(e):
        while e['k'] in ('Use', 'NeverToAny', 'Borrow', 'Deref', 'PointerCoercion') or (e['k'] == 'Block' and not e['stmts'] and e['expr'] is not None):
            e = e.get('source') or e.get('arg') or e.get('expr')
        return e
    def ev(e, env, sit):
        e = peel(e)
        k = e['k']
        if k in ('VarRef', 'UpvarRef'):
            if e['var'] == tokvar: return ('param',)
            if e['var'] in env: return env[e['var']]
            raise Undec('unknown variable %s' % e['var'].split('#')[0], e.get('loc'))
        if k == 'Literal' and isinstance(e.get('value'), bool): return ('bool', e['value'])
        if k == 'Tuple' and not e['fields']: return ('unit',)
        if k == 'Adt':
            adt = canon(e['adt'])
            if adt == 'std::result::Result': return ('result', 'ok' if e['variant'] == 'Ok' else 'err')
            if adt == 'std::option::Option': return ('opt', 'none') if e['variant'] == 'None' else ('optlit', ev(e['fields'][0]['expr'], env, sit))
            raise Undec('value of type %s' % adt.split('::')[-1], e.get('loc'))
        if k == 'Call':
            cn = callee_name(e) or ''; dn = canon((e.get('callee') or {}).get('def')) or ''
            if cn in NEXTS + PEEKS or (cn.endswith('::next') and e['args'] and is_reader_ty(e['args'][0]['ty'])):
                seen_adv.append(NEXTS[0] if cn not in PEEKS and cn.endswith('::next') else cn)
                return ('opt', sit)
            if cn in ('std::option::Option::copied', 'std::option::Option::cloned', 'std::option::Option::as_ref', 'std::option::Option::as_deref') or dn in ('std::clone::Clone::clone',):
                return ev(e['args'][0], env, sit)
            if dn in ('std::cmp::PartialEq::eq', 'std::cmp::PartialEq::ne'):
                x, y = ev(e['args'][0], env, sit), ev(e['args'][1], env, sit)
                r = equal(x, y)
                return ('bool', r if dn.endswith('eq') else not r)
            if cn in ('std::option::Option::is_some_and', 'std::option::Option::map_or') and e['args']:
                o = ev(e['args'][0], env, sit)
                if o[0] != 'opt': raise Undec('is_some_and on something else', e.get('loc'))
                if cn.endswith('map_or'):
                    d = ev(e['args'][1], env, sit)
                    if o[1] == 'none': return d
                elif o[1] == 'none': return ('bool', False)
                cl = peel(e['args'][-1])
                ct = lib.ithir.get(canon(cl['def'])) if cl['k'] == 'Closure' else None
                if ct is None or len(ct['params']) != 2: raise Undec('closure', e.get('loc'))
                env2 = dict(env); bind(ct['params'][1]['pat'], ('tok', o[1]), env2)
                return ev(ct['body'], env2, sit)
            if cn in ('std::option::Option::is_some', 'std::option::Option::is_none'):
                o = ev(e['args'][0], env, sit)
                return ('bool', (o[1] != 'none') == cn.endswith('is_some'))
            if cn in ('std::option::Option::filter', 'std::option::Option::map', 'std::option::Option::inspect') and len(e['args']) == 2:
                # found.filter(|t| **t == token).map(|_| ()): still "some token / none", narrowed by the test
                o = ev(e['args'][0], env, sit)
                if o[0] != 'opt': raise Undec('%s on something that is not the token read' % cn.split('::')[-1], e.get('loc'))
                if o[1] == 'none' or not cn.endswith('filter'): return o
                cl = peel(e['args'][1])
                ct = lib.ithir.get(canon(cl['def'])) if cl['k'] == 'Closure' else None
                if ct is None or len(ct['params']) != 2: raise Undec('closure', e.get('loc'))
                env2 = dict(env); bind(ct['params'][1]['pat'], ('tok', o[1]), env2)
                b_ = ev(ct['body'], env2, sit)
                if b_[0] != 'bool': raise Undec('filter test is not decided by the situation', e.get('loc'))
                return o if b_[1] else ('opt', 'none')
            if cn in ('std::option::Option::ok_or', 'std::option::Option::ok_or_else') and e['args']:
                o = ev(e['args'][0], env, sit)
                if o[0] != 'opt': raise Undec('ok_or on something that is not the token read', e.get('loc'))
                return ('result', 'err' if o[1] == 'none' else 'ok')
            if cn in ('core::bool::<impl bool>::then_some', 'core::bool::<impl bool>::then') and e['args']:
                b_ = ev(e['args'][0], env, sit)
                if b_[0] != 'bool': raise Undec('then_some on an undecided test', e.get('loc'))
                return ('opt', 'eq' if b_[1] else 'none')
            if cn.endswith('FromResidual>::from_residual'): return ('result', 'err')
            return ('other',)        # error construction, formatting
        if k == 'Binary' and e['op'] in ('Eq', 'Ne'):
            r = equal(ev(e['lhs'], env, sit), ev(e['rhs'], env, sit))
            return ('bool', r if e['op'] == 'Eq' else not r)
        if k == 'Unary' and e['op'] == 'Not':
            v = ev(e['arg'], env, sit)
            if v[0] != 'bool': raise Undec('negation of a non-boolean', e.get('loc'))
            return ('bool', not v[1])
        if k == 'LogicalOp':
            l = ev(e['lhs'], env, sit)
            if l[0] != 'bool': raise Undec('logical operator', e.get('loc'))
            if (e['op'] == 'And') != l[1]: return l
            return ev(e['rhs'], env, sit)
        if k == 'Block':
            env = dict(env)
            for st in e['stmts']:
                if st['k'] == 'Let':
                    if st.get('init') is not None: bind(st['pat'], ev(st['init'], env, sit), env)
                else: ev(st['expr'], env, sit)
            return ev(e['expr'], env, sit) if e['expr'] is not None else ('unit',)
        if k == 'If':
            if e['cond']['k'] == 'Let':
                v = ev(e['cond']['expr'], env, sit); env2 = dict(env)
                hit = match(e['cond']['pat'], v, env2)
                return ev(e['then'], env2, sit) if hit else (ev(e['else'], env, sit) if e['else'] is not None else ('unit',))
            c = ev(e['cond'], env, sit)
            if c[0] != 'bool': raise Undec('condition is not decided by the situation', e.get('loc'))
            return ev(e['then'], env, sit) if c[1] else (ev(e['else'], env, sit) if e['else'] is not None else ('unit',))
        if k == 'Match':
            v = ev(e['scrutinee'], env, sit)
            for a in e['arms']:
                env2 = dict(env)
                if any(match(p, v, env2) for p in flat_pats(a['pat'])):
                    if a['guard'] is not None:
                        g = ev(a['guard'], env2, sit)
                        if g[0] != 'bool': raise Undec('guard', a['guard'].get('loc'))
                        if not g[1]: continue
                    return ev(a['body'], env2, sit)
            raise Undec('no arm applies', e.get('loc'))
        if k == 'Return':
            raise _Ret(ev(e['value'], env, sit) if e['value'] is not None else ('unit',))
        return ('other',)
    def equal(x, y):
        for a_, b_ in ((x, y), (y, x)):
            if a_[0] == 'tok' and b_[0] == 'param': return a_[1] == 'eq'
            if a_[0] == 'opt' and b_[0] == 'optlit' and b_[1][0] == 'param': return a_[1] == 'eq'
            if a_[0] == 'opt' and b_[0] == 'opt' and b_[1] == 'none' and a_ is not b_: return a_[1] == 'none'
        raise Undec('comparison of %r with %r' % (x, y))
    def bind(p, v, env):
        while p['k'] in ('Deref', 'DerefPattern'): p = p['sub']
        if p['k'] == 'Binding': env[p['var']] = v
    def match(p, v, env):
        while p['k'] in ('Deref', 'DerefPattern'): p = p['sub']
        if p['k'] == 'Wild': return True
        if p['k'] == 'Binding' and not p.get('sub'): env[p['var']] = v; return True
        if p['k'] == 'Variant' and canon(p['adt']) == 'std::option::Option' and v[0] == 'opt':
            if p['variant'] == 'None': return v[1] == 'none'
            if v[1] == 'none': return False
            return match(p['subs'][0]['pat'], ('tok', v[1]), env) if p['subs'] else True
        raise Undec('pattern %s' % pp_pat(p), p.get('loc'))
    out = {}
    for sit in ('none', 'eq', 'other'):
        seen_adv = []
        try: r = ev(t['body'], {}, sit)
        except _Ret as ret: r = ret.v
        if r[0] != 'result': raise Undec('the helper does not end in Ok / Err when the reader holds %s' % sit)
        if len(seen_adv) != 1 or seen_adv[0] not in adv: raise Undec('the reader is touched %d time(s) (%s), expected exactly one %s' % (len(seen_adv), seen_adv, 'next()' if adv == NEXTS else 'peek()'))
        out[sit] = r[1]
    return out

def rule_helpers(F, R):
    """expect consumes one token and succeeds iff it equals the argument; check does the same without consuming: decided by evaluating
    the helper in the three situations of the reader (no token, the wanted token, another token), whatever its layout"""
    lib = F.lib()
    for fn, adv, nm in ((EXPECT, NEXTS, 'expect'), (CHECK, PEEKS, 'check')):
        t = lib.ithir.get(fn)
        ok = False; why = 'not found'
        if t is None and nm == 'check':
            import facts as _facts
            if _facts.baseline_private(fn):
                # the private look-ahead helper is gone (its callers test tokens.peek() themselves, which the walker reads directly)
                R.count('A:helpers-gone'); continue
        if t is not None:
            try:
                got = helper_outcomes(lib, t, adv)
                ok = got == {'none': 'err', 'eq': 'ok', 'other': 'err'}
                why = 'outcomes %s' % got
            except Undec as u:
                why = 'cannot read it: %s' % u.msg
        R.count('A:helper-shapes'); R.obligation(ok, 'A helper ' + nm)
        if not ok:
            R.violation('%s / A / helper shape' % fn, 'A', '%s must %s one token and succeed exactly when it is the given token (%s)' % (nm, 'consume' if nm == 'expect' else 'look at', why), t['span']['loc'] if t else None)

# ------------------------------------------------------------------------------------------------ path walker
def walk_pat(p):
    yield p
    if p.get('sub'): yield from walk_pat(p['sub'])
    for sp in p.get('subs') or []: yield from walk_pat(sp['pat'])
    for q in p.get('pats') or []: yield from walk_pat(q)

class St:
    __slots__ = ('ev', 'env')
    def __init__(self, ev=(), env=None): self.ev, self.env = ev, env or {}
    def with_ev(self, e): return St(self.ev + (e,), self.env)
    def bind(self, k, v):
        env = dict(self.env); env[k] = v; return St(self.ev, env)

class Walker:
    def __init__(self, lib, K, consts=None):
        self.lib, self.K, self.consts = lib, K, consts or {}
        self.vec_n = 0
        self.err_paths = []       # events of the paths on which the function returns an error it raised itself
        self.implicit = []        # (events before, the call's event) for every `?` on the result of a token-reading call: it may fail there
        self.unclear_failure = False      # a failure whose circumstances are not recorded (inside a loop, `?` on a result whose call is not the last event)

    def paths(self, fname):
        t = self.lib.ithir[fname]
        st = St()
        for p in t['params']:
            if 'pat' in p and p['pat']['k'] == 'Binding':
                nm = p['pat']['name']
                if nm in self.consts:
                    cv = self.consts[nm]
                    st = st.bind(p['pat']['var'], cv if isinstance(cv, tuple) and cv and cv[0] in ('enum', 'token', 'fnitem') else ('lit', cv))
                else:
                    st = st.bind(p['pat']['var'], ('param', nm))
        out = []
        for (s, kind, v) in self.run(t['body'], st):
            if kind == 'val': kind, v = self.as_return(v)
            if kind == 'ret_ok': out.append((s.ev, v, s.env))
            elif kind == 'ret_err': self.err_paths.append(s.ev)
            else: raise Undec('path ends with %s outside a loop' % kind, t['span']['loc'])
        return out

    def as_return(self, v):
        if v[0] == 'ok': return 'ret_ok', v[1]
        if v[0] == 'err': return 'ret_err', None
        if v[0] == 'res': return 'ret_ok', v[1]
        raise Undec('function result is not a Result: %r' % (v,))

    def run_seq(self, exprs, st):
        """evaluate expressions left to right; yields (state, [values]) for normal completion, or abrupt outcomes"""
        outs = [(st, [])]
        abrupt = []
        for e in exprs:
            nxt = []
            for (s, vals) in outs:
                for (s2, kind, v) in self.run(e, s):
                    if kind == 'val': nxt.append((s2, vals + [v]))
                    else: abrupt.append((s2, kind, v))
            outs = nxt
        return outs, abrupt

    def run(self, e, st):
        k = e['k']
        m = getattr(self, 'r_' + k, None)
        if m is None: raise Undec('expression kind %s in a parse function' % k, e.get('loc'))
        return m(e, st)

    def r_Use(self, e, st): return self.run(e['source'], st)
    r_NeverToAny = r_Use
    r_PointerCoercion = r_Use
    def r_Deref(self, e, st): return self.run(e['arg'], st)
    r_Borrow = r_Deref
    def r_VarRef(self, e, st):
        return [(st, 'val', st.env.get(e['var'], ('other',)))]
    r_UpvarRef = r_VarRef
    def r_Literal(self, e, st): return [(st, 'val', ('lit', e.get('value')))]
    def r_Tuple(self, e, st):
        outs, ab = self.run_seq(e['fields'], st)
        return [(s, 'val', ('tuple', vs) if vs else ('unit',)) for s, vs in outs] + ab
    def r_Array(self, e, st):
        outs, ab = self.run_seq(e['fields'], st)
        return [(s, 'val', ('list', tuple(vs))) for s, vs in outs] + ab
    def r_Closure(self, e, st): return [(st, 'val', ('closure', canon(e['def'])))]
    def r_ZstLiteral(self, e, st):
        if 'fn' in e: return [(st, 'val', ('fnitem', canon(e['fn'].get('res') or e['fn']['def'])))]       # a function passed as a value (`Self::parse_variable_name`)
        return [(st, 'val', ('other',))]
    def r_NamedConst(self, e, st):
        # a table kept in a const (`const OPERATOR_TOKENS: [(Token, Operator); 8] = [..]`): its rows
        t = self.lib.ithir.get(canon(e.get('def') or ''))
        if t is not None and getattr(self, '_depth', 0) < 6:
            try:
                self._depth = getattr(self, '_depth', 0) + 1
                r = self.run(t['body'], St((), {}))
            except Undec:
                r = []
            finally:
                self._depth -= 1
            if len(r) == 1 and r[0][1] == 'val' and not r[0][0].ev and self._concrete(r[0][2]): return [(st, 'val', r[0][2])]
        return [(st, 'val', ('other',))]
    def _concrete(self, v):
        if v[0] in ('token', 'enum', 'lit', 'none', 'unit'): return True
        if v[0] == 'some': return self._concrete(v[1])
        if v[0] in ('tuple', 'list'): return all(self._concrete(x) for x in v[1])
        return False
    def _equal(self, a, b, loc):
        """== on values known on this path; Undec when it depends on something unknown (the payload of a Var / Reference / Countable token)"""
        if a[0] != b[0]:
            if {a[0], b[0]} <= {'some', 'none'}: return False
            raise Undec('comparison of %s with %s' % (a[0], b[0]), loc)
        if a[0] in ('none', 'unit'): return True
        if a[0] == 'some': return self._equal(a[1], b[1], loc)
        if a[0] == 'token':
            if a[1] != b[1]: return False
            if a[1] in ('Var', 'Reference', 'Countable'): raise Undec('comparison of two %s tokens (the payload is not known)' % a[1], loc)
            return True
        if a[0] in ('enum', 'lit'): return a == b
        if a[0] in ('tuple', 'list'):
            if len(a[1]) != len(b[1]): return False
            return all(self._equal(x, y, loc) for x, y in zip(a[1], b[1]))
        raise Undec('comparison of %s values' % a[0], loc)
    def r_Field(self, e, st):
        return [(s, k, ('other',) if k == 'val' else v) for (s, k, v) in self.run(e['lhs'], st)]
    def r_Cast(self, e, st): return self.run(e['source'], st)
    def r_Unary(self, e, st):
        out = []
        for (s, k, v) in self.run(e['arg'], st):
            if k == 'val' and e['op'] == 'Not' and v[0] == 'lit' and isinstance(v[1], bool): out.append((s, k, ('lit', not v[1])))
            else: out.append((s, k, ('other',) if k == 'val' else v))
        return out

    def r_Adt(self, e, st):
        outs, ab = self.run_seq([f['expr'] for f in e['fields']], st)
        adt = canon(e['adt'])
        res = []
        for s, vs in outs:
            byidx = {f['idx']: v for f, v in zip(e['fields'], vs)}
            if adt == 'std::result::Result':
                res.append((s, 'val', ('ok', byidx.get(0)) if e['variant'] == 'Ok' else ('err',)))
            elif adt == 'std::option::Option':
                res.append((s, 'val', ('some', byidx.get(0)) if e['variant'] == 'Some' else ('none',)))
            elif adt == SYN:
                n = max(byidx) + 1 if byidx else 0
                res.append((s, 'val', ('cons', e['variant'], [byidx.get(i) for i in range(n)], e['loc'])))
            elif adt == TOK:
                res.append((s, 'val', ('token', e['variant'])))
            elif byidx and e.get('adt_kind') != 'Struct':
                n = max(byidx) + 1
                res.append((s, 'val', ('enumv', adt, e['variant'], [byidx.get(i, ('other',)) for i in range(n)])))      # a variant carrying values (an intermediate result)
            else:
                res.append((s, 'val', ('enum', adt, e['variant'])))
        return res + ab

    def r_Block(self, e, st):
        states = [st]; abrupt = []
        for s_ in e['stmts']:
            nxt = []
            for s in states:
                if s_['k'] == 'Expr':
                    for (s2, k, v) in self.run(s_['expr'], s):
                        if k == 'val':
                            if v == ('next',): s2 = self.consume_unnamed(s2)      # `tokens.next();` - the token is consumed, its value dropped
                            nxt.append(s2)
                        else: abrupt.append((s2, k, v))
                else:
                    if s_['init'] is None:
                        nxt.append(s); continue
                    for (s2, k, v) in self.run(s_['init'], s):
                        if k != 'val': abrupt.append((s2, k, v)); continue
                        for (s3, v3) in [y for x in self.concretize(v, s2) for y in (self.inspected(x[1], x[0], s_.get('loc')) if s_.get('else') is not None else [x])]:
                            if s_.get('else') is not None:
                                # `let PAT = value else { diverge };`
                                s4 = self.pm(s_['pat'], v3, s3)
                                if s4 is not None: nxt.append(s4); continue
                                for (s5, k5, v5) in self.run(s_['else'], s3):
                                    if k5 == 'val': raise Undec('the else block of a let-else completes', s_['else'].get('loc'))
                                    abrupt.append((s5, k5, v5))
                            else:
                                q_ = s_['pat']
                                while q_['k'] in ('Deref', 'DerefPattern'): q_ = q_['sub']
                                if q_['k'] == 'Leaf' and 'adt' not in q_ and v3[0] == 'tuple':
                                    s4 = self.pm(q_, v3, s3)
                                    nxt.append(s4 if s4 is not None else s3)
                                else: nxt.append(self.bind_pat(s_['pat'], v3, s3))
            states = nxt
        out = []
        for s in states:
            if e['expr'] is not None: out.extend(self.run(e['expr'], s))
            else: out.append((s, 'val', ('unit',)))
        return out + abrupt

    def consume_unnamed(self, st):
        """`tokens.next();` with the value dropped: any token the look-ahead tests since the last consumption allow; when they leave exactly
        one, it is that token, and what was bound to its payload while it was only peeked at is the payload of this consumption"""
        pending = set()
        for ev in reversed(st.ev):
            if ev[0] in ('la', 'nla'): pending.add(ev)
            else: break
        a = allowed(frozenset(pending)) if pending else None
        if a is not None and len(a) == 1 and 'NONE' not in a:
            X = sorted(a)[0]
            s2 = st.with_ev(('tok', X))
            idx = len(s2.ev) - 1
            env = {k_: (('ev', idx) if v_ == ('peekpayload', X) else v_) for k_, v_ in s2.env.items()}
            return St(s2.ev, env)
        return st.with_ev(('anytok', frozenset()))

    def inspected(self, v, st, loc):
        """the Result of a token-reading call looked at instead of propagated (`let Ok(op) = parse_operator(tokens) else { .. }`): allowed when the
        callee refuses cleanly (on every path on which it fails it has consumed nothing); then it fails exactly when the next token is not one
        its successes start with -> [(state, ('ok', value)), (state without the call, next token not in FIRST, ('err',))]"""
        if v[0] != 'res': return [(st, v)]
        ev = st.ev[-1] if st.ev else None
        if ev is None or ev[0] != 'nt' or not (v[1] == ('ev', len(st.ev) - 1) or v[1][0] != 'ev'):
            raise Undec('the Result of a token-reading call is inspected away from the call', loc)
        if ev[2] or not refusal_clean(self.lib, self.K, ev[1]):
            raise Undec('the Result of %s is inspected, and %s may fail after consuming tokens' % (ev[1].split('::')[-1], ev[1].split('::')[-1]), loc)
        first = first_tokens(self.lib, self.K, ev[1])
        if first is None: raise Undec('the tokens %s starts with cannot be read' % ev[1].split('::')[-1], loc)
        return [(st, ('ok', v[1])), (St(st.ev[:-1] + (('nla', frozenset(first)),), st.env), ('err',))]

    def concretize(self, v, st):
        """a token read whose value is kept (`let t = tokens.peek();`, `tokens.next().and_then(..)`) instead of being matched on the spot:
        one path per token that can be there, each with the test / consumption as its event and the token as a constant"""
        if v not in (('peek',), ('next',)): return [(st, v)]
        out = []
        pending = set()          # what the look-ahead tests since the last consumption already say about the next token
        for ev in reversed(st.ev):
            if ev[0] in ('la', 'nla'): pending.add(ev)
            else: break
        feasible = allowed(frozenset(pending))
        for X in ALL_TOKENS:
            if X not in feasible: continue
            s2 = st.with_ev(('la', frozenset([X]))) if v == ('peek',) else st.with_ev(('tok', X))
            # third component: where the token's payload can be found (the consumption event, or "still in the reader")
            out.append((s2, ('none',) if X == 'NONE' else ('some', ('token', X, 'peek' if v == ('peek',) else ('ev', len(s2.ev) - 1)))))
        return out

    def pm(self, p, v, st):
        """pattern against a value known on this path: the state with the pattern's bindings if it accepts, None if it refuses"""
        while p['k'] in ('Deref', 'DerefPattern'): p = p['sub']
        k = p['k']
        if k == 'Wild': return st
        if k == 'Binding':
            if p.get('sub'):
                r = self.pm(p['sub'], v, st)
                return None if r is None else r.bind(p['var'], v)
            return st.bind(p['var'], v)
        if k == 'Or':
            for q in p['pats']:
                r = self.pm(q, v, st)
                if r is not None: return r
            return None
        if k == 'Leaf' and 'adt' not in p and v[0] in ('tuple', 'unit'):
            vs = v[1] if v[0] == 'tuple' else []
            for sp in p['subs']:
                if sp['field'] >= len(vs): raise Undec('tuple pattern wider than the value', p.get('loc'))
                st = self.pm(sp['pat'], vs[sp['field']], st)
                if st is None: return None
            return st
        if k == 'Variant':
            adt = canon(p['adt'])
            if adt == 'std::option::Option' and v[0] in ('some', 'none'):
                if v[0] == 'none': return st if p['variant'] == 'None' else None
                if p['variant'] != 'Some': return None
                return self.pm(p['subs'][0]['pat'], v[1], st) if p['subs'] else st
            if adt == 'std::result::Result' and v[0] in ('ok', 'err'):
                if v[0] == 'ok':
                    if p['variant'] != 'Ok': return None
                    return self.pm(p['subs'][0]['pat'], v[1] if v[1] is not None else ('other',), st) if p['subs'] else st
                if p['variant'] != 'Err': return None
                for sp in p.get('subs') or []:
                    for q in walk_pat(sp['pat']):
                        if q['k'] == 'Binding': st = st.bind(q['var'], ('other',))
                return st
            if adt == TOK and v[0] == 'token':
                if p['variant'] != v[1]: return None
                src = v[2] if len(v) > 2 else None
                for sp in p.get('subs') or []:
                    for q in walk_pat(sp['pat']):
                        if q['k'] == 'Binding':
                            st = st.bind(q['var'], src if isinstance(src, tuple) else ('peekpayload', v[1]) if src == 'peek' else ('other',))
                return st
            if v[0] == 'enum' and adt == v[1]:
                if p['variant'] != v[2]: return None
                if not p.get('subs'): return st
            if v[0] == 'enumv' and adt == v[1]:
                if p['variant'] != v[2]: return None
                for sp in p.get('subs') or []:
                    if sp['field'] >= len(v[3]): raise Undec('variant pattern wider than the value', p.get('loc'))
                    st = self.pm(sp['pat'], v[3][sp['field']], st)
                    if st is None: return None
                return st
        if k == 'Constant' and v[0] == 'lit' and isinstance(v[1], bool):
            cv = str(p.get('value'))
            return st if (('true' in cv or '0x01' in cv) and v[1] is True) or (('false' in cv or '0x00' in cv) and v[1] is False) else None
        raise Undec('pattern %s against %r' % (pp_pat(p), v[:1]), p.get('loc'))

    def apply(self, f, args, st, loc, depth=0):
        """call of a closure written in the parse function, or of a function handed over as a value, on values known on this path"""
        name = f[1]
        t = self.lib.ithir.get(name)
        if t is None and f[0] == 'fnitem' and '::' in name:
            # a variant constructor handed over as a function (`.map(Bound::Formulas)`)
            adt, variant = name.rsplit('::', 1)
            a_ = self.lib.adts.get(adt)
            if a_ is not None and any(v_.get('name') == variant for v_ in a_['variants']):
                if adt == SYN: return [(st, 'val', ('cons', variant, list(args), loc))]
                if adt == TOK: return [(st, 'val', ('token', variant))]
                return [(st, 'val', ('enumv', adt, variant, list(args)) if args else ('enum', adt, variant))]
        if t is None: raise Undec('call of %s, whose body is not known' % name, loc)
        if getattr(self, '_depth', 0) > 6: raise Undec('helper calls nested too deeply', loc)
        ps = [p for p in t['params'] if 'pat' in p]
        if f[0] == 'closure': ps = ps[-len(args):] if args else []
        if len(ps) != len(args): raise Undec('call of %s with %d argument(s)' % (name.split('::')[-1], len(args)), loc)
        s = st
        for p_, a in zip(ps, args):
            s2 = self.pm(p_['pat'], a, s)
            if s2 is None: raise Undec('parameter pattern refuses the argument', loc)
            s = s2
        self._depth = getattr(self, '_depth', 0) + 1
        try:
            out = []
            for (s3, k, v) in self.run(t['body'], s):
                if k == 'val': out.append((s3, 'val', v))
                elif k == 'ret_ok': out.append((s3, 'val', ('ok', v)))
                elif k == 'ret_err': out.append((s3, 'val', ('err',)))
                else: raise Undec('%s leaves a called closure / helper' % k, loc)
            return out
        finally:
            self._depth -= 1

    def bind_pat(self, p, v, st):
        while p['k'] in ('Deref', 'DerefPattern'): p = p['sub']
        if p['k'] == 'Binding': return st.bind(p['var'], v)
        return st

    def r_Return(self, e, st):
        if e['value'] is None: raise Undec('bare return', e['loc'])
        out = []
        for (s, k, v) in self.run(e['value'], st):
            if k != 'val': out.append((s, k, v)); continue
            if v[0] == 'residual' or v[0] == 'err': out.append((s, 'ret_err', None))
            elif v[0] == 'ok': out.append((s, 'ret_ok', v[1]))
            elif v[0] == 'res': out.append((s, 'ret_ok', v[1]))
            else: raise Undec('return of %r' % (v,), e['loc'])
        return out

    def r_Break(self, e, st): return [(st, 'break', None)]
    def r_Continue(self, e, st): return [(st, 'continue', None)]

    def r_Loop(self, e, st):
        inner = St((), st.env)
        cont, brk = [], []
        for (s, k, v) in self.run(e['body'], inner):
            if k in ('val', 'continue'): cont.append(s.ev)
            elif k == 'break': brk.append(s.ev)
            elif k == 'ret_err': self.unclear_failure = True
            else: raise Undec('return from inside a loop', e['loc'])
            # propagate vector pushes made inside the loop
            for key, val in s.env.items():
                if key.startswith('#vec:') and val != st.env.get(key):
                    st = st.bind(key, st.env.get(key, []) + [('looped', x, s.ev) for x in val if x not in st.env.get(key, []) and not (x and x[0] == 'looped')])
        return [(st.with_ev(('loop', tuple(cont), tuple(brk))), 'val', ('unit',))]

    def r_If(self, e, st):
        c = e['cond']
        if c['k'] == 'Let':
            # `if let PAT = tokens.peek()/next() { A } else { B }` is the two-arm match { PAT => A, _ => B }
            probe = self.run(c['expr'], st)
            if len(probe) == 1 and probe[0][1] == 'val' and probe[0][2][0] in ('peek', 'next'):
                fake = {'k': 'Match', 'loc': e['loc'], 'source': 'IfLetDesugar', 'scrutinee': c['expr'],
                        'arms': [{'pat': c['pat'], 'guard': None, 'body': e['then']},
                                 {'pat': {'k': 'Wild', 'loc': e['loc']}, 'guard': None, 'body': e['else'] if e['else'] is not None else {'k': 'Tuple', 'fields': [], 'loc': e['loc']}}]}
                return self.r_Match(fake, st)
            if len(probe) >= 1 and all(k_ != 'val' or v_[0] in ('res', 'ok', 'err', 'some', 'none', 'token', 'enum', 'enumv', 'tuple') for (_, k_, v_) in probe):
                fake = {'k': 'Match', 'loc': e['loc'], 'source': 'IfLetDesugar', 'scrutinee': c['expr'],
                        'arms': [{'pat': c['pat'], 'guard': None, 'body': e['then']},
                                 {'pat': {'k': 'Wild', 'loc': e['loc']}, 'guard': None, 'body': e['else'] if e['else'] is not None else {'k': 'Tuple', 'fields': [], 'loc': e['loc']}}]}
                return self.r_Match(fake, st)
            raise Undec('`if let` on %s in a parse function' % pp(c['expr'])[:60], e['loc'])
        out = []
        for (s, k, v) in self.run(c, st):
            if k != 'val': out.append((s, k, v)); continue
            if v[0] == 'lit' and isinstance(v[1], bool):
                if v[1]: out.extend(self.run(e['then'], s))
                elif e['else'] is not None: out.extend(self.run(e['else'], s))
                else: out.append((s, 'val', ('unit',)))
            else:
                raise Undec('condition %s is not a look-ahead test or a constant' % pp(c)[:80], e['loc'])
        return out

    def r_LogicalOp(self, e, st):
        raise Undec('logical operator in a parse function', e['loc'])
    def r_Binary(self, e, st):
        outs, ab = self.run_seq([e['lhs'], e['rhs']], st)
        return [(s, 'val', ('other',)) for s, _ in outs] + ab
    def r_Let(self, e, st):
        raise Undec('let-condition in a parse function', e['loc'])
    def r_Assign(self, e, st):
        out = []
        for (s, k, v) in self.run(e['rhs'], st):
            if k == 'val' and e['lhs']['k'] == 'VarRef': out.append((s.bind(e['lhs']['var'], v), 'val', ('unit',)))
            else: out.append((s, k, v))
        return out

    def pat_tokens(self, p):
        """-> ('some', [token variants]) | ('none',) | ('wild', binding var or None) for one flat pattern of peek()/next()"""
        q = p
        while q['k'] in ('Deref', 'DerefPattern'): q = q['sub']
        if q['k'] == 'Wild': return ('wild', None)
        if q['k'] == 'Binding' and not q.get('sub'): return ('wild', q['var'])
        if q['k'] == 'Variant' and canon(q['adt']) == 'std::option::Option':
            if q['variant'] == 'None': return ('none',)
            tk = token_of_pat(q)
            if tk is not None: return ('some', tk, q)
            inner = q['subs'][0]['pat'] if q['subs'] else None
            while inner is not None and inner['k'] in ('Deref', 'DerefPattern'): inner = inner['sub']
            if inner is not None and inner['k'] in ('Wild', 'Binding'): return ('anysome', inner.get('var'))
        raise Undec('pattern %s on the token reader' % pp_pat(p), p.get('loc'))

    def payload_bind(self, q, idx, st):
        """bind payload variables of Some(&Token::X(v)) to ('tokpayload', idx)"""
        def rec(p, st):
            if p['k'] in ('Deref', 'DerefPattern'): return rec(p['sub'], st)
            if p['k'] == 'Binding': return st.bind(p['var'], ('ev', idx))
            for s in p.get('subs', []) or []: st = rec(s['pat'], st)
            return st
        return rec(q, st)

    def r_Match(self, e, st):
        src = e.get('source', '')
        scr = e['scrutinee']
        out = []
        if 'TryDesugar' in src:
            call = scr
            if not (call['k'] == 'Call' and (callee_name(call) or '').endswith('Try>::branch')): raise Undec('unexpected ? desugaring', e['loc'])
            for (s, k, v) in self.run(call['args'][0], st):
                if k != 'val': out.append((s, k, v)); continue
                if v[0] == 'res':
                    if s.ev and s.ev[-1][0] in ('nt', 'tok'): self.implicit.append((s.ev[:-1], s.ev[-1]))
                    else: self.unclear_failure = True
                    out.append((s, 'val', v[1]))
                elif v[0] == 'ok': out.append((s, 'val', v[1]))
                elif v[0] == 'err': out.append((s, 'ret_err', None))
                elif v[0] == 'other': out.append((s, 'val', ('other',)))      # `?` on a non-parser Result (io): success continues
                else: raise Undec('`?` applied to %r' % (v,), e['loc'])
            return out
        for (s, k, v) in self.run(scr, st):
            if k != 'val': out.append((s, k, v)); continue
            if v[0] in ('peek', 'next'):
                try:
                    for arm in e['arms']:
                        if any(q['k'] == 'Binding' and q.get('sub') for q in walk_pat(arm['pat'])): raise Undec('binding with a sub-pattern')
                        if arm['guard'] is None:
                            for p in flat_pats(arm['pat']): self.pat_tokens(p)
                except Undec:
                    # patterns beyond the plain token tests (`Some(kw @ (A | B))`): one path per token, the patterns decided on the constant
                    for (s3, v3) in self.concretize(v, s): out.extend(self.const_match(e, v3, s3))
                    continue
                earlier = set()
                none_seen = False
                for arm in e['arms']:
                    if arm['guard'] is not None: raise Undec('guard on a token match', e['loc'])
                    toks = []; wild = None; has_none = False; bind_q = None
                    for p in flat_pats(arm['pat']):
                        pt = self.pat_tokens(p)
                        if pt[0] == 'some': toks.append(pt[1]); bind_q = pt[2]
                        elif pt[0] == 'none': has_none = True
                        elif pt[0] in ('wild', 'anysome'): wild = pt
                    if wild is not None:
                        excl = frozenset(earlier | ({'NONE'} if none_seen else set()))
                        if v[0] == 'peek':
                            s2 = s.with_ev(('nla', excl))
                        else:
                            s2 = s.with_ev(('anytok', excl))
                        if wild[1]: s2 = s2.bind(wild[1], ('other',))
                        out.extend(self.run(arm['body'], s2))
                        break
                    fresh = [t for t in toks if t not in earlier]
                    if has_none and not none_seen: fresh.append('NONE')
                    if not fresh: continue
                    if v[0] == 'peek':
                        s2 = s.with_ev(('la', frozenset(fresh)))
                        if bind_q is not None and len(fresh) == 1 and fresh[0] != 'NONE':
                            for q_ in walk_pat(bind_q):
                                if q_['k'] == 'Binding': s2 = s2.bind(q_['var'], ('peekpayload', fresh[0]))
                        out.extend(self.run(arm['body'], s2))
                    else:
                        for t in fresh:
                            s2 = s.with_ev(('tok', t))
                            if bind_q is not None and t != 'NONE': s2 = self.payload_bind(bind_q, len(s2.ev) - 1, s2)
                            out.extend(self.run(arm['body'], s2))
                    earlier |= set(toks)
                    none_seen = none_seen or has_none
                continue
            if v[0] == 'res':
                for (s3, v3) in self.inspected(v, s, e.get('loc')): out.extend(self.const_match(e, v3, s3))
                continue
            if v[0] in ('some', 'none', 'tuple', 'enumv', 'ok', 'err') or (v[0] == 'token' and any(q.get('subs') or q['k'] in ('Binding', 'Or') and q.get('sub') for arm in e['arms'] for q in walk_pat(arm['pat']))):
                out.extend(self.const_match(e, v, s)); continue
            if v[0] in ('enum', 'token', 'lit'):
                # match on a value known on this path (a constant argument of a specialised parse function): the first arm that accepts it
                taken = False
                for arm in e['arms']:
                    if arm['guard'] is not None: raise Undec('guard on a constant match', e['loc'])
                    for p in flat_pats(arm['pat']):
                        q = p
                        while q['k'] in ('Deref', 'DerefPattern'): q = q['sub']
                        hit = False; s2 = s
                        if q['k'] == 'Wild': hit = True
                        elif q['k'] == 'Binding' and not q.get('sub'): hit = True; s2 = s.bind(q['var'], v)
                        elif q['k'] == 'Variant' and v[0] in ('enum', 'token'):
                            adt = canon(q['adt'])
                            hit = (adt == (v[1] if v[0] == 'enum' else TOK)) and q['variant'] == (v[2] if v[0] == 'enum' else v[1]) and not q.get('subs')
                        elif q['k'] == 'Constant' and v[0] == 'lit' and isinstance(v[1], bool):
                            cv = str(q.get('value'))
                            hit = (('true' in cv or '0x01' in cv) and v[1] is True) or (('false' in cv or '0x00' in cv) and v[1] is False)
                        if hit:
                            out.extend(self.run(arm['body'], s2)); taken = True; break
                    if taken: break
                if not taken: raise Undec('no arm accepts the constant %r' % (v,), e['loc'])
                continue
            raise Undec('match on %s in a parse function' % pp(scr)[:60], e['loc'])
        return out

    def _plain_lookahead(self, e, st):
        """is this peek().map_or(false, |t| **t == T) / is_some_and(..) the plain look-ahead test handled below?"""
        cl = e['args'][-1]
        while cl['k'] in ('Use', 'Borrow', 'Deref', 'NeverToAny'): cl = cl.get('source') or cl.get('arg')
        return cl['k'] == 'Closure' and self.lookahead_token(cl, st) is not None

    def const_match(self, e, v, s):
        """match on a value known on this path: the first arm whose pattern accepts it"""
        for arm in e['arms']:
            if arm['guard'] is not None: raise Undec('guard on a constant match', e['loc'])
            s2 = self.pm(arm['pat'], v, s)
            if s2 is not None: return self.run(arm['body'], s2)
        raise Undec('no arm accepts the constant %r' % (v[:2],), e['loc'])

    def lookahead_token(self, closure, st):
        """the tokens accepted by a closure `|t| **t == T` (either operand order) or `|t| matches!(t, T1 | T2 | ..)` (also through a
        new helper method, which the inlined view shows in place): a frozenset; None if the closure is something else"""
        ct = self.lib.ithir.get(canon(closure['def']))
        if ct is None or len(ct['params']) != 2: return None
        pv = ct['params'][1]['pat']
        while pv['k'] in ('Deref', 'DerefPattern'): pv = pv['sub']
        if pv['k'] != 'Binding': return None
        b = ct['body']
        while b['k'] in ('Use', 'NeverToAny', 'Borrow', 'Deref') or (b['k'] == 'Block' and not b['stmts'] and b['expr'] is not None):
            b = b.get('source') or b.get('arg') or b.get('expr')
        if b['k'] == 'Match' and b.get('source') in (None, 'Normal'):
            sc = b['scrutinee']
            while sc['k'] in ('Use', 'Borrow', 'Deref', 'NeverToAny'): sc = sc.get('source') or sc.get('arg')
            if sc['k'] in ('VarRef', 'UpvarRef') and sc['var'] == pv['var'] and len(b['arms']) == 2 and all(a['guard'] is None for a in b['arms']):
                def boolean(x):
                    while x['k'] in ('Use', 'NeverToAny') or (x['k'] == 'Block' and not x['stmts'] and x['expr'] is not None): x = x.get('source') or x.get('expr')
                    return x.get('value') if x['k'] == 'Literal' and isinstance(x.get('value'), bool) else None
                a0, a1 = b['arms']
                q1 = a1['pat']
                while q1['k'] in ('Deref', 'DerefPattern'): q1 = q1['sub']
                if boolean(a0['body']) is True and boolean(a1['body']) is False and q1['k'] == 'Wild':
                    toks = set()
                    for p in flat_pats(a0['pat']):
                        q = p
                        while q['k'] in ('Deref', 'DerefPattern'): q = q['sub']
                        if q['k'] == 'Variant' and canon(q['adt']) == TOK and not q.get('subs'): toks.add(q['variant'])
                        else: return None
                    return frozenset(toks) if toks else None
            return None
        if b['k'] == 'Call' and callee_name(b) and (callee_name(b).endswith('PartialEq>::eq') or (b.get('callee', {}).get('def') or '').endswith('PartialEq::eq')): l, r = b['args']
        elif b['k'] == 'Binary' and b['op'] == 'Eq': l, r = b['lhs'], b['rhs']
        else: return None
        def is_param(x):
            while x['k'] in ('Use', 'Borrow', 'Deref', 'NeverToAny'): x = x.get('source') or x.get('arg')
            return x['k'] in ('VarRef', 'UpvarRef') and x['var'] == pv['var']
        other = r if is_param(l) else l if is_param(r) else None
        if other is None: return None
        vals = self.run(other, st)
        if len(vals) == 1 and vals[0][1] == 'val' and vals[0][2][0] == 'token': return frozenset([vals[0][2][1]])
        return None

    def r_Call(self, e, st):
        cn = callee_name(e) or ''
        loc = e['loc']
        if not cn and e.get('fun') is not None:
            # a call through a value: a parameter that holds a function item on this (specialised) path is that function
            fv = self.run(e['fun'], st)
            if len(fv) == 1 and fv[0][1] == 'val' and fv[0][2][0] == 'fnitem':
                e = dict(e); e['callee'] = {'def': fv[0][2][1], 'res': fv[0][2][1]}
                cn = fv[0][2][1]
            elif len(fv) == 1 and fv[0][1] == 'val' and fv[0][2][0] == 'closure':
                outs, ab = self.run_seq(e['args'], fv[0][0])
                res = list(ab)
                for (s, vs) in outs: res.extend(self.apply(fv[0][2], vs, s, loc))
                return res
            else: raise Undec('call through a value that is not a known function', loc)
        dn = canon((e.get('callee') or {}).get('def') or '')
        if dn in ('std::ops::FnMut::call_mut', 'std::ops::Fn::call', 'std::ops::FnOnce::call_once') and len(e['args']) == 2:
            # `part(KW)` on a local closure: Fn*::call*(&mut part, (KW,))
            fv = self.run(e['args'][0], st)
            if len(fv) == 1 and fv[0][1] == 'val' and fv[0][2][0] in ('closure', 'fnitem'):
                outs, ab = self.run_seq([e['args'][1]], fv[0][0])
                res = list(ab)
                for (s, vs) in outs:
                    args = vs[0][1] if vs[0][0] == 'tuple' else [] if vs[0][0] == 'unit' else None
                    if args is None: raise Undec('closure called with an argument list that is not spelt out', loc)
                    if fv[0][2][0] == 'fnitem' and fv[0][2][1] in self.K and fv[0][2][1] in __import__('facts').baseline_fns():
                        raise Undec('call of a parse function through Fn::call', loc)
                    res.extend(self.apply(fv[0][2], args, s, loc))
                return res
        if cn.startswith('std::iter::Peekable::next_if_eq') or cn.startswith('std::iter::Peekable::next_if'):
            # tokens.next_if_eq(&&T) / tokens.next_if(|t| **t == T): consumes the next token exactly when it is T
            toks = None
            if cn.endswith('next_if_eq') and len(e['args']) == 2:
                tv = self.run(e['args'][1], st)
                if len(tv) == 1 and tv[0][1] == 'val' and tv[0][2][0] == 'token': toks = frozenset([tv[0][2][1]])
            elif cn.endswith('next_if') and len(e['args']) == 2:
                cl = e['args'][1]
                while cl['k'] in ('Use', 'Borrow', 'Deref', 'NeverToAny'): cl = cl.get('source') or cl.get('arg')
                toks = self.lookahead_token(cl, st) if cl['k'] == 'Closure' else None
            if not toks: raise Undec('next_if / next_if_eq on something other than constant tokens', loc)
            res = [(st.with_ev(('nla', toks)), 'val', ('none',))]
            for t_ in sorted(toks): res.append((st.with_ev(('la', frozenset([t_]))).with_ev(('tok', t_)), 'val', ('some', ('token', t_))))
            return res
        OPT = 'std::option::Option::'
        if cn in (OPT + 'and_then', OPT + 'map', OPT + 'copied', OPT + 'cloned', OPT + 'as_ref', OPT + 'is_none', OPT + 'is_some', OPT + 'ok_or', OPT + 'ok_or_else',
                  OPT + 'filter', OPT + 'is_some_and', OPT + 'map_or', OPT + 'unwrap_or', OPT + 'or') and e['args'] and \
                not (cn in (OPT + 'map_or', OPT + 'is_some_and') and self._plain_lookahead(e, st)):
            first = self.run(e['args'][0], st)
            res = []
            handled = True
            for (s1, k1, v1) in first:
                if k1 != 'val': res.append((s1, k1, v1)); continue
                if v1 not in (('peek',), ('next',)) and v1[0] not in ('some', 'none'): handled = False; break
                if v1 in (('peek',), ('next',)) and cn in (OPT + 'copied', OPT + 'cloned', OPT + 'as_ref'):
                    res.append((s1, 'val', v1)); continue        # still the unread token: decided where it is looked at
                for (s2, v2) in self.concretize(v1, s1):
                    outs, ab = self.run_seq(e['args'][1:], s2)
                    res.extend(ab)
                    for (s3, vs) in outs:
                        m = cn[len(OPT):]
                        if m in ('copied', 'cloned', 'as_ref'): res.append((s3, 'val', v2))
                        elif m == 'is_none': res.append((s3, 'val', ('lit', v2[0] == 'none')))
                        elif m == 'is_some': res.append((s3, 'val', ('lit', v2[0] == 'some')))
                        elif m in ('ok_or', 'ok_or_else'): res.append((s3, 'val', ('ok', v2[1]) if v2[0] == 'some' else ('err',)))
                        elif m == 'unwrap_or': res.append((s3, 'val', v2[1] if v2[0] == 'some' else vs[0]))
                        elif m == 'or': res.append((s3, 'val', v2 if v2[0] == 'some' else vs[0]))
                        elif v2[0] == 'none':
                            res.append((s3, 'val', ('lit', False) if m == 'is_some_and' else vs[0] if m == 'map_or' else ('none',)))
                        else:
                            f = vs[-1]
                            if f[0] not in ('closure', 'fnitem'): raise Undec('%s with a function that is not spelt out' % m, loc)
                            for (s4, k4, v4) in self.apply(f, [v2[1]], s3, loc):
                                if k4 != 'val': res.append((s4, k4, v4)); continue
                                if m == 'and_then': res.append((s4, 'val', v4))
                                elif m == 'map': res.append((s4, 'val', ('some', v4)))
                                elif m == 'filter':
                                    if v4[0] != 'lit': raise Undec('filter with a test that is not decided', loc)
                                    res.append((s4, 'val', v2 if v4[1] else ('none',)))
                                else: res.append((s4, 'val', v4))
            if handled: return res
        if dn in ('std::cmp::PartialEq::eq', 'std::cmp::PartialEq::ne') and len(e['args']) == 2:
            outs, ab = self.run_seq(e['args'], st)
            if all(vs[0][0] in ('some', 'none', 'token', 'tuple', 'enum') and vs[1][0] in ('some', 'none', 'token', 'tuple', 'enum') for (_, vs) in outs):
                res = list(ab)
                for (s, vs) in outs:
                    r_ = self._equal(vs[0], vs[1], loc)
                    res.append((s, 'val', ('lit', r_ if dn.endswith('eq') else not r_)))
                return res
        if dn in ('std::iter::Iterator::find', 'std::iter::Iterator::position', 'std::iter::Iterator::any', 'std::iter::Iterator::find_map') and len(e['args']) == 2:
            first = self.run(e['args'][0], st)
            if all(k1 != 'val' or v1[0] == 'list' for (_, k1, v1) in first) and any(k1 == 'val' for (_, k1, v1) in first):
                res = []
                for (s1, k1, v1) in first:
                    if k1 != 'val': res.append((s1, k1, v1)); continue
                    outs, ab = self.run_seq(e['args'][1:], s1)
                    res.extend(ab)
                    for (s2, vs) in outs:
                        f = vs[0]
                        if f[0] not in ('closure', 'fnitem'): raise Undec('search with a test that is not spelt out', loc)
                        # the rows are tried in order; the test must be decided (and must not read tokens) on every row
                        cur = [(s2, None)]
                        m = dn.split('::')[-1]
                        for i_, row in enumerate(v1[1]):
                            nxt = []
                            for (s3, hit) in cur:
                                if hit is not None: nxt.append((s3, hit)); continue
                                for (s4, k4, v4) in self.apply(f, [row], s3, loc):
                                    if k4 != 'val': raise Undec('the test of a search leaves the function', loc)
                                    if m == 'find_map':
                                        if v4[0] not in ('some', 'none'): raise Undec('find_map with an undecided result', loc)
                                        nxt.append((s4, v4 if v4[0] == 'some' else None))
                                    else:
                                        if v4[0] != 'lit' or not isinstance(v4[1], bool): raise Undec('search with a test that is not decided on this path', loc)
                                        nxt.append((s4, (('some', row) if m == 'find' else ('some', ('lit', i_)) if m == 'position' else ('lit', True)) if v4[1] else None))
                            cur = nxt
                        for (s3, hit) in cur:
                            res.append((s3, 'val', hit if hit is not None else (('lit', False) if m == 'any' else ('none',))))
                return res
        if (cn in ('core::slice::<impl [T]>::iter',) or dn in ('std::iter::IntoIterator::into_iter', 'std::iter::Iterator::copied', 'std::iter::Iterator::cloned')) and len(e['args']) == 1:
            first = self.run(e['args'][0], st)
            if all(k1 != 'val' or v1[0] == 'list' for (_, k1, v1) in first) and any(k1 == 'val' for (_, k1, v1) in first): return first
        if cn == 'std::result::Result::and_then' and len(e['args']) == 2:
            # expect(T, tokens).and_then(|()| parse_x(tokens)): the second step runs on the success of the first, a failure of either is the failure
            first = self.run(e['args'][0], st)
            if all(k1 != 'val' or v1[0] in ('res', 'ok', 'err') for (_, k1, v1) in first):
                res = []
                for (s1, k1, v1) in first:
                    if k1 != 'val' or v1[0] == 'err': res.append((s1, k1, v1)); continue
                    if v1[0] == 'res':
                        if s1.ev and s1.ev[-1][0] in ('nt', 'tok'): self.implicit.append((s1.ev[:-1], s1.ev[-1]))
                        else: self.unclear_failure = True
                    outs, ab = self.run_seq(e['args'][1:], s1)
                    res.extend(ab)
                    for (s3, vs) in outs:
                        if vs[0][0] not in ('closure', 'fnitem'): raise Undec('Result::and_then with a function that is not spelt out', loc)
                        res.extend(self.apply(vs[0], [v1[1] if v1[1] is not None else ('unit',)], s3, loc))
                return res
        if cn == 'std::result::Result::map' and len(e['args']) == 2:
            first = self.run(e['args'][0], st)
            if all(k1 != 'val' or v1[0] in ('res', 'ok', 'err') for (_, k1, v1) in first):
                res = []
                for (s1, k1, v1) in first:
                    if k1 != 'val' or v1[0] == 'err': res.append((s1, k1, v1)); continue
                    outs, ab = self.run_seq(e['args'][1:], s1)
                    res.extend(ab)
                    for (s3, vs) in outs:
                        if vs[0][0] not in ('closure', 'fnitem'): raise Undec('Result::map with a function that is not spelt out', loc)
                        for (s4, k4, v4) in self.apply(vs[0], [v1[1]], s3, loc):
                            res.append((s4, k4, (v1[0], v4) if k4 == 'val' else v4))
                return res
        if cn in self.K and cn not in (EXPECT, CHECK) and cn not in __import__('facts').baseline_fns() and cn in self.lib.ithir and getattr(self, '_depth', 0) < 4:
            # a new helper that reads tokens (`parse_quantified_part`): walked in place, its events are the caller's
            outs, ab = self.run_seq(e['args'], st)
            res = list(ab)
            for (s, vs) in outs: res.extend(self.apply(('fnitem', cn), vs, s, loc))
            return res
        if cn not in NEXTS and cn not in PEEKS and dn == 'std::iter::Iterator::next' and e['args'] and is_reader_ty(e['args'][0].get('ty') or {}):
            cn = NEXTS[0]          # the reader behind `&mut impl Iterator<Item = &Token>`
        if cn in NEXTS or cn in PEEKS:
            return [(st, 'val', ('next',) if cn in NEXTS else ('peek',))]
        if cn in ('std::option::Option::map_or', 'std::option::Option::is_some_and') and e['args']:
            # look-ahead written out: tokens.peek().map_or(false, |t| **t == TOKEN) / tokens.peek().is_some_and(|t| **t == TOKEN)
            probe = self.run(e['args'][0], st)
            if len(probe) == 1 and probe[0][1] == 'val' and probe[0][2] == ('peek',):
                dflt = None
                if cn.endswith('map_or'):
                    dv = self.run(e['args'][1], st)
                    dflt = dv[0][2] if len(dv) == 1 and dv[0][1] == 'val' else None
                cl = e['args'][-1]
                while cl['k'] in ('Use', 'Borrow', 'Deref', 'NeverToAny'): cl = cl.get('source') or cl.get('arg')
                tok = self.lookahead_token(cl, st) if cl['k'] == 'Closure' else None
                if tok is not None and (dflt is None or dflt == ('lit', False)):
                    return [(st.with_ev(('la', tok)), 'val', ('lit', True)), (st.with_ev(('nla', tok)), 'val', ('lit', False))]
                raise Undec('look-ahead test on peek() that is not `next token == constant token`', loc)
        outs, ab = self.run_seq(e['args'], st)
        res = list(ab)
        for (s, vs) in outs:
            if cn == EXPECT:
                if vs[0][0] != 'token': raise Undec('expect() on a non-constant token', loc)
                res.append((s.with_ev(('tok', vs[0][1])), 'val', ('res', ('unit',))))
            elif cn == CHECK:
                if vs[0][0] != 'token': raise Undec('check() on a non-constant token', loc)
                res.append((s, 'val', ('check', vs[0][1])))
            elif cn in ('std::result::Result::is_err', 'std::result::Result::is_ok'):
                v = vs[0]
                if v[0] != 'check': raise Undec('is_ok/is_err on something that is not a check() result', loc)
                want_ok = cn.endswith('is_ok')
                res.append((s.with_ev(('la', frozenset([v[1]]))), 'val', ('lit', want_ok)))
                res.append((s.with_ev(('nla', frozenset([v[1]]))), 'val', ('lit', not want_ok)))
            elif cn in self.K:
                lits = tuple((v[1] if v[0] == 'lit' else v[:2] if v[0] == 'token' else v) for v in vs[1:] if v[0] == 'lit' or (v[0] == 'enum' and len(v) == 3) or v[0] in ('token', 'fnitem'))
                if len(lits) != len(vs) - 1: raise Undec('call to %s with a non-constant extra argument' % cn, loc)
                s2 = s.with_ev(('nt', cn, lits))
                res.append((s2, 'val', ('res', ('ev', len(s2.ev) - 1))))
            elif cn == 'std::vec::Vec::new':
                self.vec_n += 1
                key = '#vec:%d' % self.vec_n
                res.append((s.bind(key, []), 'val', ('vec', key)))
            elif cn == 'std::vec::Vec::push':
                v = vs[0]
                if v[0] == 'vec':
                    res.append((s.bind(v[1], s.env.get(v[1], []) + [vs[1]]), 'val', ('unit',)))
                else: res.append((s, 'val', ('unit',)))
            elif cn in ('std::boxed::Box::new',) or (e.get('callee') or {}).get('def', '').endswith('Clone::clone') or cn.endswith('Clone>::clone') or \
                    canon((e.get('callee') or {}).get('def')) in ('std::clone::Clone::clone', 'std::ops::Deref::deref', 'std::convert::AsRef::as_ref'):
                res.append((s, 'val', vs[0]))
            elif cn.endswith('FromResidual>::from_residual'):
                res.append((s, 'val', ('residual',)))
            elif (canon((e.get('callee') or {}).get('def')) or '').startswith('std::ops::Fn') or cn.startswith('rsbdd::'):
                raise Undec('call to %s in a parse function' % cn, loc)
            else:
                res.append((s, 'val', ('other',)))
        return res

# ------------------------------------------------------------------------------------------------ grammar / automata
BINOPS = ['And', 'Or', 'Xor', 'Nor', 'Nand', 'Implies', 'ImpliesInv', 'Iff']
CMPOPS = ['Eq', 'ImpliesInv', 'Geq', 'Lt', 'Gt']
SUB = PARSER + 'parse_sub_formula'
SIMPLE = PARSER + 'parse_simple_sub_formula'
FORMULA = PARSER + 'parse_formula'
OPAQUE = {SUB: 'sub', SIMPLE: 'simple'}

def T(x): return ('tok', x)
def SEQ(*xs): return ('seq', list(xs))
def ALT(*xs): return ('alt', list(xs))
def STAR(x): return ('star', x)
def OPT(x): return ('alt', [x, ('seq', [])])
def LA(*xs): return ('la', frozenset(xs))
def NLA(*xs): return ('nla', frozenset(xs))
def SYM(x): return ('sym', x)

def reference_grammar():
    lst = SEQ(T('OpenSquare'), OPT(SEQ(SYM('sub'), STAR(SEQ(T('Comma'), SYM('sub'))), OPT(T('Comma')))), T('CloseSquare'))
    varlist = OPT(SEQ(T('Var'), STAR(SEQ(T('Comma'), T('Var'))), OPT(T('Comma'))))
    binop = ALT(*[T(x) for x in BINOPS])
    cmpop = ALT(*[T(x) for x in CMPOPS])
    simple = ALT(
        SEQ(T('OpenParen'), SYM('sub'), T('CloseParen')),
        SEQ(lst, cmpop, ALT(lst, T('Countable'))),
        T('True'), T('False'), T('Reference'), T('Var'),
        SEQ(T('Not'), SYM('simple')),
        SEQ(ALT(T('Exists'), T('Forall')), varlist, T('Hash'), SYM('sub')),
        SEQ(ALT(T('GFP'), T('LFP')), T('Var'), T('Hash'), SYM('sub')),
        SEQ(T('If'), SYM('sub'), T('Then'), SYM('sub'), T('Else'), SYM('sub')),
    )
    # bodies extend as far right as possible: a sub-formula ends only where no binary operator follows
    sub = SEQ(SYM('simple'), ALT(SEQ(binop, SYM('sub')), NLA(*BINOPS)))
    formula = SEQ(SYM('sub'), T('Eof'))
    return {'formula': formula, 'sub': sub, 'simple': simple}

class Extractor:
    def __init__(self, lib, K):
        self.lib, self.K = lib, K
        self.cache = {}
        self.stack = []
        self.raw_paths = {}

    def ge_of(self, fname, lits=()):
        key = (fname, lits)
        if key in self.cache: return self.cache[key]
        if key in self.stack: raise Undec('recursion through %s other than via sub/simple' % fname.split('::')[-1])
        self.stack.append(key)
        t = self.lib.ithir[fname]
        consts = {}
        extra = [p for p in t['params'] if not is_reader_ty(p['ty'])]
        if len(extra) != len(lits): raise Undec('parse function %s needs %d constant argument(s)' % (fname.split('::')[-1], len(extra)))
        for p, v in zip(extra, lits): consts[p['pat']['name']] = v
        w = Walker(self.lib, self.K, consts)
        paths = w.paths(fname)
        self.raw_paths[key] = paths
        ge = ('alt', [self.seq_of(evs) for (evs, v, env) in paths])
        self.stack.pop()
        self.cache[key] = ge
        return ge

    def seq_of(self, evs):
        items = []
        pending = set()       # look-ahead tests since the last consumption
        for ev in evs:
            if ev[0] == 'tok': items.append(T(ev[1])); pending = set()
            elif ev[0] in ('la', 'nla'): items.append(ev); pending.add(ev)
            elif ev[0] == 'anytok':
                # a token consumed without being named: it is one of those the preceding look-ahead tests allow
                a = allowed(frozenset(pending | {('nla', ev[1])}))
                if not a or 'NONE' in a or len(a) > 12: raise Undec('a success path consumes an arbitrary token')
                items.append(T(sorted(a)[0]) if len(a) == 1 else ('alt', [T(t) for t in sorted(a)]))
                pending = set()
            elif ev[0] == 'nt':
                pending = set()
                if ev[1] in OPAQUE: items.append(SYM(OPAQUE[ev[1]]))
                else: items.append(self.ge_of(ev[1], ev[2]))
            elif ev[0] == 'loop':
                pending = set()
                cont = ('alt', [self.seq_of(p) for p in ev[1]])
                brk = ('alt', [self.seq_of(p) for p in ev[2]])
                items.append(('seq', [STAR(cont), brk]))
        return ('seq', items)

class NFA:
    def __init__(self):
        self.n = 0; self.eps = {}; self.tr = {}
    def new(self):
        self.n += 1; return self.n - 1
    def add_eps(self, a, b, label=None): self.eps.setdefault(a, []).append((b, label))
    def add_tr(self, a, sym, b): self.tr.setdefault(a, []).append((sym, b))

def build(nfa, ge, start):
    """returns end state"""
    k = ge[0]
    if k == 'tok' or k == 'sym':
        e = nfa.new(); nfa.add_tr(start, ge, e); return e
    if k in ('la', 'nla'):
        e = nfa.new(); nfa.add_eps(start, e, ge); return e
    if k == 'seq':
        cur = start
        for x in ge[1]: cur = build(nfa, x, cur)
        return cur
    if k == 'alt':
        e = nfa.new()
        if not ge[1]:
            return nfa.new()      # empty alternative: dead end (fresh unreachable end)
        for x in ge[1]:
            s = nfa.new(); nfa.add_eps(start, s)
            nfa.add_eps(build(nfa, x, s), e)
        return e
    if k == 'star':
        s = nfa.new(); e = nfa.new()
        nfa.add_eps(start, s); nfa.add_eps(s, e)
        b = build(nfa, ge[1], s)
        nfa.add_eps(b, s)
        return e
    raise ValueError(ge)

ALL_TOKENS = ['Var', 'Countable', 'Reference', 'And', 'Or', 'Not', 'Xor', 'Nor', 'Nand', 'Implies', 'ImpliesInv', 'Iff', 'If', 'Then', 'Else', 'Exists', 'Forall',
              'Eq', 'Geq', 'Gt', 'Lt', 'OpenParen', 'CloseParen', 'OpenSquare', 'CloseSquare', 'Comma', 'False', 'True', 'LFP', 'GFP', 'Hash', 'Eof', 'NONE']
SIGMA = frozenset(ALL_TOKENS)

def allowed(pending):
    a = set(SIGMA)
    for p in pending:
        if p[0] == 'la': a &= p[1]
        else: a -= p[1]
    return frozenset(a)

class Automaton:
    """deterministic view of an NFA with pending look-ahead constraints"""
    def __init__(self, ge, first):
        self.nfa = NFA()
        self.start = self.nfa.new()
        self.end = build(self.nfa, ge, self.start)
        self.first = first      # {'sub': set, 'simple': set}

    def closure(self, items):
        seen = set(items); st = list(items)
        while st:
            (q, pend) = st.pop()
            for (r, label) in self.nfa.eps.get(q, []):
                np = pend if label is None else frozenset(pend | {label})
                if not allowed(np): continue
                it = (r, np)
                if it not in seen: seen.add(it); st.append(it)
        return frozenset(seen)

    def initial(self): return self.closure({(self.start, frozenset())})

    def accept_label(self, S):
        lab = set()
        for (q, pend) in S:
            if q == self.end: lab |= allowed(pend)
        return frozenset(lab)

    def step(self, S, sym):
        nxt = set()
        for (q, pend) in S:
            for (s, r) in self.nfa.tr.get(q, []):
                if s != sym: continue
                al = allowed(pend)
                if sym[0] == 'tok':
                    if sym[1] in al: nxt.add((r, frozenset()))
                else:
                    f = self.first[sym[1]]
                    if f <= al: nxt.add((r, frozenset()))
                    elif not (f & al): pass
                    else: raise Undec('look-ahead test splits the first set of <%s> (allowed %s)' % (sym[1], sorted(al & f)))
        return self.closure(nxt)

    def symbols(self, S):
        out = set()
        for (q, pend) in S:
            for (s, r) in self.nfa.tr.get(q, []): out.add(s)
        return out

def first_sets(ges):
    """FIRST of sub / simple from the extracted right-hand sides"""
    first = {'sub': set(), 'simple': set()}
    changed = True
    while changed:
        changed = False
        for name in ('simple', 'sub'):
            a = Automaton(ges[name], {'sub': frozenset(first['sub']) or frozenset(['__none__']), 'simple': frozenset(first['simple']) or frozenset(['__none__'])})
            f = set()
            S = a.initial()
            for (q, pend) in S:
                al = allowed(pend)
                for (s, r) in a.nfa.tr.get(q, []):
                    if s[0] == 'tok':
                        if s[1] in al: f.add(s[1])
                    else: f |= (first[s[1]] & al)
            if not f <= first[name]:
                first[name] |= f; changed = True
    return {k: frozenset(v) for k, v in first.items()}

def equivalent(ge_code, ge_ref, first_code, first_ref):
    """product exploration; returns None or a counterexample (word, description)"""
    A = Automaton(ge_code, first_code); Bm = Automaton(ge_ref, first_ref)
    start = (A.initial(), Bm.initial())
    seen = {start}; work = [(start, ())]
    n = 0
    while work:
        (sa, sb), word = work.pop(0)
        n += 1
        la, lb = A.accept_label(sa), Bm.accept_label(sb)
        if la != lb:
            return word, 'after this prefix the parser %s and the grammar %s' % (
                ('can stop (if the next token is one of %s)' % sorted(la)[:8]) if la else 'cannot stop',
                ('can stop (if the next token is one of %s)' % sorted(lb)[:8]) if lb else 'cannot stop'), n
        for sym in sorted(A.symbols(sa) | Bm.symbols(sb)):
            ta, tb = A.step(sa, sym), Bm.step(sb, sym)
            if bool(ta) != bool(tb):
                return word + (sym,), 'the %s accepts this next symbol but the %s does not' % (('parser', 'grammar') if ta else ('grammar', 'parser')), n
            if not ta: continue
            st = (ta, tb)
            if st not in seen:
                seen.add(st); work.append((st, word + (sym,)))
    return None, None, n

def show_word(w):
    return ' '.join(s[1] if s[0] == 'tok' else '<%s>' % s[1] for s in w) or '(empty)'

def rule_A2(F, R):
    lib = F.lib()
    K, cands = consumers(lib)
    for need in (FORMULA, SUB, SIMPLE):
        if need not in K:
            R.violation('%s / A2 / anchor' % need, 'UNDECIDABLE', 'parse function %s not found among the token-consuming functions' % need.split('::')[-1]); return None
    ex = Extractor(lib, K)
    try:
        ges = {'formula': ex.ge_of(FORMULA), 'sub': ex.ge_of(SUB), 'simple': ex.ge_of(SIMPLE)}
        ref = reference_grammar()
        fc = first_sets(ges); fr = first_sets(ref)
    except Undec as u:
        R.obligation(False, 'A2 extract')
        R.violation('rsbdd::parser / A2 / UNDECIDABLE / %s' % u.msg[:60], 'UNDECIDABLE', 'cannot extract the grammar from the parse functions: %s (fail closed)' % u.msg, u.loc)
        return ex
    R.count('A2:parse-functions-walked', len(ex.cache))
    R.count('A2:success-paths', sum(len(p) for p in ex.raw_paths.values()))
    for nt in ('simple', 'sub'):
        ok = fc[nt] == fr[nt]
        R.obligation(ok, 'A2 FIRST ' + nt)
        if not ok:
            R.violation('rsbdd::parser / A2 / FIRST(%s)' % nt, 'A2', 'tokens that can start a <%s>: parser-only %s, grammar-only %s' % (nt, sorted(fc[nt] - fr[nt]), sorted(fr[nt] - fc[nt])))
    for nt in ('formula', 'sub', 'simple'):
        try:
            word, why, n = equivalent(ges[nt], ref[nt], fc, fr)
        except Undec as u:
            R.obligation(False, 'A2 eq ' + nt)
            R.violation('rsbdd::parser / A2 / UNDECIDABLE / <%s>' % nt, 'UNDECIDABLE', 'cannot compare <%s>: %s' % (nt, u.msg), u.loc)
            continue
        R.count('A2:product-states', n)
        R.obligation(word is None, 'A2 eq ' + nt)
        R.sample({'rule': 'A2', 'nonterminal': nt, 'product states explored': n, 'equivalent': word is None})
        if word is not None:
            R.violation('rsbdd::parser / A2 / <%s> differs' % nt, 'A2',
                        'right-hand side of <%s> as implemented differs from the reference grammar; shortest distinguishing prefix: [%s]: %s' % (nt, show_word(word), why))
    return ex

# ------------------------------------------------------------------------------------------------ A3
def describe(v, evs, env):
    """value descriptor -> readable provenance"""
    if v is None: return '?'
    if v[0] == 'ev':
        ev = evs[v[1]]
        if ev[0] == 'nt': return 'NT:%s@%d' % (ev[1].split('::')[-1], v[1])
        if ev[0] == 'tok': return 'PAYLOAD:%s@%d' % (ev[1], v[1])
        return 'EV@%d' % v[1]
    if v[0] == 'param': return 'PARAM:%s' % v[1]
    if v[0] == 'lit': return 'LIT:%s' % v[1]
    if v[0] == 'enum': return 'ENUM:%s::%s' % (v[1].split('::')[-1], v[2])
    if v[0] == 'vec':
        import re as _re
        items = set()
        for x in env.get(v[1], []):
            if x[0] == 'looped': items.add(_re.sub(r'@\d+', '@*', describe(x[1], x[2], env)))
            else: items.add(describe(x, evs, env))
        return 'VEC[%s]' % ','.join(sorted(items))
    if v[0] == 'cons': return '%s(%s)' % (v[1], ', '.join(describe(x, evs, env) for x in v[2]))
    return v[0].upper()

def ev_seq(evs):
    out = []
    for ev in evs:
        if ev[0] == 'tok': out.append(ev[1])
        elif ev[0] == 'nt': out.append('<%s>' % ev[1].split('::')[-1])
        elif ev[0] == 'loop': out.append('LOOP')
    return out

def norm_field(d):
    """strip event positions; keep the ordinal among same-named NT results"""
    return d

# reference: constructor -> (consumed sequence without look-ahead marks, field provenance with event index)
REF_CONS = {
    'BinaryOp': (['<parse_simple_sub_formula>', '<parse_binary_operator>', '<parse_sub_formula>'],
                 ['NT:parse_binary_operator@1', 'NT:parse_simple_sub_formula@0', 'NT:parse_sub_formula@2']),
    'Not': (['Not', '<parse_simple_sub_formula>'], ['NT:parse_simple_sub_formula@1']),
    'Ite': (['If', '<parse_sub_formula>', 'Then', '<parse_sub_formula>', 'Else', '<parse_sub_formula>'],
            ['NT:parse_sub_formula@1', 'NT:parse_sub_formula@3', 'NT:parse_sub_formula@5']),
    'Quantifier': None,    # handled below (two keyword variants)
    'FixedPoint': None,
    'CountableConst': (['<parse_formula_list>', 'CMPOP', '<parse_countable>'], ['CMPOP', 'NT:parse_formula_list@0', 'NT:parse_countable@2']),
    'CountableVariable': (['<parse_formula_list>', 'CMPOP', '<parse_formula_list>'], ['CMPOP', 'NT:parse_formula_list@0', 'NT:parse_formula_list@2']),
    'Var': (['<parse_variable_name>'], ['NT:parse_variable_name@0']),
    'Reference': (['<parse_reference_name>'], ['NT:parse_reference_name@0']),
    'True': (['True'], []),
    'False': (['False'], []),
}
CMP_MAP = {'Eq': 'Exactly', 'ImpliesInv': 'AtMost', 'Geq': 'AtLeast', 'Lt': 'LessThan', 'Gt': 'MoreThan'}

def rule_A3(F, R, ex=None):
    lib = F.lib()
    K, cands = consumers(lib)
    seen = {}
    for fname in sorted(K):
        if fname in (EXPECT, CHECK): continue
        t = lib.ithir[fname]
        extra = [p for p in t['params'] if not is_reader_ty(p['ty'])]
        variants = [()] if not extra else call_site_consts(lib, K, fname, len(extra))
        if variants is None: variants = walked_consts(lib, K, fname)
        if variants is None and extra:
            import facts as _facts
            called = any(e['k'] == 'Call' and callee_name(e) == fname for g_, t_ in lib.ithir.items() for e in walk(t_['body'])) or \
                any(e['k'] == 'ZstLiteral' and 'fn' in e and canon(e['fn'].get('res') or e['fn']['def']) == fname for g_, t_ in lib.ithir.items() for e in walk(t_['body']))
            if fname not in _facts.baseline_fns() and not called:
                continue          # a new helper that is inlined at every call site: it is walked as part of its callers
        if variants is None:
            R.violation('%s / A3 / UNDECIDABLE / non-constant extra argument' % fname, 'UNDECIDABLE', 'parse function %s is called with an extra argument that is not a constant' % fname.split('::')[-1]); continue
        for lits in variants:
            try:
                w = Walker(lib, K, {p['pat']['name']: v for p, v in zip(extra, lits)})
                paths = w.paths(fname)
            except Undec as u:
                R.violation('%s / A3 / UNDECIDABLE / %s' % (fname, u.msg[:50]), 'UNDECIDABLE', 'cannot walk %s: %s' % (fname.split('::')[-1], u.msg), u.loc)
                continue
            for (evs, v, env) in paths:
                # consumed events without look-ahead
                cons_evs = [(i, ev) for i, ev in enumerate(evs) if ev[0] in ('tok', 'nt', 'loop')]
                pos = {i: j for j, (i, ev) in enumerate(cons_evs)}
                def desc(x, evs=evs, env=env, pos=pos):
                    import re as _re
                    import facts as _facts
                    if x is not None and x[0] == 'ev' and evs[x[1]][0] == 'nt' and evs[x[1]][1] not in _facts.baseline_fns() and evs[x[1]][1] in lib.ithir:
                        # the result of a new helper (e.g. a generic list parser taking the closing token and the item parser): what the helper
                        # returns on its own success paths, with these constants
                        g_, lits_ = evs[x[1]][1], evs[x[1]][2]
                        tg = lib.ithir[g_]
                        extra_ = [p_ for p_ in tg['params'] if not is_reader_ty(p_['ty'])]
                        if len(extra_) == len(lits_):
                            inner = set()
                            for (evs2, v2, env2) in Walker(lib, K, {p_['pat']['name']: c_ for p_, c_ in zip(extra_, lits_)}).paths(g_):
                                inner.add(_re.sub(r'@\d+', '@*', describe(v2, evs2, env2)))
                            inner.discard('VEC[]')
                            if len(inner) == 1: return inner.pop()
                            if not inner: return 'VEC[]'
                    d = describe(x, evs, env)
                    return _re.sub(r'@(\d+)', lambda m: '@%d' % pos.get(int(m.group(1)), -1), d)
                seq = ev_seq([ev for _, ev in cons_evs])
                if v is not None and v[0] == 'cons':
                    R.count('A3:constructor-paths')
                    check_cons(R, fname, v, seq, [desc(x) for x in v[2]], lits, seen)
                elif fname == PARSER + 'parse_parentized_formula' or (fname == SIMPLE and seq[:1] == ['OpenParen']):
                    ok = seq == ['OpenParen', '<parse_sub_formula>', 'CloseParen'] and desc(v) == 'NT:parse_sub_formula@1'
                    R.count('A3:constructor-paths'); R.obligation(ok, 'A3 paren')
                    if not ok: R.violation('%s / A3 / parenthesised' % fname, 'A3', 'a parenthesised formula must be ( sub ) returning the inner formula; got %s returning %s' % (seq, desc(v)))
                elif fname == PARSER + 'parse_formula':
                    ok = seq == ['<parse_sub_formula>', 'Eof'] and desc(v) == 'NT:parse_sub_formula@0'
                    R.count('A3:constructor-paths'); R.obligation(ok, 'A3 formula')
                    if not ok: R.violation('%s / A3 / formula' % fname, 'A3', 'formula must be sub EOF returning the sub-formula; got %s returning %s' % (seq, desc(v)))
                elif fname in (PARSER + 'parse_formula_list', PARSER + 'parse_variable_list'):
                    want = 'VEC[NT:parse_sub_formula@*]' if fname.endswith('formula_list') else 'VEC[NT:parse_variable_name@*]'
                    d = desc(v)
                    ok = d in (want, 'VEC[]')
                    if ok and v is not None and v[0] == 'vec':
                        # ... and every member that is parsed is collected: each call of the member parser on this path (outside the loop, or in
                        # one turn of it) is the source of one element
                        member_fn = PARSER + want[7:-3]
                        items_ = env.get(v[1], [])
                        top_ = sum(1 for ev in evs if ev[0] == 'nt' and ev[1] == member_fn)
                        single_ = set(x[1] for x in items_ if x and x[0] == 'ev')
                        looped_ = set((x[2], x[1][1]) for x in items_ if x and x[0] == 'looped' and x[1] and x[1][0] == 'ev')
                        if top_ != len(single_): ok = False; d = d + ' (a member parsed outside the loop is not in the list)'
                        for ev in evs:
                            if ev[0] != 'loop': continue
                            for p_ in tuple(ev[1]) + tuple(ev[2]):
                                for i_, e_ in enumerate(p_):
                                    if e_[0] == 'nt' and e_[1] == member_fn and (p_, i_) not in looped_:
                                        ok = False; d = d + ' (a member parsed in the loop is not pushed)'
                    if not ok and d.startswith('VEC[') and d.endswith(']') and '(' not in d:
                        # members collected before the loop as well as in it (`first; while next_if_eq(Comma) { more }`): every element is a parsed
                        # member, and every member parsed outside a loop is in the list
                        import re as _re
                        member = want[4:-3]       # NT:parse_...
                        items = d[4:-1].split(',')
                        single = [it for it in items if not it.endswith('@*')]
                        top = sum(1 for ev in evs if ev[0] == 'nt' and 'NT:' + ev[1].split('::')[-1] == member)
                        ok = all(_re.fullmatch(_re.escape(member) + r'@(\*|\d+)', it) for it in items) and len(single) == top
                    R.count('A3:constructor-paths'); R.obligation(ok, 'A3 list ' + fname)
                    if not ok: R.violation('%s / A3 / list contents' % fname, 'A3', 'the returned list must collect exactly the parsed members; got %s' % d)
                elif fname == SUB and desc(v) .startswith('NT:parse_simple_sub_formula'):
                    R.count('A3:constructor-paths'); R.obligation(seq == ['<parse_simple_sub_formula>'], 'A3 sub passthrough')
                elif fname == SIMPLE:
                    # dispatch arms returning the callee's tree unchanged
                    ok = len(seq) == 1 and describe(v, evs, env).startswith('NT:')
                    R.count('A3:constructor-paths'); R.obligation(ok, 'A3 dispatch')
                    if not ok: R.violation('%s / A3 / dispatch %s' % (fname, seq), 'A3', 'dispatch arm does more than delegate: %s -> %s' % (seq, desc(v)))
                elif fname in (PARSER + 'parse_variable_name', PARSER + 'parse_reference_name', PARSER + 'parse_countable'):
                    tokn = {'parse_variable_name': 'Var', 'parse_reference_name': 'Reference', 'parse_countable': 'Countable'}[fname.split('::')[-1]]
                    ok = seq == [tokn] and desc(v) == 'PAYLOAD:%s@0' % tokn
                    R.count('A3:constructor-paths'); R.obligation(ok, 'A3 payload ' + fname)
                    if not ok: R.violation('%s / A3 / payload' % fname, 'A3', 'must consume one %s token and return its payload; got %s -> %s' % (tokn, seq, desc(v)))
                elif fname == PARSER + 'parse_binary_operator':
                    pass     # table T
    for c in ('BinaryOp', 'Not', 'Ite', 'Quantifier:Exists', 'Quantifier:Forall', 'FixedPoint:true', 'FixedPoint:false', 'CountableConst', 'CountableVariable', 'Var', 'Reference', 'True', 'False'):
        R.count('A3:constructors-expected')
        ok = c in seen
        R.obligation(ok, 'A3 seen ' + c)
        if not ok: R.violation('rsbdd::parser / A3 / no path builds %s' % c, 'A3', 'no parse path constructs %s' % c)

_CLEAN = {}
def refusal_clean(lib, K, g, _stack=()):
    """does `g` refuse cleanly: on every path on which it returns an error it has consumed no token?  Explicit error exits must come
    before any consumption; a `?` on a token-reading call may fail only before any consumption and only if that callee refuses cleanly
    itself; `expect(T)` consumes even when it fails, so a `?` on it must be unable to fail (the look-ahead before it leaves only T)."""
    key = (id(lib), g)
    if key in _CLEAN: return _CLEAN[key]
    if g in _stack or g in (EXPECT,): return False
    if g == CHECK: return True
    t = lib.ithir.get(g)
    if t is None or [p for p in t['params'] if not is_reader_ty(p['ty'])]: return False
    ok = True
    try:
        w = Walker(lib, K)
        paths = w.paths(g)
        consuming = lambda ev: ev[0] in ('tok', 'anytok', 'nt', 'loop')
        if w.unclear_failure: ok = False
        if any(ev[0] == 'loop' for (evs, v, env) in paths for ev in evs): ok = False
        for evs in w.err_paths:
            if any(consuming(ev) for ev in evs): ok = False
        for before, ev in w.implicit:
            if any(consuming(x) for x in before): ok = False
            elif ev[0] == 'tok':
                pend = frozenset(x for x in before if x[0] in ('la', 'nla'))
                if allowed(pend) != frozenset([ev[1]]): ok = False
            elif ev[0] == 'nt':
                if ev[2] or not refusal_clean(lib, K, ev[1], _stack + (g,)): ok = False
    except Undec:
        ok = False
    _CLEAN[key] = ok
    return ok

def first_tokens(lib, K, g, _stack=()):
    """the tokens with which a success of `g` can start (None if that cannot be read)"""
    if g in _stack: return None
    t = lib.ithir.get(g)
    if t is None or [p for p in t['params'] if not is_reader_ty(p['ty'])]: return None
    try: paths = Walker(lib, K).paths(g)
    except Undec: return None
    out = set()
    for (evs, v, env) in paths:
        pend = set(); got = None
        for ev in evs:
            if ev[0] in ('la', 'nla'): pend.add(ev)
            elif ev[0] == 'tok': got = allowed(frozenset(pend)) & {ev[1]}; break
            elif ev[0] == 'anytok': got = allowed(frozenset(pend | {('nla', ev[1])})); break
            elif ev[0] == 'nt':
                f = first_tokens(lib, K, ev[1], _stack + (g,)) if not ev[2] else None
                if f is None: return None
                got = allowed(frozenset(pend)) & set(f); break
            elif ev[0] == 'loop': return None
        if got is None: return None          # a success that consumes nothing
        out |= set(got)
    return out

def consumed_tokens(evs):
    """the tokens a path consumes itself, in order (each a frozenset of the tokens it may be), calls to parse functions as ('nt', name, lits)"""
    out = []; pending = set()
    for ev in evs:
        if ev[0] == 'tok': out.append(frozenset([ev[1]])); pending = set()
        elif ev[0] in ('la', 'nla'): pending.add(ev)
        elif ev[0] == 'anytok': out.append(allowed(frozenset(pending | {('nla', ev[1])}))); pending = set()
        elif ev[0] in ('nt', 'loop'): out.append(ev); pending = set()
    return out

def walked_tables(lib):
    """the token tables of the parser read from its success paths (whatever form the dispatch takes):
    binop {token: operator}, countop {token: operator}, fixpoint {token: initial}, each None when the paths cannot be walked"""
    K, _ = consumers(lib)
    out = {'binop': None, 'countop': None, 'fixpoint': None}
    try:
        tab = {}
        for (evs, v, env) in Walker(lib, K).paths(PARSER + 'parse_binary_operator'):
            cons = consumed_tokens(evs)
            if len(cons) == 1 and isinstance(cons[0], frozenset) and len(cons[0]) == 1 and v is not None and v[0] == 'enum' and v[1] == 'rsbdd::parser::BinaryOperator':
                tab.setdefault(sorted(cons[0])[0], set()).add(v[2])
            else: tab.setdefault('?', set()).add(str(v)[:40])
        out['binop'] = tab
    except (Undec, KeyError): pass
    try:
        tab = {}
        for (evs, v, env) in Walker(lib, K).paths(PARSER + 'parse_countable_formula'):
            cons = consumed_tokens(evs)
            op = v[2][0] if v is not None and v[0] == 'cons' and v[1] in ('CountableConst', 'CountableVariable') and v[2] else None
            if len(cons) >= 2 and isinstance(cons[1], frozenset) and len(cons[1]) == 1 and op is not None and op[0] == 'enum' and op[1] == 'rsbdd::parser::CountableOperator':
                tab.setdefault(sorted(cons[1])[0], set()).add(op[2])
            else: tab.setdefault('?', set()).add(str(v)[:40])
        out['countop'] = tab
    except (Undec, KeyError): pass
    try:
        tab = {}
        for (evs, v, env) in Walker(lib, K).paths(SIMPLE):
            last = None
            for ev in evs:
                if ev[0] == 'la': last = ev[1] if last is None else last & ev[1]
                elif ev[0] == 'nt' and ev[1] == PARSER + 'parse_fixed_point':
                    for tk in (last or ['?']): tab.setdefault(tk, set()).add(ev[2][0] if len(ev[2]) == 1 else None)
                    break
                elif ev[0] in ('tok', 'anytok', 'nt', 'loop'): break
        out['fixpoint'] = tab
    except (Undec, KeyError): pass
    return out

def walked_consts(lib, K, fname):
    """the constant extra arguments with which `fname` is reached on the success paths of its callers (for arguments computed on the
    way: `let initial = matches!(keyword, Token::GFP); parse_fixed_point(tokens, initial)`); None if that cannot be read"""
    out = []
    def all_evs(evs):
        for ev in evs:
            yield ev
            if ev[0] == 'loop':
                for p in tuple(ev[1]) + tuple(ev[2]): yield from all_evs(p)
    for g in sorted(K):
        t = lib.ithir.get(g)
        if t is None or g in (EXPECT, CHECK) or g == fname: continue
        own = list(walk(t['body'])) + [x for cn_, ct in lib.ithir.items() if cn_.startswith(g + '::{closure') for x in walk(ct['body'])]
        if not any(e['k'] == 'Call' and callee_name(e) == fname for e in own): continue
        if [p for p in t['params'] if not is_reader_ty(p['ty'])]: return None
        try: paths = Walker(lib, K).paths(g)
        except Undec: return None
        for (evs, v, env) in paths:
            for ev in all_evs(evs):
                if ev[0] == 'nt' and ev[1] == fname and ev[2] not in out: out.append(ev[2])
    return out or None

def call_site_consts(lib, K, fname, n_extra):
    """the tuples of constant extra arguments (bool literals, unit enum variants) with which `fname` is called from the parse
    functions; None if some call passes something else"""
    out = []
    for g in sorted(K):
        t = lib.ithir.get(g)
        if t is None: continue
        for e in walk(t['body']):
            if e['k'] == 'Call' and callee_name(e) == fname:
                vals = []
                for a in e['args']:
                    x = a
                    while x['k'] in ('Borrow', 'Deref', 'Use', 'NeverToAny', 'PointerCoercion'): x = x.get('arg') or x.get('source')
                    if x['k'] == 'Literal' and isinstance(x.get('value'), bool): vals.append(x['value'])
                    elif x['k'] == 'Adt' and not x['fields'] and canon(x['adt']) not in (SYN, TOK): vals.append(('enum', canon(x['adt']), x['variant']))
                    elif x['k'] == 'Adt' and not x['fields'] and canon(x['adt']) == TOK: vals.append(('token', x['variant']))
                    elif x['k'] == 'ZstLiteral' and 'fn' in x: vals.append(('fnitem', canon(x['fn'].get('res') or x['fn']['def'])))
                    elif is_reader_ty(x.get('ty', {})): continue
                    else: vals.append(None)
                vals = vals[-n_extra:] if n_extra else []
                if len(vals) != n_extra or any(v is None for v in vals): return None
                if tuple(vals) not in out: out.append(tuple(vals))
    return out or None

def check_cons(R, fname, v, seq, fields, lits, seen):
    name = v[1]
    loc = v[3]
    def bad(msg):
        R.obligation(False, 'A3 %s %s' % (name, seq))
        R.violation('%s / A3 / %s' % (fname, name), 'A3', msg, loc)
    if name in ('CountableConst', 'CountableVariable'):
        # the operator token is one of the five comparison tokens and maps to fields[0]
        if len(seq) != 3 or seq[1] not in CMP_MAP: return bad('%s must be list CMPOP (list|NUM); consumed %s' % (name, seq))
        want_op = 'ENUM:CountableOperator::' + CMP_MAP[seq[1]]
        ref_seq, ref_fields = REF_CONS[name]
        seq2 = [seq[0], 'CMPOP', seq[2]]
        f2 = ['CMPOP' if fields[0] == want_op else fields[0]] + fields[1:]
        if seq2 != ref_seq or f2 != ref_fields: return bad('%s built from %s with fields %s; reference: %s with fields %s' % (name, seq, fields, ref_seq, ref_fields))
        seen[name] = True; R.obligation(True, 'A3 %s %s' % (name, seq)); return
    if name == 'Quantifier':
        kw = seq[0] if seq else None
        if kw not in ('Exists', 'Forall') or seq[1:] != ['<parse_variable_list>', 'Hash', '<parse_sub_formula>'] or \
           fields != ['ENUM:QuantifierType::' + kw, 'NT:parse_variable_list@1', 'NT:parse_sub_formula@3']:
            return bad('Quantifier built from %s with fields %s; reference: (Exists|Forall) varlist # sub with the matching quantifier kind, the list and the body' % (seq, fields))
        seen['Quantifier:' + kw] = True; R.obligation(True, 'A3 Quantifier ' + kw); return
    if name == 'FixedPoint':
        kw = seq[0] if seq else None
        init = {'GFP': 'True', 'LFP': 'False'}.get(kw)
        if init is None or seq[1:] != ['<parse_variable_name>', 'Hash', '<parse_sub_formula>'] or \
           fields not in (['NT:parse_variable_name@1', 'LIT:' + init, 'NT:parse_sub_formula@3'],):
            return bad('FixedPoint built from %s with fields %s; reference: (GFP|LFP) VAR # sub with initial = true for GFP / false for LFP' % (seq, fields))
        seen['FixedPoint:' + init.lower()] = True; R.obligation(True, 'A3 FixedPoint ' + kw); return
    ref = REF_CONS.get(name)
    if ref is None: return bad('unexpected constructor %s in the parser' % name)
    alt = {'Var': (['Var'], ['PAYLOAD:Var@0']), 'Reference': (['Reference'], ['PAYLOAD:Reference@0'])}.get(name)      # the name token read in place
    if alt is not None and seq == alt[0] and fields == alt[1]:
        seen[name] = True; R.obligation(True, 'A3 %s' % name); return
    if seq != ref[0] or fields != ref[1]:
        return bad('%s built from %s with fields %s; reference: %s with fields %s' % (name, seq, fields, ref[0], ref[1]))
    seen[name] = True
    R.obligation(True, 'A3 %s' % name)

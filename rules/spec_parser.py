"""Specifications of ParsedFormula::{eval_recursive, replace_var, var_is_free} (src/parser.rs).
Oracle: README semantics + property statements C01, C05, C06, C09 (DESIGN.md appendix A)."""

from logic import *
from absint import *
from engine import FnSpec, Obl
from spec_bdd import B, D, cnt_lin, post_no_panic, post_size_change, show_gen

P = 'rsbdd::parser::ParsedFormula::'
SYN = 'rsbdd::parser::SymbolicBDD'
EVF = P + 'eval_recursive'
RVF = P + 'replace_var'
FRF = P + 'var_is_free'

def EV(x): return ('app', EVF, x)

def variant_of(I, term):
    k = ('variant', term)
    return I.W.dec.get(k) if k in I.W.used or k in I.W.dec else None

def fld(root, variant, i): return ('fld', root, variant, i)

def install(E):
    # ------------------------------------------------------------------ eval_recursive
    def ev_result(I, args, loc):
        x = args[1]
        if isinstance(x, VCons):
            t = I.term_of(x)
        elif isinstance(x, VData):
            t = x.term
        else:
            raise Undecidable('eval_recursive argument %r' % (x,), loc)
        return VBdd(EV(t))

    BIN = {
        'And': lambda l, r: And(l, r), 'Or': lambda l, r: Or(l, r), 'Xor': lambda l, r: Xor(l, r),
        'Nor': lambda l, r: Not(Or(l, r)), 'Nand': lambda l, r: Not(And(l, r)),
        'Implies': lambda l, r: Or(Not(l), r), 'ImpliesInv': lambda l, r: Or(Not(r), l), 'Iff': lambda l, r: Iff(l, r),
    }
    def cnt_map(I, lst):
        return cnt_lin(I, ('map', EV(('elem', lst)), lst))
    CC = {   # count vs constant n
        'AtMost': lambda c, n: ('le0', c - n), 'AtLeast': lambda c, n: ('le0', n - c), 'Exactly': lambda c, n: ('eq0', c - n),
        'LessThan': lambda c, n: ('le0', c - n + 1), 'MoreThan': lambda c, n: ('le0', n - c + 1),
    }

    def ev_post(I, params, res):
        root = params[1].term
        var = variant_of(I, root)
        o = post_no_panic(I, res, 'S')
        if o: return o
        if not isinstance(res, VBdd):
            return [I.E.check_true(I, False, 'S: eval_recursive result is not a diagram')]
        r = I.W.rep(res.term)
        out = []
        def valid(goal_fn, what):
            out.append(I.E.check_valid(I, goal_fn, 'S: eval(%s) %s (result = %s)' % (var, what, show_key(r))))
        def ident(exp, what):
            out.append(I.E.check_true(I, r == exp, 'S: eval(%s) %s' % (var, what), {'got': show_key(r), 'expected': show_key(exp)}))
        if var == 'False': ident(('leaf', False), 'is the false leaf')
        elif var == 'True': ident(('leaf', True), 'is the true leaf')
        elif var == 'Var':
            valid(lambda b: Iff(D(I, r, b), I.symden(fld(root, 'Var', 0), b)), 'denotes the projection on the variable')
        elif var == 'Not':
            valid(lambda b: Iff(D(I, r, b), Not(D(I, EV(fld(root, 'Not', 0)), b))), 'denotes the negation of the operand')
        elif var == 'Quantifier':
            q = variant_of(I, fld(root, 'Quantifier', 0))
            V = fld(root, 'Quantifier', 1); body = EV(fld(root, 'Quantifier', 2))
            if q == 'Exists': ident(('app', B + 'exists', V, body), 'Exists -> exists(V, eval body)')
            elif q == 'Forall': ident(('app', B + 'all', V, body), 'Forall -> all(V, eval body)')
            else: out.append(I.E.check_true(I, False, 'S: quantifier kind undecided'))
        elif var == 'CountableConst':
            op = variant_of(I, fld(root, 'CountableConst', 0))
            lst = fld(root, 'CountableConst', 1)
            n = Lin.var(('int', show_key(fld(root, 'CountableConst', 2))))
            if op not in CC: out.append(I.E.check_true(I, False, 'S: counting operator undecided'))
            else: valid(lambda b: Iff(D(I, r, b), CC[op](cnt_map(I, lst), n)), '%s: count of true operands compared with the constant' % op)
        elif var == 'CountableVariable':
            op = variant_of(I, fld(root, 'CountableVariable', 0))
            l = fld(root, 'CountableVariable', 1); rr = fld(root, 'CountableVariable', 2)
            if op not in CC: out.append(I.E.check_true(I, False, 'S: counting operator undecided'))
            else: valid(lambda b: Iff(D(I, r, b), CC[op](cnt_map(I, l), cnt_map(I, rr))), '%s: count(left) compared with count(right)' % op)
        elif var == 'Ite':
            c, t, e = [EV(fld(root, 'Ite', i)) for i in range(3)]
            valid(lambda b: Iff(D(I, r, b), Or(And(D(I, c, b), D(I, t, b)), And(Not(D(I, c, b)), D(I, e, b)))), 'denotes if-then-else of the three operands in order')
        elif var == 'BinaryOp':
            op = variant_of(I, fld(root, 'BinaryOp', 0))
            l, rr = EV(fld(root, 'BinaryOp', 1)), EV(fld(root, 'BinaryOp', 2))
            if op not in BIN: out.append(I.E.check_true(I, False, 'S: binary operator undecided'))
            else: valid(lambda b: Iff(D(I, r, b), BIN[op](D(I, l, b), D(I, rr, b))), '%s: documented truth function of (left, right)' % op)
        elif var == 'FixedPoint':
            # fp(mk_const(initial), \y. eval(body[var := Subtree y]))
            fpe = [ev for ev in I.events if ev[0] == 'fp']
            ok = len(fpe) == 1 and r == fpe[0][3]
            out.append(I.E.check_true(I, ok, 'S: eval(FixedPoint) is one call of the iterator fp', {'got': show_key(r)}))
            if ok:
                _, init, clos, _t = fpe[0]
                want_init = ('app', B + 'mk_const', ('b', atom(('bool', fld(root, 'FixedPoint', 1)))))
                out.append(I.E.check_true(I, I.W.rep(init) == want_init, 'S: fixed point iteration starts from const(initial)', {'got': show_key(init), 'expected': show_key(want_init)}))
                y = ('p', 'ITERATE')
                body = I.apply(clos, [VBdd(y)], 'fp-closure')
                exp = EV(('app', RVF, fld(root, 'FixedPoint', 2), fld(root, 'FixedPoint', 0), ('cons', SYN, 'Subtree', y)))
                got = I.W.rep(body.term) if isinstance(body, VBdd) else None
                out.append(I.E.check_true(I, got == exp, 'S: transformer is y -> eval(body[X := Subtree(y)])', {'got': show_key(got) if got else repr(body), 'expected': show_key(exp)}))
        elif var == 'Subtree':
            ident(I.W.rep(fld(root, 'Subtree', 0)), 'Subtree evaluates to the stored diagram itself')
        else:
            out.append(I.E.check_true(I, False, 'S: unexpected syntax-node kind %s' % var))
        lossy = [ev for ev in I.events if ev[0] == 'cast' and ev[3]]
        for ev in lossy:
            out.append(Obl('struct', 'CAST: integer conversion %s -> %s on the path from the parsed constant to the bound is not value-preserving' % (ev[1], ev[2]),
                           False, {'from': ev[1], 'to': ev[2]}, world='%s is %s' % (show_key(root), var), loc=ev[4]))
        I.E.stats['obligations'] += len(lossy)
        for ev in [x for x in I.events if x[0] == 'clamp_bad']:
            out.append(Obl('struct', 'CLAMP: a constant that does not fit the bound type is replaced by %s, a value a count can reach; only a replacement >= 2^63-1 preserves every comparison' % ev[1],
                           False, {'replacement': ev[1]}, world='%s is %s' % (show_key(root), var), loc=ev[2]))
        out += post_size_change_syn(I, params)
        return out

    def fp_result(I, args, loc):
        init, clos = args[1], args[2]
        t = ('app', B + 'fp', I.term_of(init), I.term_of(clos))
        I.events.append(('fp', init.term if isinstance(init, VBdd) else None, clos, t))
        return VBdd(t)
    E.add(FnSpec(B + 'fp', result=fp_result))

    E.add(FnSpec(EVF, result=ev_result, post=ev_post, exclude={1: ['Reference']}))

    # ------------------------------------------------------------------ replace_var
    def rv_result(I, args, loc):
        f, v, repl = args[1], args[2], args[3]
        return VData(SYN, ('app', RVF, I.term_of(f), I.term_of(v), I.term_of(repl)))

    def rv_post(I, params, res):
        o = post_no_panic(I, res, 'S')
        if o: return o
        form, var, repl = params[1].term, params[2].term, params[3].term
        vr = variant_of(I, form)
        RV = lambda x: ('app', RVF, x, var, repl)
        MAP = lambda lst: ('map', RV(('elem', lst)), lst)
        got = I.term_of(res)
        cons = lambda v, *fs: ('cons', SYN, v) + tuple(fs)
        exp = None
        if vr == 'Var':
            same = I.W.rel(fld(form, 'Var', 0), var) == 'eq'
            exp = repl if same else form
        elif vr == 'Quantifier':
            key = ('bool', atom(('contains', fld(form, 'Quantifier', 1), var)))
            shadow = I.W.dec.get(key)
            if shadow is None: return [I.E.check_true(I, False, 'S: replace_var(Quantifier) does not test whether the binder list contains the variable')]
            exp = form if shadow else cons('Quantifier', fld(form, 'Quantifier', 0), fld(form, 'Quantifier', 1), RV(fld(form, 'Quantifier', 2)))
        elif vr == 'FixedPoint':
            r = I.W.rel(fld(form, 'FixedPoint', 0), var)
            if r is None and frozenset((I.W.sfind(fld(form, 'FixedPoint', 0)), I.W.sfind(var))) not in I.W.neq:
                return [I.E.check_true(I, False, 'S: replace_var(FixedPoint) does not compare the binder with the variable')]
            exp = form if r == 'eq' else cons('FixedPoint', fld(form, 'FixedPoint', 0), ('b', atom(('bool', fld(form, 'FixedPoint', 1)))), RV(fld(form, 'FixedPoint', 2)))
        elif vr == 'Ite':
            exp = cons('Ite', *[RV(fld(form, 'Ite', i)) for i in range(3)])
        elif vr == 'Not':
            exp = cons('Not', RV(fld(form, 'Not', 0)))
        elif vr == 'BinaryOp':
            exp = cons('BinaryOp', fld(form, 'BinaryOp', 0), RV(fld(form, 'BinaryOp', 1)), RV(fld(form, 'BinaryOp', 2)))
        elif vr == 'CountableConst':
            exp = cons('CountableConst', fld(form, 'CountableConst', 0), MAP(fld(form, 'CountableConst', 1)),
                       ('lin', Lin.var(('int', show_key(fld(form, 'CountableConst', 2))))))
        elif vr == 'CountableVariable':
            exp = cons('CountableVariable', fld(form, 'CountableVariable', 0), MAP(fld(form, 'CountableVariable', 1)), MAP(fld(form, 'CountableVariable', 2)))
        elif vr in ('True', 'False', 'Subtree'):
            exp = form
        else:
            return [I.E.check_true(I, False, 'S: unexpected syntax-node kind %s' % vr)]
        out = [I.E.check_true(I, got == exp, 'S: replace_var(%s) is the capture-free homomorphic substitution' % vr,
                              {'got': show_key(got), 'expected': show_key(exp)})]
        out += post_size_change_syn(I, params)
        return out
    E.add(FnSpec(RVF, result=rv_result, post=rv_post, exclude={1: ['Reference']}))

    # ------------------------------------------------------------------ var_is_free
    def FREE(x, var): return atom(('free', x, var))
    def fr_result(I, args, loc):
        f, v = args[1], args[2]
        return VBool(FREE(I.term_of(f), I.W.sfind(v.term)))
    def fr_post(I, params, res):
        o = post_no_panic(I, res, 'S')
        if o: return o
        form, var = params[1].term, params[2].term
        vr = variant_of(I, form)
        v = I.W.sfind(var)
        fr = lambda x: FREE(x, v)
        ANY = lambda lst: atom(('any', fr(('elem', lst)), lst))
        if not isinstance(res, VBool): return [I.E.check_true(I, False, 'S: var_is_free result is not Boolean')]
        if vr == 'Var':
            r = I.W.rel(fld(form, 'Var', 0), var)
            if r is None and frozenset((I.W.sfind(fld(form, 'Var', 0)), v)) not in I.W.neq:
                return [I.E.check_true(I, False, 'S: var_is_free(Var) does not compare the names')]
            exp = const(r == 'eq')
        elif vr == 'Quantifier':
            exp = And(Not(atom(('contains', fld(form, 'Quantifier', 1), var))), fr(fld(form, 'Quantifier', 2)))
        elif vr == 'FixedPoint':
            r = I.W.rel(fld(form, 'FixedPoint', 0), var)
            if r is None and frozenset((I.W.sfind(fld(form, 'FixedPoint', 0)), v)) not in I.W.neq:
                # binder never compared: then the result must not depend on it -> treat as 'different' and 'equal' both
                return [I.E.check_true(I, False, 'S: var_is_free(FixedPoint) does not compare the binder with the variable')]
            exp = FALSE if r == 'eq' else fr(fld(form, 'FixedPoint', 2))
        elif vr == 'Ite': exp = Or(*[fr(fld(form, 'Ite', i)) for i in range(3)])
        elif vr == 'Not': exp = fr(fld(form, 'Not', 0))
        elif vr == 'BinaryOp': exp = Or(fr(fld(form, 'BinaryOp', 1)), fr(fld(form, 'BinaryOp', 2)))
        elif vr == 'CountableConst': exp = ANY(fld(form, 'CountableConst', 1))
        elif vr == 'CountableVariable': exp = Or(ANY(fld(form, 'CountableVariable', 1)), ANY(fld(form, 'CountableVariable', 2)))
        elif vr in ('True', 'False'): exp = FALSE
        else: return [I.E.check_true(I, False, 'S: unexpected syntax-node kind %s' % vr)]
        out = [I.E.check_valid(I, lambda b: Iff(res.t, exp), 'S: var_is_free(%s) matches the textbook free-variable definition' % vr)]
        out += post_size_change_syn(I, params)
        return out
    E.add(FnSpec(FRF, result=fr_result, post=fr_post, exclude={1: ['Reference', 'Subtree']}))

def post_size_change_syn(I, params):
    """size-change for recursion over syntax trees; replace_var with a leaf (Subtree) replacement is size-preserving"""
    out = []
    root = params[1].term
    for ev in I.events:
        if ev[0] != 'reccall': continue
        a = ev[1][1]
        loc = ev[2]
        ok = False; why = ''
        t = a
        if isinstance(t, tuple) and t[0] == 'app' and t[1] == RVF and isinstance(t[4], tuple) and t[4][:3] == ('cons', SYN, 'Subtree'):
            t = t[2]      # |replace_var(T, x, leaf)| = |T|
        if isinstance(t, tuple) and I.descends(t, root) and t != root: ok = True
        else: why = '%s is not a strict sub-term of the argument' % show_key(a)
        out.append(I.E.check_true(I, ok, 'M2: recursive call decreases (sub-term of the syntax tree)', {'why': why}, loc=loc))
    return out

PARSER_FNS = [EVF, RVF, FRF]

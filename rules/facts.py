"""Loading and normalising the facts dumped by the rustc_private driver."""
import json, glob, os, re

def canon(path):
    """Strip generic-argument segments `::<..>` / `<..>` so that rules do not depend on the names of
    generic parameters.  `rsbdd::bdd::BDDEnv::<S>::and` -> `rsbdd::bdd::BDDEnv::and`;
    `rsbdd::<bdd::BDD<Symbol> as std::clone::Clone>::clone` -> `rsbdd::<bdd::BDD as std::clone::Clone>::clone`."""
    if path is None:
        return None
    out = []
    i = 0
    n = len(path)
    while i < n:
        c = path[i]
        if c == '<':
            # a leading `<` that starts a qualified path `<T as Trait>` is kept; generic args are dropped
            prev = path[i-1] if i > 0 else ':'
            if prev == ':' and path[i-2:i] == '::' and not _is_qualified(path, i):
                # `::<...>` generic args: skip balanced
                i = _skip(path, i)
                # remove the preceding '::'
                while out and out[-1] == ':':
                    out.pop()
                continue
            if prev not in (':', ' ', '(', ',', '&', '<') and i > 0:
                # `Name<...>` generic args
                i = _skip(path, i)
                continue
        out.append(c)
        i += 1
    return ''.join(out)

def _is_qualified(path, i):
    """is the `<` at i the start of `<T as Trait>` ?"""
    depth = 0
    j = i
    while j < len(path):
        if path[j] == '<':
            depth += 1
        elif path[j] == '>':
            if j > 0 and path[j-1] == '-':
                j += 1
                continue
            depth -= 1
            if depth == 0:
                return False
        elif depth == 1 and path.startswith(' as ', j):
            return True
        elif depth == 1 and path.startswith('impl ', j):
            return True
        j += 1
    return False

def _skip(path, i):
    depth = 0
    j = i
    while j < len(path):
        if path[j] == '<':
            depth += 1
        elif path[j] == '>' and not (j > 0 and path[j-1] == '-'):
            depth -= 1
            if depth == 0:
                return j + 1
        j += 1
    return j

class Crate:
    def __init__(self, d, path):
        self.d = d
        self.path = path
        self.name = d['crate']
        self.kind = 'test' if d['test_harness'] else d['crate_types'][0].lower()
        self.thir = {}
        self.mir = {}
        for t in d['thir']:
            self.thir[canon(t['def'])] = t
        for m in d['mir']:
            self.mir[canon(m['def'])] = m
        self.fns = {canon(f['def']): f for f in d['items']['fns']}
        self.adts = {canon(a['def']): a for a in d['items']['adts']}
        self.impls = d['items']['impls']
        self.statics = d['items']['statics']
        self.freeze = {f['ty']: f['freeze'] for f in d['items']['freeze']}
        build_inlined_view(self)

class Facts:
    def __init__(self, directory):
        self.dir = directory
        self.crates = []
        for p in sorted(glob.glob(os.path.join(directory, '*.json'))):
            with open(p) as f:
                d = json.load(f)
            self.crates.append(Crate(d, p))
    def crate(self, name, kind=None):
        for c in self.crates:
            if c.name == name and (kind is None or c.kind == kind):
                return c
        return None
    def lib(self):
        return self.crate('rsbdd', 'rlib') or self.crate('rsbdd', 'lib')
    def bin(self):
        return self.crate('rsbdd', 'executable')

# ---------------------------------------------------------------------------------------------
# generic THIR walking helpers

CHILD_KEYS = ('cond', 'then', 'else', 'args', 'source', 'arg', 'lhs', 'rhs', 'body', 'expr', 'scrutinee',
              'value', 'fields', 'base', 'upvars', 'index', 'fun', 'init')

def children(e):
    """Immediate sub-expressions of a THIR expr node (dict), in evaluation order (approx.)."""
    if not isinstance(e, dict):
        return
    k = e.get('k')
    if k == 'Match':
        yield e['scrutinee']
        for a in e['arms']:
            for g in pat_guards(a['pat']):
                yield g
            if a['guard'] is not None:
                yield a['guard']
            yield a['body']
        return
    if k == 'Block':
        for s in e['stmts']:
            if s['k'] == 'Expr':
                yield s['expr']
            else:
                if s['init'] is not None:
                    yield s['init']
                for g in pat_guards(s['pat']):
                    yield g
                if s.get('else') is not None:
                    yield s['else']
        if e['expr'] is not None:
            yield e['expr']
        return
    if k == 'Adt':
        for f in e['fields']:
            yield f['expr']
        if isinstance(e.get('base'), dict):
            yield e['base']
        return
    if k == 'Let':
        yield e['expr']
        for g in pat_guards(e['pat']):
            yield g
        return
    for key in CHILD_KEYS:
        if key in e:
            v = e[key]
            if isinstance(v, dict) and 'k' in v:
                yield v
            elif isinstance(v, list):
                for x in v:
                    if isinstance(x, dict) and 'k' in x:
                        yield x

def pat_guards(p):
    if not isinstance(p, dict):
        return
    if p.get('k') == 'Guard':
        yield p['cond']
    for key in ('sub',):
        if isinstance(p.get(key), dict):
            yield from pat_guards(p[key])
    for key in ('subs',):
        for s in p.get(key, []) or []:
            yield from pat_guards(s['pat'])
    for key in ('pats', 'prefix', 'suffix'):
        for s in p.get(key, []) or []:
            yield from pat_guards(s)

def walk(e):
    """Pre-order traversal of all expression nodes."""
    stack = [e]
    while stack:
        x = stack.pop()
        if not isinstance(x, dict):
            continue
        yield x
        cs = list(children(x))
        stack.extend(reversed(cs))

def callee_name(e):
    """canonical resolved callee of a Call node: prefer the resolved instance, else the declared def."""
    c = e.get('callee')
    if not c:
        return None
    return canon(c.get('res') or c.get('def'))

def callee_decl(e):
    c = e.get('callee')
    if not c:
        return None
    return canon(c.get('def'))

def short_loc(loc):
    return loc

# ---------------------------------------------------------------------------------------------
# pretty printer (debugging aid and report text)

def pp_pat(p):
    k = p['k']
    if k == 'Wild': return '_'
    if k == 'Binding':
        s = p['name']
        if p.get('sub'): s += ' @ ' + pp_pat(p['sub'])
        return s
    if k == 'Variant':
        subs = {s['field']: pp_pat(s['pat']) for s in p['subs']}
        if p['nfields'] == 0: return p['adt'].split('::')[-1] + '::' + p['variant']
        return '%s::%s(%s)' % (p['adt'].split('::')[-1], p['variant'], ', '.join(subs.get(i, '_') for i in range(p['nfields'])))
    if k == 'Leaf':
        return '(%s)' % ', '.join(pp_pat(s['pat']) for s in p['subs'])
    if k == 'Deref': return '&' + pp_pat(p['sub'])
    if k == 'DerefPattern': return 'deref!' + pp_pat(p['sub'])
    if k == 'Constant': return p.get('str') and repr(p['str']) or p['value']
    if k == 'Or': return ' | '.join(pp_pat(x) for x in p['pats'])
    if k == 'Guard': return pp_pat(p['sub']) + ' if ' + pp(p['cond'])
    return k

def pp(e, ind=0):
    if e is None: return 'None'
    k = e['k']
    I = '  ' * ind
    if k == 'Call':
        name = callee_name(e) or ('(' + pp(e['fun']) + ')')
        return '%s(%s)' % (name.split('::')[-1] if name else '?', ', '.join(pp(a, ind) for a in e['args']))
    if k == 'VarRef' or k == 'UpvarRef': return e['var'].split('#')[0]
    if k == 'Deref': return '*' + pp(e['arg'], ind)
    if k == 'Borrow': return ('&mut ' if e['mut'] else '&') + pp(e['arg'], ind)
    if k == 'Literal': return str(e.get('value'))
    if k == 'Field': return pp(e['lhs'], ind) + '.' + str(e.get('field_name', e['field']))
    if k in ('Use', 'NeverToAny', 'PointerCoercion'): return pp(e['source'], ind)
    if k == 'Cast': return '(%s as %s)' % (pp(e['source'], ind), e['ty']['s'])
    if k == 'Binary': return '(%s %s %s)' % (pp(e['lhs'], ind), e['op'], pp(e['rhs'], ind))
    if k == 'LogicalOp': return '(%s %s %s)' % (pp(e['lhs'], ind), e['op'], pp(e['rhs'], ind))
    if k == 'Unary': return '%s(%s)' % (e['op'], pp(e['arg'], ind))
    if k == 'Tuple': return '(%s)' % ', '.join(pp(f, ind) for f in e['fields'])
    if k == 'Array': return '[%s]' % ', '.join(pp(f, ind) for f in e['fields'])
    if k == 'Adt': return '%s::%s{%s}' % (e['adt'].split('::')[-1], e['variant'], ', '.join('%s: %s' % (f['name'], pp(f['expr'], ind)) for f in e['fields']))
    if k == 'If':
        s = 'if %s {\n%s  %s\n%s}' % (pp(e['cond'], ind), I, pp(e['then'], ind + 1), I)
        if e['else'] is not None: s += ' else {\n%s  %s\n%s}' % (I, pp(e['else'], ind + 1), I)
        return s
    if k == 'Let': return 'let %s = %s' % (pp_pat(e['pat']), pp(e['expr'], ind))
    if k == 'Match':
        s = 'match %s {\n' % pp(e['scrutinee'], ind)
        for a in e['arms']:
            s += '%s  %s%s => %s,\n' % (I, pp_pat(a['pat']), (' if ' + pp(a['guard'], ind + 1)) if a['guard'] else '', pp(a['body'], ind + 1))
        return s + I + '}'
    if k == 'Block':
        s = '{\n'
        for st in e['stmts']:
            if st['k'] == 'Expr': s += '%s  %s;\n' % (I, pp(st['expr'], ind + 1))
            else: s += '%s  let %s = %s;\n' % (I, pp_pat(st['pat']), pp(st['init'], ind + 1))
        if e['expr'] is not None: s += '%s  %s\n' % (I, pp(e['expr'], ind + 1))
        return s + I + '}'
    if k == 'Closure': return '|closure %s|' % e['def'].split('::')[-1]
    if k == 'Return': return 'return ' + pp(e['value'], ind)
    if k == 'Break': return 'break ' + (pp(e['value'], ind) if e['value'] else '')
    if k == 'Loop': return 'loop ' + pp(e['body'], ind)
    if k == 'Assign': return '%s = %s' % (pp(e['lhs'], ind), pp(e['rhs'], ind))
    if k == 'AssignOp': return '%s %s= %s' % (pp(e['lhs'], ind), e['op'], pp(e['rhs'], ind))
    if k == 'Index': return '%s[%s]' % (pp(e['lhs'], ind), pp(e['index'], ind))
    if k == 'ZstLiteral': return canon(e['fn']['def']).split('::')[-1] if 'fn' in e else 'ZST'
    if k == 'NamedConst' or k == 'StaticRef': return e['def'].split('::')[-1]
    if k == 'NonHirLiteral': return e['value']
    return '<%s>' % k

if __name__ == '__main__':
    import sys
    F = Facts(sys.argv[1])
    want = sys.argv[2]
    for c in F.crates:
        for name, t in c.thir.items():
            if want in name:
                print('//', c.name, c.kind, name, t['span']['loc'])
                print(pp(t['body']))

# ---------------------------------------------------------------------------------------------
# helper inlining: a view of the THIR in which calls to *new* small local helper functions are replaced by their bodies.
# "New" = not in the table of function names confirmed on the pinned tree (rules/baseline_fns.json): the engines' anchors are
# exactly those names, so extracting part of an anchored function into a helper must not hide that part from the rules.

import copy as _copy
_BASELINE = None
def baseline_fns():
    global _BASELINE
    if _BASELINE is None:
        p = os.path.join(os.path.dirname(os.path.abspath(__file__)), 'baseline_fns.json')
        try:
            with open(p) as f: _BASELINE = json.load(f)
            if isinstance(_BASELINE, list): _BASELINE = {n: 'pub' for n in _BASELINE}
        except OSError:
            _BASELINE = {}
    return _BASELINE

def baseline_private(name):
    """was `name` a non-public function of the pinned tree?  (a private function may be merged away by a refactoring; a public one is API)"""
    v = baseline_fns().get(name)
    return v is not None and v != 'pub'

def _simple_arg(e):
    while isinstance(e, dict) and e.get('k') in ('Borrow', 'Deref', 'Use', 'PointerCoercion', 'NeverToAny'):
        e = e.get('arg') or e.get('source')
    if not isinstance(e, dict): return False
    if e['k'] in ('VarRef', 'UpvarRef', 'Literal', 'NamedConst', 'ZstLiteral'): return True
    if e['k'] == 'Adt' and not e.get('fields') and e.get('base') is None: return True          # a unit variant / unit struct: a constant
    if e['k'] == 'Field': return _simple_arg(e['lhs'])
    if e['k'] == 'Closure': return True
    if e['k'] == 'Call' and len(e.get('args', [])) == 1 and callee_decl(e) in ('std::ops::Deref::deref', 'std::convert::AsRef::as_ref', 'std::clone::Clone::clone', 'std::borrow::Borrow::borrow'):
        return _simple_arg(e['args'][0])
    return False

def _all_nodes(x):
    """every dict node below x (including patterns and statements)"""
    stack = [x]
    while stack:
        y = stack.pop()
        if isinstance(y, dict):
            yield y
            stack.extend(y.values())
        elif isinstance(y, list):
            stack.extend(y)

class Inliner:
    def __init__(self, crate):
        self.c = crate
        self.n = 0
        self.inlined = []       # (caller, callee)
        self.base = baseline_fns()
    def candidate(self, g, caller, allow_try=False, allow_ret=False):
        c = self.c
        if g is None or g == caller or g in self.base or g not in c.thir or '{closure' in g: return False
        f = c.fns.get(g)
        if f is None or f['kind'] not in ('Fn', 'AssocFn'): return False
        t = c.thir[g]
        for p in t['params']:
            if 'pat' not in p: return False
            q = p['pat']
            while q['k'] in ('Deref', 'DerefPattern'): q = q['sub']
            if q['k'] not in ('Binding', 'Wild'): return False
            if q['k'] == 'Binding' and (q.get('sub') is not None): return False
        # `return` leaves the helper, not the caller: a body with returns cannot be pasted into the caller.  The one exception
        # is error propagation: when the call itself is `helper(..)?`, the `?`s inside the helper propagate to the same place.
        try_returns = set()
        for x in _all_nodes(t['body']):
            if x.get('k') == 'Match' and 'TryDesugar' in str(x.get('source')):
                for a in x['arms']:
                    for y in _all_nodes(a['body']):
                        if y.get('k') == 'Return': try_returns.add(id(y))
        for x in _all_nodes(t['body']):
            if x.get('k') == 'Return' and not (allow_try and id(x) in try_returns) and not allow_ret: return False
            if x.get('k') == 'Call' and callee_name(x) == g: return False
        return True
    def subst(self, node, m, clos):
        """deep copy of node with variables in m replaced; closures cloned with the same substitution"""
        if isinstance(node, list): return [self.subst(x, m, clos) for x in node]
        if not isinstance(node, dict): return node
        if node.get('k') in ('VarRef', 'UpvarRef') and node.get('var') in m:
            return _copy.deepcopy(m[node['var']])
        out = {k: self.subst(v, m, clos) for k, v in node.items()}
        if node.get('k') == 'Closure' and canon(node.get('def', '')) in self.c.thir:
            old = canon(node['def'])
            self.n += 1
            new = '%s@inl%d' % (old, self.n)
            ct = self.c.thir[old]
            nt = dict(ct); nt['def'] = new
            nt['body'] = self.subst(ct['body'], m, clos)
            nt['params'] = _copy.deepcopy(ct['params'])
            self.c.ithir[new] = nt
            out['def'] = new
        return out
    def expand(self, node, caller, depth):
        if isinstance(node, list): return [self.expand(x, caller, depth) for x in node]
        if not isinstance(node, dict): return node
        out = {k: self.expand(v, caller, depth) for k, v in node.items()}
        if out.get('k') == 'Closure' and '@inl' in out.get('def', '') and out['def'] in self.c.ithir and not self.c.ithir[out['def']].get('_expanded'):
            # a closure cloned while inlining a helper: calls of further new helpers inside it are expanded in the private copy
            ct = self.c.ithir[out['def']]
            ct['_expanded'] = True
            ct['body'] = self.expand(ct['body'], caller, depth)
        if out.get('k') == 'Closure' and canon(out.get('def', '')) in self.c.thir and '@inl' not in out['def']:
            # closures of the caller: expand inside them too (under a fresh name so the raw body stays untouched)
            old = canon(out['def'])
            ct = self.c.thir[old]
            nb = self.expand(ct['body'], caller, depth)
            if nb != ct['body']:
                self.n += 1
                new = '%s@inl%d' % (old, self.n)
                nt = dict(ct); nt['def'] = new; nt['body'] = nb
                self.c.ithir[new] = nt
                out['def'] = new
        if out.get('k') == 'Match' and 'TryDesugar' in str(out.get('source')) and depth < 4:
            sc = out['scrutinee']
            if sc.get('k') == 'Call' and len(sc.get('args', [])) == 1:
                inner = sc['args'][0]; wraps = []
                while isinstance(inner, dict) and inner.get('k') in ('Use', 'NeverToAny'): wraps.append(inner); inner = inner['source']
                if isinstance(inner, dict) and inner.get('k') == 'Call' and self.candidate(callee_name(inner), caller, allow_try=True) and not self.candidate(callee_name(inner), caller):
                    r = self.inline_call(inner, caller, depth, allow_try=True)
                    if r is not None:
                        sc2 = dict(sc); sc2['args'] = [r]; out['scrutinee'] = sc2
                        return out
        if out.get('k') == 'Call' and depth < 4:
            # a call whose value is the caller's own result (`fn f(..) -> T { ..; helper(..) }`): leaving the helper early is leaving the caller
            r = self.inline_call(out, caller, depth, allow_ret=bool(out.get('#tail')) and depth == 0)
            if r is not None: return r
        return out
    def inline_call(self, out, caller, depth, allow_try=False, allow_ret=False):
        if True:
            g = callee_name(out)
            if self.candidate(g, caller, allow_try, allow_ret):
                t = self.c.thir[g]
                m = {}; lets = []
                ok = len(t['params']) == len(out['args'])
                if ok:
                    for p, a in zip(t['params'], out['args']):
                        q = p['pat']
                        while q['k'] in ('Deref', 'DerefPattern'): q = q['sub']
                        if q['k'] == 'Wild': continue
                        uses = sum(1 for x in _all_nodes(t['body']) if x.get('k') in ('VarRef', 'UpvarRef') and x.get('var') == q['var'])
                        for cl in _all_nodes(t['body']):
                            if cl.get('k') == 'Closure' and canon(cl.get('def', '')) in self.c.thir:
                                uses += sum(1 for x in _all_nodes(self.c.thir[canon(cl['def'])]['body']) if x.get('k') in ('VarRef', 'UpvarRef') and x.get('var') == q['var'])
                        if _simple_arg(a) or uses <= 1: m[q['var']] = a
                        else: lets.append({'k': 'Let', 'pat': p['pat'], 'init': a, 'else': None, 'loc': out.get('loc')})
                    body = self.subst(t['body'], m, None)
                    body = self.expand(body, caller, depth + 1)
                    self.inlined.append((caller, g))
                    b = body
                    while isinstance(b, dict) and (b.get('k') in ('Use', 'NeverToAny') or (b.get('k') == 'Block' and not b['stmts'] and b['expr'] is not None)):
                        b = b['source'] if b.get('k') != 'Block' else b['expr']
                    if not lets:
                        r = dict(b); r['inlined_from'] = g
                        return r
                    body = b
                    if lets:
                        return {'k': 'Block', 'stmts': lets, 'expr': body, 'loc': out.get('loc'), 'ty': out.get('ty'), 'inlined_from': g, 'targeted_by_break': False, 'safety': 'Safe'}
                    r = dict(body); r['inlined_from'] = g
                    return r
        return None

def build_inlined_view(c):
    """c.ithir: like c.thir, with new helper functions inlined into their callers (the raw c.thir is left untouched)"""
    base = baseline_fns()
    new = [g for g in c.thir if g not in base and '{closure' not in g and c.fns.get(g, {}).get('kind') in ('Fn', 'AssocFn')]
    c.ithir = dict(c.thir)
    c.inlined = []
    if new and base:
        inl = Inliner(c)
        def mark_tail(e):
            k = e.get('k')
            if k == 'Block':
                if e.get('expr') is not None: mark_tail(e['expr'])
            elif k == 'If':
                mark_tail(e['then'])
                if e.get('else') is not None: mark_tail(e['else'])
            elif k == 'Match' and 'Desugar' not in str(e.get('source')):
                for a in e['arms']: mark_tail(a['body'])
            elif k in ('Use', 'NeverToAny', 'Scope'):
                mark_tail(e.get('source') or e.get('value'))
            elif k == 'Call': e['#tail'] = True
        for name, t in list(c.thir.items()):
            if '{closure' in name: continue
            mark_tail(t['body'])
            nb = inl.expand(t['body'], name, 0)
            if inl.inlined and nb != t['body']:
                nt = dict(t); nt['body'] = nb
                c.ithir[name] = nt
        c.inlined = sorted(set(inl.inlined))
    args_as_fields(c)
    # matches on tuples of flags read as if-chains
    for name, t in list(c.ithir.items()):
        if any(x.get('k') == 'Match' and x.get('source') in (None, 'Normal') and isinstance(x.get('scrutinee'), dict) and
               (x['scrutinee'].get('k') == 'Tuple' or (x['scrutinee'].get('k') in ('Use', 'Scope') and 'Tuple' in str(x['scrutinee'].get('source', {}).get('k')))) for x in walk(t['body'])):
            nb = bool_tuple_matches_as_ifs(t['body'])
            if any(isinstance(x, dict) and x.get('synthetic') == 'bool-tuple-match' for x in _all_nodes(nb)):
                nt = dict(t); nt['body'] = nb; c.ithir[name] = nt
    # guards that end an iteration early read as if / else (library crate: the tokenizer's chain over the capture groups)
    if c.name == 'rsbdd' and c.kind in ('rlib', 'lib'):
        for name, t in list(c.ithir.items()):
            if any(x.get('k') == 'Continue' for x in walk(t['body'])):
                nb = continues_as_else(t['body'])
                if any(isinstance(x, dict) and x.get('synthetic') == 'continue-guard' for x in _all_nodes(nb)):
                    nt = dict(t); nt['body'] = nb; c.ithir[name] = nt
    # counting while loops read as the `for` loops they spell out
    for name, t in list(c.ithir.items()):
        if any(x.get('k') == 'Loop' and 'ForLoop' not in str(x.get('exp')) for x in walk(t['body'])):
            nb = counting_whiles_as_for(t['body'])
            if any(isinstance(x, dict) and x.get('synthetic') == 'counting-while' for x in _all_nodes(nb)):
                nt = dict(t); nt['body'] = nb; c.ithir[name] = nt

def continues_as_else(body):
    """a copy of a function body in which, directly in the body block of a `for` loop, a guard that ends the iteration reads as the
    branching it abbreviates:   if C { A; continue; } REST   =>   if C { A } else { REST }   (also `if let`).
    Only a bare `continue` as the last action of the guarded block, which holds no other continue / break, is rewritten."""
    import copy
    def peel(x):
        while isinstance(x, dict) and (x.get('k') in ('Use', 'NeverToAny') or (x.get('k') == 'Block' and not x.get('stmts') and x.get('expr') is not None)):
            x = x.get('source') if x['k'] != 'Block' else x['expr']
        return x
    def guarded_part(blk):
        b = blk
        while b.get('k') in ('Use', 'NeverToAny'): b = b['source']
        if b.get('k') != 'Block': return None
        stmts = list(b['stmts']); tail = b.get('expr'); last = None
        if tail is not None: last = peel(tail)
        elif stmts and stmts[-1]['k'] == 'Expr': last = peel(stmts[-1]['expr']); stmts = stmts[:-1]
        if last is None or last.get('k') != 'Continue': return None
        for st in stmts:
            for y in walk(st.get('expr') or st.get('init') or {'k': 'Tuple', 'fields': []}):
                if y['k'] in ('Continue', 'Break', 'Loop'): return None
        return {'k': 'Block', 'stmts': stmts, 'expr': None, 'loc': b.get('loc'), 'ty': b.get('ty'), 'synthetic': 'continue-guard-body'}
    def rw_block(b, top=True):
        stmts = b['stmts']
        if top:
            # all or nothing: a bare `if` among the guards whose block does not end the iteration falls through to the statements after it,
            # which the if / else reading would hide - such a body is left as written
            for st in stmts:
                y = peel(st['expr']) if st['k'] == 'Expr' else None
                if y is not None and y.get('k') == 'If' and y.get('else') is None and guarded_part(y['then']) is None: return b
        for i, st in enumerate(stmts):
            if st['k'] != 'Expr': continue
            y = peel(st['expr'])
            if y.get('k') != 'If' or y.get('else') is not None: continue
            g = guarded_part(y['then'])
            if g is None: continue
            rest = rw_block({'k': 'Block', 'stmts': stmts[i + 1:], 'expr': b.get('expr'), 'loc': b.get('loc'), 'ty': b.get('ty'), 'synthetic': 'after-continue-guard'}, False)
            nif = dict(y); nif['then'] = g; nif['else'] = rest; nif['synthetic'] = 'continue-guard'
            out = dict(b); out['stmts'] = stmts[:i]; out['expr'] = nif
            return out
        return b
    body = copy.deepcopy(body)
    for m in walk(body):
        if m['k'] != 'Match' or m.get('source') != 'ForLoopDesugar': continue
        for a in m['arms']:
            q = a['pat']
            while q.get('k') in ('Deref', 'DerefPattern', 'AscribeUserType'): q = q.get('sub') or q.get('subpattern')
            if not (q.get('k') == 'Variant' and q.get('variant') == 'Some'): continue
            holder, key = a, 'body'
            blk = a['body']
            while blk.get('k') in ('Use', 'NeverToAny'): holder, key = blk, 'source'; blk = blk['source']
            if blk.get('k') == 'Block': holder[key] = rw_block(blk)
    return body

def args_as_fields(c):
    """`let Args { model, input, .. } = Args::parse();` reads as `let args = Args::parse();` with every use of an (immutable) destructured
    local as the field `args.model`: the rules that follow the command line through `args.<field>` see both spellings"""
    def unwrap(p):
        while p.get('k') in ('Deref', 'DerefPattern', 'AscribeUserType'): p = p.get('sub') or p.get('subpattern')
        return p
    for name, t in list(c.ithir.items()):
        if '{closure' in name: continue
        found = []
        for b in walk(t['body']):
            if b['k'] != 'Block': continue
            for st in b['stmts']:
                if st['k'] != 'Let' or st.get('init') is None or st.get('else') is not None: continue
                q = unwrap(st['pat'])
                if q.get('k') != 'Leaf' or 'adt' not in q or not canon(q['adt']).endswith('::Args'): continue
                adt = c.adts.get(canon(q['adt']))
                if adt is None or len(adt['variants']) != 1: continue
                fs = adt['variants'][0]['fields']
                m = {}
                ok = True
                for sp in q['subs']:
                    b_ = unwrap(sp['pat'])
                    if b_.get('k') == 'Wild': continue
                    if b_.get('k') != 'Binding' or b_.get('sub') is not None or b_.get('mutable') or sp['field'] >= len(fs): ok = False; break
                    m[b_['var']] = (sp['field'], fs[sp['field']]['name'], b_.get('ty'))
                if ok and m: found.append((st, q, m))
        if not found: continue
        subst = {}
        for k, (st, q, m) in enumerate(found):
            av = 'args#destructured%d' % k
            for v, (idx, fname, ty) in m.items(): subst[v] = (av, idx, fname, q.get('ty'), ty)
        reassigned = set()
        bodies = [(name, t)] + [(g, ct) for g, ct in c.ithir.items() if g.startswith(name + '::{closure')]
        for g, bt in bodies:
            for x in walk(bt['body']):
                if x['k'] in ('Assign', 'AssignOp'):
                    l = x['lhs']
                    while l.get('k') in ('Deref', 'Use'): l = l.get('arg') or l.get('source')
                    if l.get('k') in ('VarRef', 'UpvarRef') and l['var'] in subst: reassigned.add(l['var'])
        if reassigned: continue
        pats = {id(st): (q, k) for k, (st, q, m) in enumerate(found)}
        def rw(x):
            if isinstance(x, list): return [rw(y) for y in x]
            if not isinstance(x, dict): return x
            if x.get('k') in ('VarRef', 'UpvarRef') and x.get('var') in subst:
                av, idx, fname, aty, fty = subst[x['var']]
                return {'k': 'Field', 'loc': x.get('loc'), 'ty': x.get('ty'), 'field': idx, 'field_name': fname, 'synthetic': 'args-destructured',
                        'lhs': {'k': x['k'], 'var': av, 'loc': x.get('loc'), 'ty': aty}}
            if x.get('k') == 'Let' and id(x) in pats:
                q, k = pats[id(x)]
                o = {a: (rw(b) if isinstance(b, (dict, list)) and a != 'pat' else b) for a, b in x.items()}
                o['pat'] = {'k': 'Binding', 'name': 'args', 'var': 'args#destructured%d' % k, 'by_ref': False, 'mutable': False, 'loc': q.get('loc'), 'ty': q.get('ty'), 'sub': None}
                return o
            return {a: (rw(b) if isinstance(b, (dict, list)) else b) for a, b in x.items()}
        for g, bt in bodies:
            nt = dict(bt); nt['body'] = rw(bt['body'])
            c.ithir[g] = nt


def extend_map_as_loops(body, crate):
    """a copy of `body` in which `target.extend(iter.map(|p| E))` reads as the loop it abbreviates,
    `for p in iter { target.push(E) }` (same elements in the same order): rules about pushes inside loops then see both spellings"""
    import copy
    thir = getattr(crate, 'ithir', crate.thir)
    def rewrite(x):
        if isinstance(x, list): return [rewrite(y) for y in x]
        if not isinstance(x, dict): return x
        if x.get('k') == 'Call' and callee_decl(x) == 'std::iter::Extend::extend' and len(x.get('args', [])) == 2:
            it = x['args'][1]
            while it.get('k') in ('Use', 'Borrow', 'Deref') : it = it.get('arg') or it.get('source')
            if it.get('k') == 'Call' and callee_decl(it) == 'std::iter::Iterator::map' and len(it['args']) == 2:
                cl = it['args'][1]
                while cl.get('k') in ('Use', 'Borrow', 'Deref'): cl = cl.get('arg') or cl.get('source')
                ct = thir.get(canon(cl['def'])) if cl.get('k') == 'Closure' else None
                if ct is not None and len(ct['params']) == 2 and ct['params'][1].get('pat') is not None:
                    loc = x.get('loc'); ty = x.get('ty')
                    push = {'k': 'Call', 'callee': {'def': 'std::vec::Vec::push', 'res': 'std::vec::Vec::push'}, 'args': [rewrite(x['args'][0]), rewrite(copy.deepcopy(ct['body']))],
                            'loc': loc, 'ty': ty, 'from_hir_call': True, 'synthetic': 'extend-map'}
                    itv = 'iter#extend%d' % id(x)
                    inner = {'k': 'Match', 'source': 'ForLoopDesugar', 'loc': loc, 'ty': ty,
                             'scrutinee': {'k': 'Call', 'callee': {'def': 'std::iter::Iterator::next', 'res': 'std::iter::Iterator::next'}, 'loc': loc, 'ty': ty,
                                           'args': [{'k': 'Borrow', 'mut': True, 'loc': loc, 'ty': ty, 'arg': {'k': 'VarRef', 'var': itv, 'loc': loc, 'ty': ty}}]},
                             'arms': [{'pat': {'k': 'Variant', 'adt': 'std::option::Option', 'variant': 'None', 'subs': []}, 'guard': None, 'body': {'k': 'Break', 'label': None, 'value': None, 'loc': loc, 'ty': ty}},
                                      {'pat': {'k': 'Variant', 'adt': 'std::option::Option', 'variant': 'Some', 'subs': [{'field': 0, 'pat': copy.deepcopy(ct['params'][1]['pat'])}]}, 'guard': None,
                                       'body': {'k': 'Block', 'stmts': [{'k': 'Expr', 'expr': push}], 'expr': None, 'loc': loc, 'ty': ty}}]}
                    return {'k': 'Match', 'source': 'ForLoopDesugar', 'loc': loc, 'ty': ty,
                            'scrutinee': {'k': 'Call', 'callee': {'def': 'std::iter::IntoIterator::into_iter', 'res': 'std::iter::IntoIterator::into_iter'}, 'loc': loc, 'ty': ty, 'args': [rewrite(it['args'][0])]},
                            'arms': [{'pat': {'k': 'Binding', 'name': 'iter', 'var': itv, 'by_ref': False, 'mutable': True}, 'guard': None,
                                      'body': {'k': 'Loop', 'loc': loc, 'ty': ty, 'body': {'k': 'Block', 'stmts': [{'k': 'Expr', 'expr': inner}], 'expr': None, 'loc': loc, 'ty': ty}}}]}
        return {k_: (rewrite(v) if isinstance(v, (dict, list)) else v) for k_, v in x.items()}
    return rewrite(body)

def iter_chains_as_loops(body, crate):
    """a copy of `body` in which iterator chains that feed a `for` loop or an `extend` read as the loop nests they abbreviate:
        for P in S.map(|q| E) { B }            =>  for q in S { let P = E; B }
        for P in S.filter(|q| C) { B }         =>  for x in S { let q = &x; if C { let P = x; B } }
        for P in S.flat_map(|a| T) { B }       =>  for a in S { for P in T { B } }
        T.extend(S)                            =>  for x in S { T.push(x) }
    applied repeatedly, also through one immutable local that names the chain (`let pairs = ..; for (a, b) in pairs`).  The order of the
    elements and the laziness of the adaptors make the loop nest visit exactly the same items in the same order."""
    import copy
    thir = getattr(crate, 'ithir', crate.thir)
    cnt = [0]
    def peel(x):
        while isinstance(x, dict) and x.get('k') in ('Use', 'NeverToAny', 'Scope'): x = x.get('source') or x.get('value')
        return x
    def fresh(nm):
        cnt[0] += 1
        return '%s#chain%d' % (nm, cnt[0])
    def mk_for(iter_expr, pat, body_block, loc, ty):
        itv = fresh('iter')
        inner = {'k': 'Match', 'source': 'ForLoopDesugar', 'loc': loc, 'ty': ty, 'synthetic': 'iter-chain',
                 'scrutinee': {'k': 'Call', 'callee': {'def': 'std::iter::Iterator::next', 'res': 'std::iter::Iterator::next'}, 'loc': loc, 'ty': ty,
                               'args': [{'k': 'Borrow', 'mut': True, 'loc': loc, 'ty': ty, 'arg': {'k': 'VarRef', 'var': itv, 'loc': loc, 'ty': ty}}]},
                 'arms': [{'pat': {'k': 'Variant', 'adt': 'std::option::Option', 'variant': 'None', 'subs': [], 'nfields': 0}, 'guard': None, 'body': {'k': 'Break', 'label': None, 'value': None, 'loc': loc, 'ty': ty}},
                          {'pat': {'k': 'Variant', 'adt': 'std::option::Option', 'variant': 'Some', 'nfields': 1, 'subs': [{'field': 0, 'pat': pat}]}, 'guard': None, 'body': body_block}]}
        return {'k': 'Match', 'source': 'ForLoopDesugar', 'loc': loc, 'ty': ty, 'synthetic': 'iter-chain',
                'scrutinee': {'k': 'Call', 'callee': {'def': 'std::iter::IntoIterator::into_iter', 'res': 'std::iter::IntoIterator::into_iter'}, 'loc': loc, 'ty': ty, 'args': [iter_expr], 'from_hir_call': True},
                'arms': [{'pat': {'k': 'Binding', 'name': 'iter', 'var': itv, 'by_ref': False, 'mutable': True, 'sub': None}, 'guard': None,
                          'body': {'k': 'Loop', 'loc': loc, 'ty': ty, 'body': {'k': 'Block', 'stmts': [{'k': 'Expr', 'expr': inner}], 'expr': None, 'loc': loc, 'ty': ty, 'targeted_by_break': False}}}]}
    def block(stmts, loc, ty): return {'k': 'Block', 'stmts': stmts, 'expr': None, 'loc': loc, 'ty': ty, 'targeted_by_break': False, 'synthetic': 'iter-chain'}
    def let(pat, init, loc): return {'k': 'Let', 'pat': pat, 'init': init, 'else': None, 'loc': loc, 'synthetic': 'iter-chain'}
    def closure_of(e):
        e = peel(e)
        while isinstance(e, dict) and e.get('k') in ('Borrow', 'Deref'): e = peel(e['arg'])
        if not isinstance(e, dict) or e.get('k') != 'Closure': return None
        ct = thir.get(canon(e['def']))
        if ct is None or len(ct['params']) != 2 or ct['params'][1].get('pat') is None: return None
        if any(y['k'] == 'Return' for y in walk(ct['body'])): return None
        return copy.deepcopy(ct['params'][1]['pat']), copy.deepcopy(ct['body'])
    def lower(src, pat, body_block, lets, loc, ty, depth=0):
        """the loop nest for `for pat in src { body_block }`; None when src is not an adaptor chain (the caller keeps the plain loop)"""
        e = peel(src)
        if e.get('k') in ('VarRef',) and e['var'] in lets and depth < 6:
            return lower(lets[e['var']], pat, body_block, lets, loc, ty, depth + 1) or mk_for(lets[e['var']], pat, body_block, loc, ty)
        if e.get('k') != 'Call' or depth > 6: return None
        d = callee_decl(e) or ''
        if d == 'std::iter::Iterator::map' and len(e['args']) == 2:
            cl = closure_of(e['args'][1])
            if cl is None: return None
            q, expr = cl
            inner = block([let(pat, expr, loc), {'k': 'Expr', 'expr': body_block}], loc, ty)
            return lower(e['args'][0], q, inner, lets, loc, ty, depth + 1) or mk_for(e['args'][0], q, inner, loc, ty)
        if d == 'std::iter::Iterator::filter' and len(e['args']) == 2:
            cl = closure_of(e['args'][1])
            if cl is None: return None
            q, cond = cl
            x = fresh('item')
            xref = {'k': 'VarRef', 'var': x, 'loc': loc, 'ty': e.get('ty')}
            guarded = {'k': 'If', 'cond': cond, 'then': block([let(pat, xref, loc), {'k': 'Expr', 'expr': body_block}], loc, ty), 'else': None, 'loc': loc, 'ty': ty, 'synthetic': 'iter-chain'}
            inner = block([let(q, {'k': 'Borrow', 'mut': False, 'arg': xref, 'loc': loc, 'ty': e.get('ty')}, loc), {'k': 'Expr', 'expr': guarded}], loc, ty)
            xpat = {'k': 'Binding', 'name': 'item', 'var': x, 'by_ref': False, 'mutable': False, 'sub': None, 'loc': loc}
            return lower(e['args'][0], xpat, inner, lets, loc, ty, depth + 1) or mk_for(e['args'][0], xpat, inner, loc, ty)
        if d == 'std::iter::Iterator::flat_map' and len(e['args']) == 2:
            cl = closure_of(e['args'][1])
            if cl is None: return None
            q, inner_iter = cl
            nested = lower(inner_iter, pat, body_block, lets, loc, ty, depth + 1) or mk_for(inner_iter, pat, body_block, loc, ty)
            inner = block([{'k': 'Expr', 'expr': nested}], loc, ty)
            return lower(e['args'][0], q, inner, lets, loc, ty, depth + 1) or mk_for(e['args'][0], q, inner, loc, ty)
        return None
    def chain_lets(blk):
        """immutable locals of this block bound to an iterator chain and used exactly once"""
        out = {}
        for st in blk['stmts']:
            if st['k'] == 'Let' and st.get('init') is not None and st.get('else') is None:
                q = st['pat']
                while q.get('k') in ('Deref', 'DerefPattern', 'AscribeUserType'): q = q.get('sub') or q.get('subpattern')
                i0 = peel(st['init'])
                if q.get('k') == 'Binding' and not q.get('mutable') and q.get('sub') is None and i0.get('k') == 'Call' and \
                        (callee_decl(i0) or '') in ('std::iter::Iterator::map', 'std::iter::Iterator::filter', 'std::iter::Iterator::flat_map', 'std::iter::Iterator::enumerate'):
                    uses = sum(1 for y in walk(blk) if y['k'] in ('VarRef', 'UpvarRef') and y['var'] == q['var'])
                    if uses == 1: out[q['var']] = st['init']
        return out
    def rewrite(x, lets):
        if isinstance(x, list): return [rewrite(y, lets) for y in x]
        if not isinstance(x, dict): return x
        if x.get('k') == 'Block':
            lets = dict(lets); lets.update(chain_lets(x))
        if x.get('k') == 'Match' and x.get('source') == 'ForLoopDesugar' and x.get('synthetic') != 'iter-chain':
            sc = peel(x['scrutinee'])
            if sc.get('k') == 'Call' and callee_decl(sc) == 'std::iter::IntoIterator::into_iter' and sc['args']:
                some = None
                for m_ in walk(x['arms'][0]['body']):
                    if m_['k'] == 'Match' and m_.get('source') == 'ForLoopDesugar':
                        for a_ in m_['arms']:
                            if a_['pat'].get('k') == 'Variant' and a_['pat'].get('variant') == 'Some' and a_['pat'].get('subs'): some = a_
                        break
                if some is not None:
                    body_block = rewrite(some['body'], lets)
                    r = lower(sc['args'][0], some['pat']['subs'][0]['pat'], body_block, lets, x.get('loc'), x.get('ty'))
                    if r is not None: return r
        if x.get('k') == 'Call' and callee_decl(x) == 'std::iter::Extend::extend' and len(x.get('args', [])) == 2:
            v = fresh('elem')
            vref = {'k': 'VarRef', 'var': v, 'loc': x.get('loc'), 'ty': x.get('ty')}
            push = {'k': 'Call', 'callee': {'def': 'std::vec::Vec::push', 'res': 'std::vec::Vec::push'}, 'args': [rewrite(x['args'][0], lets), vref], 'loc': x.get('loc'), 'ty': x.get('ty'),
                    'from_hir_call': True, 'synthetic': 'iter-chain'}
            vpat = {'k': 'Binding', 'name': 'elem', 'var': v, 'by_ref': False, 'mutable': False, 'sub': None, 'loc': x.get('loc')}
            r = lower(x['args'][1], vpat, block([{'k': 'Expr', 'expr': push}], x.get('loc'), x.get('ty')), lets, x.get('loc'), x.get('ty'))
            if r is not None: return r
        return {k_: (rewrite(v, lets) if isinstance(v, (dict, list)) else v) for k_, v in x.items()}
    return rewrite(body, {})

def hoist_try_blocks(body):
    """a copy of `body` in which the statements of an inlined helper that sits under a `?` are statements of the caller:
        { s1; ..; v }?;        =>   s1; ..; v?;          (also for `let x = { s1; ..; v }?;` and for a plain `let x = { s1; ..; v };`)
    the locals of an inlined body are its own, so nothing is captured"""
    def peel_use(x):
        while isinstance(x, dict) and x.get('k') in ('Use', 'NeverToAny', 'Scope'): x = x.get('source') or x.get('value')
        return x
    def split(e):
        """(statements to run first, the expression that remains) for a statement's expression"""
        p = peel_use(e)
        if isinstance(p, dict) and p.get('k') == 'Match' and 'TryDesugar' in str(p.get('source')):
            sc = p['scrutinee']
            if sc.get('k') == 'Call' and len(sc.get('args', [])) == 1:
                inner = peel_use(sc['args'][0])
                if isinstance(inner, dict) and inner.get('k') == 'Block' and inner.get('inlined_from') and inner.get('stmts') and inner.get('expr') is not None and \
                        not any(y['k'] in ('Break', 'Continue') for y in walk(inner)):
                    pre, rest = split(inner['expr'])
                    sc2 = dict(sc); sc2['args'] = [rest]
                    p2 = dict(p); p2['scrutinee'] = sc2
                    return [rw(st) for st in inner['stmts']] + pre, p2
        if isinstance(p, dict) and p.get('k') == 'Block' and p.get('inlined_from') and p.get('stmts') and p.get('expr') is not None and \
                not any(y['k'] in ('Break', 'Continue', 'Return') for y in walk(p)):
            pre, rest = split(p['expr'])
            return [rw(st) for st in p['stmts']] + pre, rest
        return [], e
    def rw(x):
        if isinstance(x, list): return [rw(y) for y in x]
        if not isinstance(x, dict): return x
        if x.get('k') == 'Block':
            out = []
            for st in x['stmts']:
                tgt = 'expr' if st['k'] == 'Expr' else 'init' if st['k'] == 'Let' and st.get('init') is not None and st.get('else') is None else None
                if tgt is not None:
                    pre, rest = split(st[tgt])
                    if pre:
                        out.extend(pre)
                        st2 = dict(st); st2[tgt] = rw(rest); out.append(st2)
                        continue
                out.append(rw(st))
            o = {k_: (rw(v) if isinstance(v, (dict, list)) and k_ != 'stmts' else v) for k_, v in x.items()}
            o['stmts'] = out
            if x.get('expr') is not None:
                pre, rest = split(x['expr'])
                if pre: o['stmts'] = out + pre; o['expr'] = rw(rest)
            return o
        return {k_: (rw(v) if isinstance(v, (dict, list)) else v) for k_, v in x.items()}
    return rw(body)

def split_tuple_lets(body):
    """a copy of `body` in which `let (a, b) = (x, y);` reads as `let a = x; let b = y;` (components evaluated in the same order)"""
    def peel_use(x):
        while isinstance(x, dict) and x.get('k') in ('Use', 'NeverToAny', 'Scope'): x = x.get('source') or x.get('value')
        return x
    def rw(x):
        if isinstance(x, list): return [rw(y) for y in x]
        if not isinstance(x, dict): return x
        if x.get('k') == 'Block':
            out = []
            for st in x['stmts']:
                if st['k'] == 'Let' and st.get('init') is not None and st.get('else') is None:
                    q = st['pat']
                    while q.get('k') in ('AscribeUserType',): q = q.get('subpattern') or q.get('sub')
                    i0 = peel_use(st['init'])
                    if q.get('k') == 'Leaf' and 'adt' not in q and i0.get('k') == 'Tuple' and len(q.get('subs', [])) == len(i0['fields']) and \
                            sorted(sp['field'] for sp in q['subs']) == list(range(len(i0['fields']))):
                        for sp in sorted(q['subs'], key=lambda z: z['field']):
                            out.append({'k': 'Let', 'pat': sp['pat'], 'init': rw(i0['fields'][sp['field']]), 'else': None, 'loc': st.get('loc'), 'span': st.get('span'), 'synthetic': 'tuple-let'})
                        continue
                out.append(rw(st))
            o = {k_: (rw(v) if isinstance(v, (dict, list)) and k_ != 'stmts' else v) for k_, v in x.items()}
            o['stmts'] = out
            return o
        return {k_: (rw(v) if isinstance(v, (dict, list)) else v) for k_, v in x.items()}
    return rw(body)

def bool_tuple_matches_as_ifs(body):
    """a copy of `body` in which a match on a tuple of Boolean values with literal / wildcard patterns reads as the if-chain it abbreviates:
        match (a, b) { (true, true) => X, (true, false) => Y, (false, _) => Z }   =>   if a && b { X } else if a && !b { Y } else { Z }
    (first arm that accepts wins, as in the match; the components must be plain reads so that testing them repeatedly changes nothing;
    the last arm must be irrefutable for the if-chain to be total)"""
    def peel(x):
        while isinstance(x, dict) and x.get('k') in ('Use', 'NeverToAny', 'Scope'): x = x.get('source') or x.get('value')
        return x
    def plain(e):
        e = peel(e)
        while e.get('k') in ('Borrow', 'Deref'): e = peel(e['arg'])
        if e.get('k') in ('VarRef', 'UpvarRef', 'Literal'): return True
        if e.get('k') == 'Field': return plain(e['lhs'])
        return False
    def bool_pat(p):
        while p.get('k') in ('Deref', 'DerefPattern'): p = p['sub']
        if p.get('k') == 'Wild': return 'any'
        if p.get('k') == 'Constant':
            cv = str(p.get('value'))
            if 'true' in cv or '0x01' in cv: return True
            if 'false' in cv or '0x00' in cv: return False
        return None
    def rw(x):
        if isinstance(x, list): return [rw(y) for y in x]
        if not isinstance(x, dict): return x
        o = {k_: (rw(v) if isinstance(v, (dict, list)) else v) for k_, v in x.items()}
        if o.get('k') == 'Match' and o.get('source') in (None, 'Normal'):
            sc = peel(o['scrutinee'])
            if isinstance(sc, dict) and sc.get('k') == 'Tuple' and sc['fields'] and all(plain(f) for f in sc['fields']) and \
                    all(str((f.get('ty') or {}).get('s')) == 'bool' for f in sc['fields']) and all(a.get('guard') is None for a in o['arms']):
                rows = []
                for a in o['arms']:
                    p = a['pat']
                    while p.get('k') in ('Deref', 'DerefPattern'): p = p['sub']
                    if p.get('k') == 'Wild': rows.append((['any'] * len(sc['fields']), a['body'])); continue
                    if p.get('k') != 'Leaf' or 'adt' in p: return o
                    vals = ['any'] * len(sc['fields'])
                    for sp in p['subs']:
                        b = bool_pat(sp['pat'])
                        if b is None or sp['field'] >= len(vals): return o
                        vals[sp['field']] = b
                    rows.append((vals, a['body']))
                loc, ty = o.get('loc'), o.get('ty')
                def cond(vals):
                    parts = []
                    for f, v in zip(sc['fields'], vals):
                        if v == 'any': continue
                        parts.append(f if v is True else {'k': 'Unary', 'op': 'Not', 'arg': f, 'loc': loc, 'ty': f.get('ty')})
                    if not parts: return None
                    c = parts[0]
                    for q in parts[1:]: c = {'k': 'LogicalOp', 'op': 'And', 'lhs': c, 'rhs': q, 'loc': loc, 'ty': parts[0].get('ty')}
                    return c
                # the if-chain is total only if some arm accepts every combination not accepted earlier: require a final all-wildcard arm, or
                # exhaustiveness by enumeration
                import itertools
                n = len(sc['fields'])
                covered_all = all(any(all(v == 'any' or v == bit for v, bit in zip(vals, combo)) for vals, _ in rows) for combo in itertools.product((True, False), repeat=n))
                if not covered_all: return o
                chain = None
                for vals, body_ in reversed(rows):
                    c = cond(vals)
                    if chain is None: chain = body_ if c is None else {'k': 'If', 'cond': c, 'then': body_, 'else': {'k': 'Tuple', 'fields': [], 'loc': loc, 'ty': ty}, 'loc': loc, 'ty': ty, 'synthetic': 'bool-tuple-match'}
                    elif c is None: chain = body_
                    else: chain = {'k': 'If', 'cond': c, 'then': body_, 'else': chain, 'loc': loc, 'ty': ty, 'synthetic': 'bool-tuple-match'}
                if isinstance(chain, dict):
                    chain = dict(chain); chain['synthetic'] = 'bool-tuple-match'
                    return chain
        return o
    return rw(body)

def counting_whiles_as_for(body):
    """a copy of `body` in which a counting while loop reads as the `for` over a range it spells out:
        let mut i = A; while i < B { BODY; i += 1; }      =>      for i in A..B { BODY }          (`i <= B`  =>  A..=B)
    Only when nothing else writes i, BODY neither continues nor breaks this loop, B does not mention anything BODY writes, and i is not
    read after the loop (there it would hold B, in the `for` form it is gone)."""
    import copy
    def peel(x):
        while isinstance(x, dict) and (x.get('k') in ('Use', 'NeverToAny', 'Scope') or (x.get('k') == 'Block' and not x.get('stmts') and x.get('expr') is not None)):
            x = x.get('source') or x.get('value') or x.get('expr')
        return x
    def vars_of(e): return set(y['var'] for y in walk(e) if y['k'] in ('VarRef', 'UpvarRef'))
    def written(e):
        out = set()
        for y in walk(e):
            if y['k'] in ('Assign', 'AssignOp'):
                l = y['lhs']
                while l.get('k') in ('Deref', 'Use', 'Field', 'Index', 'Borrow'): l = l.get('arg') or l.get('source') or l.get('lhs')
                if l.get('k') in ('VarRef', 'UpvarRef'): out.add(l['var'])
            if y['k'] == 'Borrow' and y.get('mut'):
                l = y['arg']
                while l.get('k') in ('Deref', 'Use', 'Field', 'Index'): l = l.get('arg') or l.get('source') or l.get('lhs')
                if l.get('k') in ('VarRef', 'UpvarRef'): out.add(l['var'])
        return out
    def leaves_this_loop(e):
        """a break / continue in e that is not inside a nested loop"""
        def rec(x):
            if isinstance(x, list): return any(rec(y) for y in x)
            if not isinstance(x, dict): return False
            if x.get('k') in ('Break', 'Continue'): return True
            if x.get('k') == 'Loop': return any(y['k'] in ('Break', 'Continue') and y.get('label') is not None for y in walk(x))
            if x.get('k') == 'Closure': return False
            return any(rec(v) for k_, v in x.items() if isinstance(v, (dict, list)) and k_ not in ('ty', 'pat'))
        return rec(e)
    def as_for(let, loop, later):
        q = let['pat']
        while q.get('k') in ('Deref', 'DerefPattern', 'AscribeUserType'): q = q.get('sub') or q.get('subpattern')
        if q.get('k') != 'Binding' or not q.get('mutable') or q.get('sub') is not None or let.get('init') is None or let.get('else') is not None: return None
        iv = q['var']
        lp = peel(loop)
        if not isinstance(lp, dict) or lp.get('k') != 'Loop': return None
        b = lp['body']
        while b.get('k') in ('Use', 'NeverToAny'): b = b['source']
        if b.get('k') != 'Block' or b.get('stmts') or b.get('expr') is None or 'WhileLoop' not in str(b.get('exp')): return None
        cond_if = peel(b['expr'])
        if cond_if.get('k') != 'If' or cond_if['cond'].get('k') == 'Let' or cond_if.get('else') is None: return None
        c = peel(cond_if['cond'])
        if c.get('k') != 'Binary': return None
        l, r = peel(c['lhs']), peel(c['rhs'])
        if c['op'] in ('Lt', 'Le') and l.get('k') == 'VarRef' and l['var'] == iv: bound, incl = c['rhs'], c['op'] == 'Le'
        elif c['op'] in ('Gt', 'Ge') and r.get('k') == 'VarRef' and r['var'] == iv: bound, incl = c['lhs'], c['op'] == 'Ge'
        else: return None
        then = cond_if['then']
        while then.get('k') in ('Use', 'NeverToAny'): then = then['source']
        if then.get('k') != 'Block' or then.get('expr') is not None or not then['stmts']: return None
        last = then['stmts'][-1]
        inc = peel(last['expr']) if last['k'] == 'Expr' else None
        if inc is None: return None
        ok_inc = False
        if inc.get('k') == 'AssignOp' and inc['op'] in ('AddAssign', 'Add') and peel(inc['lhs']).get('k') == 'VarRef' and peel(inc['lhs'])['var'] == iv and \
                peel(inc['rhs']).get('k') == 'Literal' and str(peel(inc['rhs']).get('value')) == '1': ok_inc = True
        if inc.get('k') == 'Assign' and peel(inc['lhs']).get('k') == 'VarRef' and peel(inc['lhs'])['var'] == iv:
            rr = peel(inc['rhs'])
            if rr.get('k') == 'Binary' and rr['op'] == 'Add' and peel(rr['lhs']).get('k') == 'VarRef' and peel(rr['lhs'])['var'] == iv and str(peel(rr['rhs']).get('value')) == '1': ok_inc = True
        if not ok_inc: return None
        rest = then['stmts'][:-1]
        restb = {'k': 'Block', 'stmts': rest, 'expr': None, 'loc': then.get('loc'), 'ty': then.get('ty'), 'targeted_by_break': False}
        if iv in written(restb) or leaves_this_loop(rest): return None
        if vars_of(bound) & (written(restb) | {iv}): return None
        if any(iv in vars_of(st.get('expr') or st.get('init') or {'k': 'Tuple', 'fields': []}) for st in later): return None
        if any(y['k'] == 'Closure' for y in walk(restb)): return None          # a closure may capture the counter by reference
        loc = lp.get('loc'); ty = lp.get('ty')
        ity = q.get('ty')
        if incl:
            rng = {'k': 'Call', 'callee': {'def': 'std::ops::RangeInclusive::new', 'res': 'std::ops::RangeInclusive::new'}, 'args': [let['init'], bound], 'loc': loc, 'ty': ty, 'from_hir_call': True, 'synthetic': 'counting-while'}
        else:
            rng = {'k': 'Adt', 'adt': 'std::ops::Range', 'adt_kind': 'Struct', 'variant': 'Range', 'variant_index': 0, 'base': None, 'loc': loc, 'ty': ty, 'synthetic': 'counting-while',
                   'fields': [{'idx': 0, 'name': 'start', 'expr': let['init']}, {'idx': 1, 'name': 'end', 'expr': bound}]}
        itv = 'iter#while%d' % id(lp)
        pat = {'k': 'Binding', 'name': q.get('name'), 'var': iv, 'by_ref': False, 'mutable': False, 'sub': None, 'loc': q.get('loc'), 'ty': ity}
        inner = {'k': 'Match', 'source': 'ForLoopDesugar', 'loc': loc, 'ty': ty, 'synthetic': 'counting-while',
                 'scrutinee': {'k': 'Call', 'callee': {'def': 'std::iter::Iterator::next', 'res': 'std::iter::Iterator::next'}, 'loc': loc, 'ty': ty,
                               'args': [{'k': 'Borrow', 'mut': True, 'loc': loc, 'ty': ty, 'arg': {'k': 'VarRef', 'var': itv, 'loc': loc, 'ty': ty}}]},
                 'arms': [{'pat': {'k': 'Variant', 'adt': 'std::option::Option', 'variant': 'None', 'subs': [], 'nfields': 0}, 'guard': None, 'body': {'k': 'Break', 'label': None, 'value': None, 'loc': loc, 'ty': ty}},
                          {'pat': {'k': 'Variant', 'adt': 'std::option::Option', 'variant': 'Some', 'nfields': 1, 'subs': [{'field': 0, 'pat': pat}]}, 'guard': None, 'body': rewrite(restb)}]}
        return {'k': 'Match', 'source': 'ForLoopDesugar', 'loc': loc, 'ty': ty, 'synthetic': 'counting-while',
                'scrutinee': {'k': 'Call', 'callee': {'def': 'std::iter::IntoIterator::into_iter', 'res': 'std::iter::IntoIterator::into_iter'}, 'loc': loc, 'ty': ty, 'args': [rng], 'from_hir_call': True},
                'arms': [{'pat': {'k': 'Binding', 'name': 'iter', 'var': itv, 'by_ref': False, 'mutable': True, 'sub': None}, 'guard': None,
                          'body': {'k': 'Loop', 'loc': loc, 'ty': ty, 'body': {'k': 'Block', 'stmts': [{'k': 'Expr', 'expr': inner}], 'expr': None, 'loc': loc, 'ty': ty, 'targeted_by_break': False}}}]}
    def rewrite(x):
        if isinstance(x, list): return [rewrite(y) for y in x]
        if not isinstance(x, dict): return x
        if x.get('k') == 'Block' and len(x.get('stmts') or []) >= 2:
            stmts = x['stmts']; out = []; i = 0; changed = False
            while i < len(stmts):
                st = stmts[i]
                if st['k'] == 'Let' and i + 1 < len(stmts) and stmts[i + 1]['k'] == 'Expr':
                    later = stmts[i + 2:] + ([{'k': 'Expr', 'expr': x['expr']}] if x.get('expr') is not None else [])
                    f = as_for(st, stmts[i + 1]['expr'], later)
                    if f is not None:
                        out.append({'k': 'Expr', 'expr': f}); i += 2; changed = True; continue
                out.append(rewrite(st)); i += 1
            o = {k_: (rewrite(v) if isinstance(v, (dict, list)) and k_ != 'stmts' else v) for k_, v in x.items()}
            o['stmts'] = out
            return o
        return {k_: (rewrite(v) if isinstance(v, (dict, list)) else v) for k_, v in x.items()}
    return rewrite(body)

def unroll_array_loops(body):
    """a copy of `body` in which a loop over a spelt-out array of tuples of plain values, `for (a, b) in [(x1, y1), (x2, y2)] { B }`,
    reads as the sequence it abbreviates, `{ B[a:=x1, b:=y1] } { B[a:=x2, b:=y2] }` (loops that break or continue are left alone)"""
    import copy
    def peel(x):
        while isinstance(x, dict) and x.get('k') in ('Use', 'Borrow', 'Deref', 'PointerCoercion'): x = x.get('arg') or x.get('source')
        return x
    def subst(x, m):
        if isinstance(x, list): return [subst(y, m) for y in x]
        if not isinstance(x, dict): return x
        if x.get('k') in ('VarRef', 'UpvarRef') and x.get('var') in m: return copy.deepcopy(m[x['var']])
        return {k_: (subst(v, m) if isinstance(v, (dict, list)) else v) for k_, v in x.items()}
    # immutable locals bound to a spelt-out array and used exactly once (as the subject of a loop)
    array_lets = {}
    for b_ in walk(body):
        if b_['k'] != 'Block': continue
        for st_ in b_['stmts']:
            if st_['k'] == 'Let' and st_.get('init') is not None and st_.get('else') is None:
                q_ = st_['pat']
                while q_.get('k') in ('AscribeUserType',): q_ = q_.get('subpattern') or q_.get('sub')
                i0_ = peel(st_['init'])
                if q_.get('k') == 'Binding' and not q_.get('mutable') and q_.get('sub') is None and isinstance(i0_, dict) and i0_.get('k') == 'Array':
                    if sum(1 for y in walk(body) if y['k'] in ('VarRef', 'UpvarRef') and y['var'] == q_['var']) == 1: array_lets[q_['var']] = i0_
    def rewrite(x):
        if isinstance(x, list): return [rewrite(y) for y in x]
        if not isinstance(x, dict): return x
        if x.get('k') == 'Match' and x.get('source') == 'ForLoopDesugar' and peel(x['scrutinee']).get('k') == 'Call' and callee_decl(peel(x['scrutinee'])) == 'std::iter::IntoIterator::into_iter':
            arr = peel(peel(x['scrutinee'])['args'][0])
            while arr.get('k') == 'Call' and arr.get('args') and (callee_name(arr) or '').split('::')[-1] in ('iter', 'into_iter'): arr = peel(arr['args'][0])
            if arr.get('k') == 'VarRef' and arr['var'] in array_lets: arr = array_lets[arr['var']]          # `let branches = [(r, False), (l, True)]; for (t, e) in branches`
            inner = [m_ for m_ in walk(x['arms'][0]['body']) if m_['k'] == 'Match' and m_.get('source') == 'ForLoopDesugar']
            if arr.get('k') == 'Array' and arr['fields'] and inner and not any(y['k'] in ('Break', 'Continue', 'Return') for a_ in inner[0]['arms'][1:] for y in walk(a_['body'])):
                some = [a_ for a_ in inner[0]['arms'] if a_['pat'].get('k') == 'Variant' and a_['pat'].get('variant') == 'Some' and a_['pat'].get('subs')]
                pat = some[0]['pat']['subs'][0]['pat'] if some else None
                while pat is not None and pat.get('k') in ('Deref', 'DerefPattern'): pat = pat['sub']
                elems = [peel(f) for f in arr['fields']]
                if pat is not None and pat.get('k') == 'Binding' and pat.get('sub') is None and all(_simple_arg(e_) for e_ in elems) and \
                        not any(y['k'] in ('Break', 'Continue', 'Return') for y in walk(some[0]['body'])):
                    # `for x in [p, q] { B }` is `{ B[x:=p] } { B[x:=q] }`; the locals of B are fresh in every copy
                    bound = set(q_['var'] for q_ in _all_nodes(some[0]['body']) if q_.get('k') == 'Binding' and 'var' in q_)
                    stmts = []
                    for k_i, e_ in enumerate(elems):
                        def ren(z, k_i=k_i):
                            if isinstance(z, list): return [ren(y) for y in z]
                            if not isinstance(z, dict): return z
                            o = {a_: (ren(b_) if isinstance(b_, (dict, list)) else b_) for a_, b_ in z.items()}
                            if o.get('k') in ('VarRef', 'UpvarRef', 'Binding') and o.get('var') in bound: o['var'] = '%s~%d' % (o['var'], k_i)
                            return o
                        stmts.append({'k': 'Expr', 'expr': rewrite(subst(ren(some[0]['body']), {pat['var']: e_}))})
                    return {'k': 'Block', 'stmts': stmts, 'expr': None, 'loc': x.get('loc'), 'ty': x.get('ty'), 'synthetic': 'unrolled-array-loop'}
                ok = pat is not None and pat.get('k') == 'Leaf' and 'adt' not in pat and all(e_.get('k') == 'Tuple' and all(_simple_arg(f) for f in e_['fields']) for e_ in elems)
                binds = {}
                if ok:
                    for sp in pat['subs']:
                        q = sp['pat']
                        while q.get('k') in ('Deref', 'DerefPattern'): q = q['sub']
                        if q.get('k') == 'Binding' and q.get('sub') is None: binds[q['var']] = sp['field']
                        elif q.get('k') != 'Wild': ok = False
                if ok:
                    stmts = []
                    for e_ in elems:
                        m = {v: e_['fields'][i] for v, i in binds.items() if i < len(e_['fields'])}
                        stmts.append({'k': 'Expr', 'expr': rewrite(subst(some[0]['body'], m))})
                    return {'k': 'Block', 'stmts': stmts, 'expr': None, 'loc': x.get('loc'), 'ty': x.get('ty'), 'synthetic': 'unrolled-array-loop'}
        return {k_: (rewrite(v) if isinstance(v, (dict, list)) else v) for k_, v in x.items()}
    return rewrite(body)

def returns_as_match(body):
    """a copy of a unit function's body in which guard statements that leave early read as the branching they abbreviate:
        if let P = X { A; return; } REST      =>  match X { P => { A }, _ => { REST } }
        if C { A; return; } REST              =>  if C { A } else { REST }          (if !C { return; } REST  =>  if C { REST })
        if matches!(X, P) { T } else { E }    =>  match X { P => T, _ => E }
        match X { .., _ => match X { ARMS } } =>  match X { .., ARMS }             (X a plain read: variable, field, as_ref / deref of one)
    Only bare `return;` at the end of the guarded block is rewritten; anything else is left as written."""
    def peel(x):
        while isinstance(x, dict) and (x.get('k') in ('Use', 'NeverToAny') or (x.get('k') == 'Block' and not x.get('stmts') and x.get('expr') is not None)):
            x = x.get('source') if x['k'] != 'Block' else x['expr']
        return x
    def ends_with_bare_return(blk):
        """(statements before the return) if blk is a block whose last action is `return;` and which has no other return"""
        b = blk
        while b.get('k') in ('Use', 'NeverToAny'): b = b['source']
        if b.get('k') != 'Block': return None
        stmts = list(b['stmts']); tail = b.get('expr')
        last = None
        if tail is not None:
            last = peel(tail)
        elif stmts and stmts[-1]['k'] == 'Expr':
            last = peel(stmts[-1]['expr']); stmts = stmts[:-1]
        if last is None or last.get('k') != 'Return' or last.get('value') is not None: return None
        if any(y['k'] == 'Return' for st in stmts for y in walk(st.get('expr') or st.get('init') or {'k': 'Tuple', 'fields': []})): return None
        return {'k': 'Block', 'stmts': stmts, 'expr': None, 'loc': b.get('loc'), 'ty': b.get('ty'), 'synthetic': 'guard-body'}
    def plain_read(x):
        x = peel(x)
        while x.get('k') in ('Borrow', 'Deref'): x = peel(x['arg'])
        if x.get('k') in ('VarRef', 'UpvarRef'): return True
        if x.get('k') == 'Field': return plain_read(x['lhs'])
        if x.get('k') == 'Call' and len(x.get('args', [])) == 1 and callee_decl(x) in ('std::convert::AsRef::as_ref', 'std::ops::Deref::deref', 'std::borrow::Borrow::borrow'): return plain_read(x['args'][0])
        return False
    def matches_shape(c):
        """(X, P) when c is matches!(X, P)"""
        c = peel(c)
        if c.get('k') != 'Match' or len(c['arms']) != 2 or any(a.get('guard') is not None for a in c['arms']): return None
        def boolean(x):
            x = peel(x)
            return x.get('value') if x.get('k') == 'Literal' and isinstance(x.get('value'), bool) else None
        a0, a1 = c['arms']
        q = a1['pat']
        while q['k'] in ('Deref', 'DerefPattern'): q = q['sub']
        if boolean(a0['body']) is True and boolean(a1['body']) is False and q['k'] == 'Wild': return (c['scrutinee'], a0['pat'])
        return None
    def wild(loc): return {'k': 'Wild', 'loc': loc}
    def unit(loc): return {'k': 'Tuple', 'fields': [], 'loc': loc}
    def rw(x):
        if isinstance(x, list): return [rw(y) for y in x]
        if not isinstance(x, dict): return x
        if x.get('k') == 'Block':
            stmts = x['stmts']
            for i, st in enumerate(stmts):
                if st['k'] != 'Expr': continue
                y = peel(st['expr'])
                if y.get('k') != 'If' or y.get('else') is not None: continue
                guarded = ends_with_bare_return(y['then'])
                if guarded is None: continue
                rest = rw({'k': 'Block', 'stmts': stmts[i + 1:], 'expr': x.get('expr'), 'loc': x.get('loc'), 'ty': x.get('ty'), 'synthetic': 'after-guard'})
                c = y['cond']
                while c.get('k') == 'Use': c = c['source']
                if c.get('k') == 'Let':
                    tail = {'k': 'Match', 'loc': y.get('loc'), 'source': 'Normal', 'synthetic': 'guard-as-match', 'scrutinee': c['expr'],
                            'arms': [{'pat': c['pat'], 'guard': None, 'body': rw(guarded), 'loc': y.get('loc')}, {'pat': wild(y.get('loc')), 'guard': None, 'body': rest, 'loc': y.get('loc')}], 'ty': x.get('ty')}
                else:
                    neg = peel(c)
                    if neg.get('k') == 'Unary' and neg.get('op') == 'Not' and not guarded['stmts']:
                        tail = {'k': 'If', 'loc': y.get('loc'), 'cond': neg['arg'], 'then': rest, 'else': None, 'ty': x.get('ty'), 'synthetic': 'guard-as-if'}
                    else:
                        tail = {'k': 'If', 'loc': y.get('loc'), 'cond': c, 'then': rw(guarded), 'else': rest, 'ty': x.get('ty'), 'synthetic': 'guard-as-if'}
                out = dict(x); out['stmts'] = rw(stmts[:i]); out['expr'] = simplify(tail)
                return out
        return simplify({k_: (rw(v) if isinstance(v, (dict, list)) else v) for k_, v in x.items()})
    def simplify(x):
        if x.get('k') == 'If' and x['cond'].get('k') != 'Let':
            ms = matches_shape(x['cond'])
            if ms is not None:
                x = {'k': 'Match', 'loc': x.get('loc'), 'source': 'Normal', 'synthetic': 'matches-as-match', 'scrutinee': ms[0], 'ty': x.get('ty'),
                     'arms': [{'pat': ms[1], 'guard': None, 'body': x['then'], 'loc': x.get('loc')},
                              {'pat': wild(x.get('loc')), 'guard': None, 'body': x['else'] if x.get('else') is not None else unit(x.get('loc')), 'loc': x.get('loc')}]}
        if x.get('k') == 'Match' and x['arms'] and plain_read(x['scrutinee']):
            last = x['arms'][-1]
            q = last['pat']
            while q['k'] in ('Deref', 'DerefPattern'): q = q['sub']
            inner = peel(last['body'])
            if isinstance(inner, dict) and inner.get('k') == 'Block' and not inner.get('stmts') and inner.get('expr') is not None: inner = peel(inner['expr'])
            if q['k'] == 'Wild' and last.get('guard') is None and isinstance(inner, dict) and inner.get('k') == 'Match' and inner.get('source') in (None, 'Normal') and \
                    plain_read(inner['scrutinee']) and pp(peel(inner['scrutinee'])) == pp(peel(x['scrutinee'])):
                x = dict(x); x['arms'] = list(x['arms'][:-1]) + list(inner['arms'])
        return x
    return rw(body)

def baseline_roots(c, name, _seen=None):
    """the functions of the pinned tree on whose behalf the (new) function `name` runs: its callers, followed upwards through
    other new functions.  A function of the pinned tree is its own root.  None if a new function has no caller at all."""
    name = name.split('::{closure')[0]
    if name in baseline_fns(): return {name}
    _seen = _seen or set()
    if name in _seen: return set()
    _seen.add(name)
    if not hasattr(c, '_callers'):
        c._callers = {}
        for g, t in c.thir.items():
            gb = g.split('::{closure')[0]
            for e in walk(t['body']):
                h = None
                if e['k'] == 'Call': h = callee_name(e)
                elif e['k'] == 'ZstLiteral' and 'fn' in e: h = canon(e['fn'].get('res') or e['fn']['def'])
                if h and h in c.thir and h != gb: c._callers.setdefault(h, set()).add(gb)
    out = set()
    for g in c._callers.get(name, ()):
        out |= baseline_roots(c, g, _seen)
    return out

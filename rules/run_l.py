import sys, traceback
sys.path.insert(0,'/verif/rules')
from facts import *
from framework import Report
import engine_l
F=Facts(sys.argv[1])
R=Report('L')
for f in (lambda F,R: engine_l.rule_width(F,R,'n_queens_gen'), engine_l.rule_max_clique, engine_l.rule_random_graph):
    try: f(F,R)
    except Exception: traceback.print_exc()
print(R.counts)
print('obligations', R.obligations, 'discharged', R.discharged)
for v in R.violations: print('  VIOL', v.key,'|', v.msg[:400], v.loc)

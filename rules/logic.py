"""Propositional terms with linear-integer atoms, and an exhaustive validity checker.

Terms (tuples, hashable):
  ('c', bool)                      constant
  ('a', key)                       Boolean atom
  ('not', x) ('and', xs) ('or', xs) ('ite', c, a, b) ('iff', a, b)
  ('le0', lin) ('eq0', lin)        linear atoms over integer terms:  lin <= 0, lin == 0
  ('uf', fkey, lin)                uninterpreted Boolean function of one integer (closure params `cmp`)
  ('ufb', fkey, argkey, lin)       uninterpreted pointwise Boolean function of (opaque, integer)
Integer terms:  Lin objects: sum of coeff*var + const, var in
  ('int', name)  symbolic integer          ('ind', boolterm)  0/1 indicator of a Boolean term
  ('cnt', key)   count of true members of an opaque list
Validity is decided by exhaustive case analysis: Boolean atoms are split two ways, each distinct
normalised linear form gets an integer interval that is split at the constants it is compared
with (so `x<=0 & -x<=0 <=> x==0` is decided exactly for atoms over the same linear form; different
linear forms are treated as independent, which can only make the checker reject more).
No solver is involved; the search is a finite tree."""

from fractions import Fraction
import math

TRUE = ('c', True)
FALSE = ('c', False)

def const(b): return TRUE if b else FALSE
def atom(key): return ('a', key)

def Not(x):
    if x[0] == 'c': return const(not x[1])
    if x[0] == 'not': return x[1]
    return ('not', x)

def And(*xs):
    out = []
    for x in xs:
        if x[0] == 'c':
            if not x[1]: return FALSE
            continue
        if x[0] == 'and': out.extend(x[1])
        else: out.append(x)
    if not out: return TRUE
    if len(out) == 1: return out[0]
    return ('and', tuple(out))

def Or(*xs):
    out = []
    for x in xs:
        if x[0] == 'c':
            if x[1]: return TRUE
            continue
        if x[0] == 'or': out.extend(x[1])
        else: out.append(x)
    if not out: return FALSE
    if len(out) == 1: return out[0]
    return ('or', tuple(out))

def Ite(c, a, b):
    if c[0] == 'c': return a if c[1] else b
    if a == b: return a
    return ('ite', c, a, b)

def Iff(a, b):
    if a == b: return TRUE
    if a[0] == 'c': return b if a[1] else Not(b)
    if b[0] == 'c': return a if b[1] else Not(a)
    return ('iff', a, b)

def Imp(a, b): return Or(Not(a), b)
def Xor(a, b): return Not(Iff(a, b))

class Lin:
    """Linear integer term; immutable."""
    __slots__ = ('terms', 'k')
    def __init__(self, terms=None, k=0):
        self.terms = {v: c for v, c in (terms or {}).items() if c != 0}
        self.k = k
    @staticmethod
    def const(k): return Lin({}, k)
    @staticmethod
    def var(v): return Lin({v: 1}, 0)
    def __add__(self, o):
        if isinstance(o, int): return Lin(self.terms, self.k + o)
        t = dict(self.terms)
        for v, c in o.terms.items(): t[v] = t.get(v, 0) + c
        return Lin(t, self.k + o.k)
    def __neg__(self): return Lin({v: -c for v, c in self.terms.items()}, -self.k)
    def __sub__(self, o):
        if isinstance(o, int): return Lin(self.terms, self.k - o)
        return self + (-o)
    def scale(self, n): return Lin({v: c * n for v, c in self.terms.items()}, self.k * n)
    def is_const(self): return not self.terms
    def key(self):
        return (tuple(sorted(self.terms.items(), key=repr)), self.k)
    def __repr__(self):
        parts = []
        for v, c in sorted(self.terms.items(), key=repr):
            parts.append(('%+d*' % c if c not in (1, -1) else ('+' if c == 1 else '-')) + show_var(v))
        if self.k or not parts: parts.append('%+d' % self.k)
        return ''.join(parts).lstrip('+')
    def __eq__(self, o): return isinstance(o, Lin) and self.key() == o.key()
    def __hash__(self): return hash(self.key())

def show_var(v):
    if v[0] == 'int': return str(v[1])
    if v[0] == 'cnt': return 'cnt(%s)' % show_key(v[1])
    if v[0] == 'ind': return '[%s]' % show(v[1])
    return repr(v)

def show_key(k):
    if isinstance(k, tuple):
        if k and k[0] == 'p': return str(k[1])
        if k and k[0] == 'ch': return '%s.%s' % (show_key(k[1]), k[2])
        if k and k[0] == 'chv': return '%s.v' % show_key(k[1])
        if k and k[0] == 'hd': return 'head(%s)' % show_key(k[1])
        if k and k[0] == 'tl': return 'tail(%s)' % show_key(k[1])
        if k and k[0] == 'app': return '%s(%s)' % (k[1].split('::')[-1], ', '.join(show_key(x) for x in k[2:]))
        if k and k[0] == 'leaf': return 'True' if k[1] else 'False'
        if k and k[0] == 'fld': return '%s.%s' % (show_key(k[1]), k[3])
        if k and k[0] == 'den': return '[[%s]]%s' % (show_key(k[1]), '' if k[2] is None else '|s=%d' % k[2])
        if k and k[0] == 'symv': return '<%s>' % show_key(k[1])
        if k and k[0] == 'map': return 'map(%s, %s)' % (show_key(k[1]), show_key(k[2]))
        return '(' + ', '.join(show_key(x) for x in k) + ')'
    if isinstance(k, Lin): return repr(k)
    return str(k)

def show(t):
    k = t[0]
    if k == 'c': return '1' if t[1] else '0'
    if k == 'a': return show_key(t[1])
    if k == 'not': return '~' + show(t[1])
    if k == 'and': return '(' + ' & '.join(show(x) for x in t[1]) + ')'
    if k == 'or': return '(' + ' | '.join(show(x) for x in t[1]) + ')'
    if k == 'ite': return 'ite(%s, %s, %s)' % (show(t[1]), show(t[2]), show(t[3]))
    if k == 'iff': return '(%s <-> %s)' % (show(t[1]), show(t[2]))
    if k == 'le0': return '(%r <= 0)' % (t[1],)
    if k == 'eq0': return '(%r == 0)' % (t[1],)
    if k == 'uf': return '%s(%r)' % (show_key(t[1]), t[2])
    if k == 'ufb': return '%s(%s, %r)' % (show_key(t[1]), show_key(t[2]), t[3])
    return repr(t)

class NeedAtom(Exception):
    def __init__(self, key): self.key = key

class NeedSplit(Exception):
    def __init__(self, form, point, kind): self.form, self.point, self.kind = form, point, kind

class Asg:
    """Assignment: Boolean atoms -> bool, linear forms -> integer interval [lo, hi] (None = infinite)."""
    def __init__(self, b=None, iv=None):
        self.b = dict(b or {})
        self.iv = dict(iv or {})
    def copy(self): return Asg(self.b, self.iv)
    def describe(self):
        out = {}
        for k, v in self.b.items(): out[show_key(k) if not (isinstance(k, tuple) and k and k[0] in ('uf', 'ufb')) else show(k)] = int(v)
        for f, (lo, hi) in self.iv.items():
            out[repr(Lin(dict(f), 0))] = '[%s, %s]' % ('-inf' if lo is None else lo, '+inf' if hi is None else hi)
        return out

def _norm_form(lin):
    """Split a non-constant Lin into (canonical form key, sign, const): lin = sign*g*form + k with the
    form's leading coefficient positive and coefficients coprime.  Returns (formkey, mult, k) where
    lin = mult*FORM + k."""
    items = sorted(lin.terms.items(), key=repr)
    g = 0
    for _, c in items: g = math.gcd(g, abs(c))
    lead = items[0][1]
    s = 1 if lead > 0 else -1
    mult = s * g
    form = tuple((v, c // mult) for v, c in items)
    return form, mult, lin.k

def eval_int(lin, asg):
    """Evaluate indicator variables; returns a Lin without ('ind', .) variables."""
    out = Lin({}, lin.k)
    for v, c in lin.terms.items():
        if v[0] == 'ind':
            if ev(v[1], asg): out = out + c
        else:
            out = out + Lin({v: c}, 0)
    return out

def _cmp_form(lin, asg, op):
    """Decide `lin <= 0` (op 'le') or `lin == 0` (op 'eq') under asg; lin has no indicators."""
    if lin.is_const():
        return lin.k <= 0 if op == 'le' else lin.k == 0
    form, mult, k = _norm_form(lin)
    lo, hi = asg.iv.get(form, (None, None))
    # lin = mult*t + k  with t in [lo,hi]
    if op == 'eq':
        # mult*t + k == 0  <=> t == -k/mult
        if (-k) % mult != 0: return False
        p = (-k) // mult
        if (lo is not None and p < lo) or (hi is not None and p > hi): return False
        if lo == p and hi == p: return True
        raise NeedSplit(form, p, 'eq')
    # le: mult*t + k <= 0
    if mult > 0:
        # t <= floor(-k/mult)
        p = math.floor(Fraction(-k, mult))
        if hi is not None and hi <= p: return True
        if lo is not None and lo > p: return False
        raise NeedSplit(form, p, 'le')      # split into [lo,p] and [p+1,hi]
    else:
        # t >= ceil(-k/mult)   (dividing by negative flips)
        p = math.ceil(Fraction(-k, mult))
        if lo is not None and lo >= p: return True
        if hi is not None and hi < p: return False
        raise NeedSplit(form, p - 1, 'le')  # split into [lo,p-1] and [p,hi]

def ev(t, asg):
    k = t[0]
    if k == 'c': return t[1]
    if k == 'a':
        if t[1] in asg.b: return asg.b[t[1]]
        raise NeedAtom(t[1])
    if k == 'not': return not ev(t[1], asg)
    if k == 'and':
        for x in t[1]:
            if not ev(x, asg): return False
        return True
    if k == 'or':
        for x in t[1]:
            if ev(x, asg): return True
        return False
    if k == 'ite': return ev(t[2], asg) if ev(t[1], asg) else ev(t[3], asg)
    if k == 'iff': return ev(t[1], asg) == ev(t[2], asg)
    if k == 'le0': return _cmp_form(eval_int(t[1], asg), asg, 'le')
    if k == 'eq0': return _cmp_form(eval_int(t[1], asg), asg, 'eq')
    if k == 'uf':
        lin = eval_int(t[2], asg)
        key = ('uf', t[1], lin)
        if key in asg.b: return asg.b[key]
        raise NeedAtom(key)
    if k == 'ufb':
        lin = eval_int(t[3], asg)
        key = ('ufb', t[1], t[2], lin)
        if key in asg.b: return asg.b[key]
        raise NeedAtom(key)
    raise ValueError('bad term %r' % (t,))

class Budget(Exception):
    pass

def find_counterexample(assumptions, goal, max_leaves=200000):
    """Return None if (AND assumptions) => goal holds under every assignment, else a falsifying Asg.
    Also returns the number of leaves (complete case splits) visited."""
    leaves = 0
    stack = [Asg()]
    while stack:
        asg = stack.pop()
        try:
            ok = True
            for a in assumptions:
                if not ev(a, asg):
                    ok = False
                    break
            if ok:
                if not ev(goal, asg):
                    return asg, leaves + 1
            leaves += 1
            if leaves > max_leaves: raise Budget()
        except NeedAtom as na:
            for v in (True, False):
                a2 = asg.copy(); a2.b[na.key] = v; stack.append(a2)
        except NeedSplit as ns:
            lo, hi = asg.iv.get(ns.form, (None, None))
            p = ns.point
            if ns.kind == 'le':
                parts = [(lo, p), (p + 1, hi)]
            else:
                parts = [(lo, p - 1), (p, p), (p + 1, hi)]
            for (l, h) in parts:
                if l is not None and h is not None and l > h: continue
                if lo is not None and h is not None and h < lo: continue
                if hi is not None and l is not None and l > hi: continue
                a2 = asg.copy(); a2.iv[ns.form] = (l, h); stack.append(a2)
    return None, leaves

def atoms_of(t, acc=None):
    if acc is None: acc = set()
    k = t[0]
    if k == 'a': acc.add(t[1])
    elif k == 'not': atoms_of(t[1], acc)
    elif k in ('and', 'or'):
        for x in t[1]: atoms_of(x, acc)
    elif k == 'ite':
        for x in t[1:]: atoms_of(x, acc)
    elif k == 'iff':
        atoms_of(t[1], acc); atoms_of(t[2], acc)
    elif k in ('le0', 'eq0'):
        for v in t[1].terms:
            if v[0] == 'ind': atoms_of(v[1], acc)
            else: acc.add(v)
    elif k == 'uf':
        acc.add(('uf', t[1]))
        for v in t[2].terms:
            if v[0] == 'ind': atoms_of(v[1], acc)
            else: acc.add(v)
    elif k == 'ufb':
        acc.add(('ufb', t[1], t[2]))
        for v in t[3].terms:
            if v[0] == 'ind': atoms_of(v[1], acc)
            else: acc.add(v)
    return acc

if __name__ == '__main__':
    # self-test of the decision procedure
    a, b, c = atom('a'), atom('b'), atom('c')
    assert find_counterexample([], Iff(And(a, Or(b, c)), Or(And(a, b), And(a, c))))[0] is None
    assert find_counterexample([], Iff(And(a, b), Or(a, b)))[0] is not None
    x = Lin.var(('int', 'x'))
    assert find_counterexample([], Iff(And(('le0', x), ('le0', -x)), ('eq0', x)))[0] is None
    assert find_counterexample([], Iff(('le0', x - 1), Not(('le0', -x + 2))))[0] is None   # x<=1 <=> !(x>=2)
    assert find_counterexample([], Iff(('le0', x - 1), Not(('le0', -x + 1))))[0] is not None
    n = Lin.var(('int', 'n')); cn = Lin.var(('cnt', 'r')); f = atom('first')
    lhs = Ite(f, ('uf', 'cmp', n - 1 - cn), ('uf', 'cmp', n - cn))
    rhs = ('uf', 'cmp', n - (Lin.var(('ind', f)) + cn))
    assert find_counterexample([], Iff(lhs, rhs))[0] is None
    rhs2 = ('uf', 'cmp', n - cn)
    assert find_counterexample([], Iff(lhs, rhs2))[0] is not None
    print('logic self-test ok')

#!/bin/bash
# dev helper: mut.sh '<sed expr>' <file> -- <run_s args...>   (scratch copy of /repo, extract, run)
set -e
EXPR=$1; FILE=$2; shift 3
rm -rf /tmp/mut && mkdir -p /tmp/mut
rsync -a --exclude target --exclude .git /repo/ /tmp/mut/repo/
sed -i "$EXPR" /tmp/mut/repo/$FILE
(cd /tmp/mut/repo && diff -u /repo/$FILE $FILE | head -20 || true)
/verif/extract.sh /tmp/mut/repo /tmp/mut/facts
python3 /verif/rules/${RUNNER:-run_s.py} /tmp/mut/facts "$@"

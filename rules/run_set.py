import sys, time
sys.path.insert(0, '/verif/rules')
from facts import Facts
from engine import Engine
from absint import Undecidable
import spec_bdd, spec_set
F = Facts(sys.argv[1])
E = Engine(F)
spec_bdd.install(E); spec_set.install(E)
E.merge_ifs = True; spec_set.mark_inline(E)
for n in sys.argv[2:] or spec_set.SET_FNS:
    full = spec_set.S_ + n
    try:
        res = E.explore(full)
    except Undecidable as u:
        print('UNDECIDABLE', n, u); continue
    nob = bad = 0
    for (I, params, r, obls) in res:
        for o in obls:
            nob += 1
            if not o.ok:
                bad += 1; print('  FAIL', n, '|', o.label, '| world:', o.world, '|', str(o.detail)[:500], o.loc)
    print('%-12s worlds=%d obligations=%d failed=%d' % (n, len(res), nob, bad))

import sys
sys.path.insert(0,'/verif/rules')
from facts import *
from framework import Report
import engine_a, engine_t
F=Facts(sys.argv[1])
R=Report('A')
engine_a.rule_A1(F,R); engine_a.rule_helpers(F,R)
ex=engine_a.rule_A2(F,R)
engine_a.rule_A3(F,R)
engine_t.rule_tokens(F,R,'all'); engine_t.rule_operator_tables(F,R); engine_t.rule_regex(F,R); engine_t.rule_tte(F,R)
print('obligations', R.obligations, 'discharged', R.discharged)
for v in R.violations: print('  VIOL', v.key,'|', v.msg[:300], v.loc)

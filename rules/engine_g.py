"""Engine G: RefCell guard regions on MIR.
For every guard produced by RefCell::borrow / borrow_mut, its live range (until the guard is dropped) must not contain
 G1  a conflicting access (borrow_mut/replace/swap/take under any guard; borrow under a mutable guard) to a cell that MAY
     ALIAS the guarded one: same field of the same struct type, unless one of the two owners is a function-local object;
 G2  a call to a local function that (transitively) makes such an access."""

from facts import canon
from mirlib import *

CELL = 'std::cell::RefCell::'
READ = ('borrow', 'try_borrow')
WRITE = ('borrow_mut', 'replace', 'swap', 'take', 'replace_with', 'try_borrow_mut', 'set', 'update')

def cell_calls(body):
    """yield (block index, terminator, method, receiver operand)"""
    for bi, b in enumerate(body['blocks']):
        if b['cleanup']: continue
        t = b['term']
        if t['k'] == 'Call':
            c = callee(t) or ''
            if c.startswith(CELL) and t['args']:
                yield bi, t, c[len(CELL):], t['args'][0]

def summarise_access(F):
    """per local function: set of (struct, fields, mode) cell accesses it may perform, transitively"""
    direct = {}; calls = {}
    for c in F.crates:
        if c.kind == 'test': continue
        for name, body in c.mir.items():
            defs = local_defs(body)
            acc = set()
            for bi, t, m, recv in cell_calls(body):
                if m not in READ and m not in WRITE: continue
                pl = resolve_place(body, defs, recv)
                if pl is None: continue
                sname, fields = base_struct(body, pl)
                acc.add((sname, fields, 'w' if m in WRITE else 'r'))
            direct.setdefault(name, set()).update(acc)
            cs = set()
            for b in body['blocks']:
                t = b['term']
                if t['k'] == 'Call':
                    for x in (callee(t), callee_decl(t)):
                        if x and x.startswith('rsbdd'): cs.add(x)
                for s in b['stmts']:
                    if s['k'] == 'Assign' and s['rv'].get('k') == 'Aggregate' and s['rv'].get('agg') == 'Closure':
                        cs.add(canon(s['rv']['def']))
            calls.setdefault(name, set()).update(cs)
    summ = {k: set(v) for k, v in direct.items()}
    changed = True
    while changed:
        changed = False
        for f, cs in calls.items():
            for g in cs:
                add = summ.get(g, set()) - summ[f]
                if add:
                    summ[f] |= add; changed = True
    return summ

def is_fresh_local_owner(body, defs, place):
    """the cell's owner is an object created in this function (a by-value local that is not a parameter)"""
    l = place['local']
    if 0 < l <= body['arg_count']: return False
    # by-value struct local (not reached through a Deref of a reference obtained elsewhere)
    ty = body['locals'][l]['ty']
    if ty.get('k') in ('Ref', 'RawPtr'): return False
    first = place['proj'][0] if place['proj'] else None
    if first == 'Deref': return False
    return True

def same_owner(p, q):
    def norm(pl): return (pl['local'], tuple(repr(x) for x in pl['proj']))
    return norm(p) == norm(q)

def guard_regions(F, R, crates=None):
    summ = summarise_access(F)
    for c in F.crates:
        if c.kind == 'test': continue
        for name, body in c.mir.items():
            defs = local_defs(body)
            for bi, t, m, recv in cell_calls(body):
                if m not in ('borrow', 'borrow_mut'): continue
                g = t['dest']['local']
                gp = resolve_place(body, defs, recv)
                if gp is None: continue
                gs, gf = base_struct(body, gp)
                gmode = 'w' if m == 'borrow_mut' else 'r'
                R.count('G:guards')
                # forward walk of the live range
                seen = set(); work = [t['target']] if t.get('target') is not None else []
                conflicts = []
                npoints = 0
                while work:
                    b = work.pop()
                    if b in seen: continue
                    seen.add(b)
                    blk = body['blocks'][b]
                    dead = False
                    for s in blk['stmts']:
                        if s['k'] == 'StorageDead' and s['local'] == g: dead = True
                    if dead: continue
                    tt = blk['term']
                    if tt['k'] == 'Drop' and tt['place']['local'] == g and not tt['place']['proj']:
                        continue
                    if tt['k'] == 'Call':
                        npoints += 1
                        cn = callee(tt) or ''
                        if cn.startswith(CELL) and tt['args']:
                            mm = cn[len(CELL):]
                            if mm in READ or mm in WRITE:
                                qp = resolve_place(body, defs, tt['args'][0])
                                if qp is not None:
                                    qs, qf = base_struct(body, qp)
                                    mode = 'w' if mm in WRITE else 'r'
                                    if (qs, qf) == (gs, gf) and (mode == 'w' or gmode == 'w'):
                                        if same_owner(gp, qp):
                                            conflicts.append(('G1', 'RefCell::%s on %s while a guard on the same cell is alive' % (mm, place_str(F, body, qp)), tt['loc'], mm, qp))
                                        elif not (is_fresh_local_owner(body, defs, gp) or is_fresh_local_owner(body, defs, qp)):
                                            conflicts.append(('G1', 'RefCell::%s on %s while a guard on %s is alive: the two may be the same cell (e.g. the same set passed as both operands)' % (
                                                mm, place_str(F, body, qp), place_str(F, body, gp)), tt['loc'], mm, qp))
                        else:
                            for x in (cn, callee_decl(tt)):
                                if x and x.startswith('rsbdd') and x in summ:
                                    for (qs, qf, mode) in summ[x]:
                                        if (qs, qf) == (gs, gf) and (mode == 'w' or gmode == 'w'):
                                            conflicts.append(('G2', 'call to %s, which may %s the %s cell, while a %s guard on %s is alive' % (
                                                x, 'write' if mode == 'w' else 'borrow', '.'.join(map(str, qf)), 'mutable' if gmode == 'w' else 'shared', place_str(F, body, gp)), tt['loc'], x, None))
                                    break
                    for s in succs(blk):
                        if not body['blocks'][s]['cleanup']: work.append(s)
                R.count('G:calls-inside-guard-regions', npoints)
                R.obligation(not conflicts, 'G %s %s %s' % (name, m, place_str(F, body, gp)))
                seenk = set()
                for (rule, msg, loc, what, qp) in conflicts:
                    key = '%s / %s / %s under guard on %s' % (name, rule, what, place_str(F, body, gp))
                    if key in seenk: continue
                    seenk.add(key)
                    yield key, rule, msg, loc, (gs, gf)

def key_type_impls_clean(F, R):
    """G2 for code run by HashMap::get/insert under the table borrow: Hash/Eq/Clone of the key types touch no RefCell"""
    summ = summarise_access(F)
    lib = F.lib()
    n = 0
    for name in lib.mir:
        if any(name.startswith(p) for p in ('rsbdd::<bdd::BDD as std::hash::Hash>', 'rsbdd::<bdd::BDD as std::cmp::PartialEq>', 'rsbdd::<bdd::BDD as std::clone::Clone>',
                                            'rsbdd::<symbols::NamedSymbol as std::hash::Hash>', 'rsbdd::<symbols::NamedSymbol as std::cmp::PartialEq>',
                                            'rsbdd::<symbols::NamedSymbol as std::clone::Clone>', 'rsbdd::<symbols::NamedSymbol as std::cmp::Ord>')):
            n += 1
            bad = [a for a in summ.get(name, ()) if a[0] == 'rsbdd::bdd::BDDEnv']
            R.obligation(not bad, 'G2 key impl ' + name)
            if bad:
                R.violation('%s / G2 / table access in key impl' % name, 'G2', 'Hash/Eq/Clone of a table key re-enters the unique table while it is borrowed')
    R.count('G2:key-impls', n)

# ------------------------------------------------------------------------------------------------ E7: query purity (receiver-sensitive)
def param_cell_writes(F):
    """fn -> set of parameter locals (1-based) whose RefCell fields the function may write, transitively through calls"""
    direct = {}; passes = {}
    for c in F.crates:
        if c.kind == 'test': continue
        for name, body in c.mir.items():
            defs = local_defs(body)
            w = set(); ps = []
            for bi, b in enumerate(body['blocks']):
                if b['cleanup']: continue
                t = b['term']
                if t['k'] != 'Call': continue
                cn = callee(t) or ''
                if cn.startswith(CELL) and cn[len(CELL):] in WRITE and t['args']:
                    pl = resolve_place(body, defs, t['args'][0])
                    if pl is not None and 0 < pl['local'] <= body['arg_count']: w.add(pl['local'])
                else:
                    for x in (cn, callee_decl(t)):
                        if x and x.startswith('rsbdd'):
                            for j, a in enumerate(t['args']):
                                pl = resolve_place(body, defs, a) if a.get('k') in ('Copy', 'Move') else None
                                if pl is not None and 0 < pl['local'] <= body['arg_count'] and all(p == 'Deref' for p in pl['proj']):
                                    ps.append((x, j + 1, pl['local'], t['loc']))
                            break
            direct[name] = w; passes[name] = ps
    summ = {k: set(v) for k, v in direct.items()}
    changed = True
    while changed:
        changed = False
        for f, ps in passes.items():
            for (g, j, k, loc) in ps:
                if j in summ.get(g, ()) and k not in summ[f]:
                    summ[f].add(k); changed = True
    return summ, passes

def rule_E7(F, R):
    lib = F.lib()
    summ, passes = param_cell_writes(F)
    for name, f in sorted(lib.fns.items()):
        if not name.startswith('rsbdd::set::BDDSet::'): continue
        ins = f['inputs']
        if not ins or not (ins[0].get('k') == 'Ref' and ins[0]['to'].get('k') == 'Adt' and canon(ins[0]['to']['def']) == 'rsbdd::set::BDDSet'): continue
        out = f['output']
        returns_self = out.get('k') == 'Ref' and out['to'].get('k') == 'Adt' and canon(out['to']['def']) == 'rsbdd::set::BDDSet'
        R.count('E7:set-methods')
        if returns_self: continue
        R.count('E7:query-methods')
        bad = 1 in summ.get(name, ())
        R.obligation(not bad, 'E7 ' + name)
        if bad:
            via = [(g, loc) for (g, j, k, loc) in passes.get(name, []) if k == 1 and j in summ.get(g, ())]
            R.violation('%s / E7 / writes receiver' % name, 'E7', 'the query %s modifies the set it is asked of%s' % (
                name.split('::')[-1], (' through ' + via[0][0].split('::')[-1]) if via else ''), via[0][1] if via else None)

"""Specifications of BDDSet (src/set.rs), property C19.  cell = self.bdd.
  empty/universe: cell := 0/1          insert(e): cell := cell or m(e), m(e) = AND_{i<bits} (categorize(e,i) ? <i> : not <i>)
  union/intersect/complement(o): cell := cell or o / cell and o / cell and not o; o's cell unchanged; legal when o is self
  contains(e): returns [cell and m(e) is structurally m(e)], writes nothing"""

from logic import *
from absint import *
from engine import FnSpec, Obl
from spec_bdd import B, D, post_no_panic

S_ = 'rsbdd::set::BDDSet::'
SET = 'rsbdd::set::BDDSet'

def cell_key(setterm): return ('fld', setterm, '', 'bdd')
def old(setterm): return ('cellval', cell_key(setterm))

def install(E):
    E.add(FnSpec('HOST_ITE', den=lambda I, a, b=None: Ite(a[0][1], D(I, a[1], b), D(I, a[2], b)), origins=lambda I, a: I.origins(a[1]) | I.origins(a[2])))
    def fold_den(I, a, b=None):
        init, it = a
        return And(D(I, init, b), atom(('forall-members', it)))
    E.add(FnSpec('FOLD_AND', den=fold_den, origins=lambda I, a: {('list', a[1])}))

    def writes(I, root):
        return [ev for ev in I.events if ev[0] == 'cell_write' and I.descends(ev[1], root) is False and False] or [ev for ev in I.events if ev[0] == 'cell_write']

    def final_cell(I, setterm):
        v = I.cells.get(cell_key(setterm))
        return v.term if isinstance(v, VBdd) else None

    def binop_post(name, f):
        def post(I, params, res):
            o = post_no_panic(I, res, 'S')
            if o: return o
            me, other = params[0].term, params[1].term
            out = []
            fin = final_cell(I, me)
            ws = [ev for ev in I.events if ev[0] == 'cell_write']
            out.append(I.E.check_true(I, fin is not None and len(ws) >= 1 and all(w[1] == cell_key(me) for w in ws), 'E7: %s writes the receiver\'s cell and no other cell' % name,
                                      {'writes': [show_key(w[1]) for w in ws]}))
            if fin is not None:
                out.append(I.E.check_valid(I, lambda b: Iff(D(I, fin, b), f(D(I, old(me), b), D(I, old(other), b))),
                                           'S: %s: new content == %s of the two old contents (new = %s)' % (name, name, show_key(fin))))
            out.append(I.E.check_true(I, isinstance(res, VData) and res.term == me, 'S: %s returns the receiver' % name, {'got': repr(res)}))
            return out
        return post
    E.add(FnSpec(S_ + 'union', post=binop_post('union', lambda a, b: Or(a, b))))
    E.add(FnSpec(S_ + 'intersect', post=binop_post('intersect', lambda a, b: And(a, b))))
    E.add(FnSpec(S_ + 'complement', post=binop_post('complement (set difference)', lambda a, b: And(a, Not(b)))))

    def const_post(name, val):
        def post(I, params, res):
            o = post_no_panic(I, res, 'S')
            if o: return o
            me = params[0].term
            fin = final_cell(I, me)
            return [I.E.check_true(I, fin == ('leaf', val), 'S: %s sets the content to the constant %s' % (name, val), {'got': show_key(fin) if fin else None})]
        return post
    E.add(FnSpec(S_ + 'empty', post=const_post('empty', False)))
    E.add(FnSpec(S_ + 'universe', post=const_post('universe', True)))

    def minterm_checks(I, label_prefix, bits_term, e_term):
        """the fold events of this run build m(e): range 0..bits, member i -> categorize(e,i) ? var i : not var i, init true, combine = and"""
        out = []
        folds = [ev for ev in I.events if ev[0] == 'fold']
        ok = len(folds) == 1
        out.append(I.E.check_true(I, ok, label_prefix + 'exactly one fold builds the element\'s minterm', {'folds': len(folds)}))
        if not ok: return out, None
        _, init, it, comb, loc = folds[0]
        out.append(I.E.check_true(I, init == ('leaf', True), label_prefix + 'minterm fold starts from the constant true', {'got': show_key(init)}))
        rng_ok = it[0] == 'map' and it[2][0] == 'range' and it[2][1] == ('lin', Lin.const(0)) and it[2][2] == bits_term
        out.append(I.E.check_true(I, rng_ok, label_prefix + 'one literal per bit position 0..bits', {'iterating': show_key(it[2]) if it[0] == 'map' else show_key(it)}))
        if it[0] == 'map':
            member = it[1]
            i = ('lin', Lin.var(('int', show_key(('elem', it[2])))))
            cat = atom(('categorize', e_term, i))
            lit = I.symden(i, None)
            out.append(I.E.check_valid(I, lambda b: Iff(D(I, member, b), Ite(cat, lit, Not(lit))),
                                       label_prefix + 'member i of the minterm is (categorize(e,i) ? <i> : not <i>) (member = %s)' % show_key(member)))
        return out, ('app', 'FOLD_AND', init, it)

    def insert_post(I, params, res):
        o = post_no_panic(I, res, 'S')
        if o: return o
        me, e = params[0].term, params[1]
        out, m = minterm_checks(I, 'S: insert: ', ('lin', Lin.var(('int', show_key(('fld', me, '', 'bits'))))), I.term_of(e))
        fin = final_cell(I, me)
        ws = [ev for ev in I.events if ev[0] == 'cell_write']
        out.append(I.E.check_true(I, fin is not None and len(ws) >= 1 and all(w[1] == cell_key(me) for w in ws), 'E7: insert writes the receiver\'s cell and no other cell', {'writes': [show_key(w[1]) for w in ws]}))
        if fin is not None and m is not None:
            out.append(I.E.check_valid(I, lambda b: Iff(D(I, fin, b), Or(D(I, old(me), b), D(I, m, b))), 'S: insert: new content == old content or minterm(e) (new = %s)' % show_key(fin)))
        return out
    E.add(FnSpec(S_ + 'insert', post=insert_post))

    def contains_post(I, params, res):
        o = post_no_panic(I, res, 'S')
        if o: return o
        me, e = params[0].term, params[1]
        out, m = minterm_checks(I, 'S: contains: ', ('lin', Lin.var(('int', show_key(('fld', me, '', 'bits'))))), I.term_of(e))
        ws = [ev for ev in I.events if ev[0] == 'cell_write' and I.descends(ev[1], me)]
        out.append(I.E.check_true(I, not ws, 'E7: the query contains() writes nothing to the set it is asked of', {'writes': [show_key(w[1]) for w in ws]}, loc=ws[0][3] if ws else None))
        if m is not None:
            AND = B + 'and'; OR = B + 'or'
            single = ('app', OR, ('leaf', False), m)
            cands = [('app', AND, old(me), single), ('app', AND, single, old(me))]
            dec = None
            for c in cands:
                k = ('beq',) + tuple(sorted((c, single), key=repr))
                if k in I.W.dec: dec = I.W.dec[k]
            got = res.t[1] if isinstance(res, VBool) and res.t[0] == 'c' else None
            out.append(I.E.check_true(I, dec is not None and got == dec, 'S: contains(e) is the structural test (content and {e}) == {e}', {'decision': dec, 'returned': repr(res)}))
        return out
    E.add(FnSpec(S_ + 'contains', post=contains_post))

def mark_inline(E):
    for n in SET_FNS: E.specs[S_ + n].inline_calls = True

SET_FNS = ['union', 'intersect', 'complement', 'empty', 'universe', 'insert', 'contains']

"""Engine N: affine loop-nest analysis of n_queens_gen (property C15).

Each constraint of the emitted formula is produced by a two-level loop nest `for i in a..b { "[" for j in c..d { "v_{E(i,j,n)}," } "] OP 1 &" }`.
The nests are read from THIR; the index expression E is brought to polynomial normal form and decomposed as E = R*n + C with
0 <= R, C < n proved (Fourier-Motzkin over the rationals, which is sound for the integers) from the loop bounds.  Every list must be
a full line of the board (row, column, diagonal R-C constant, anti-diagonal R+C constant): maximal (the cells just outside the j-range are
off the board), and the families must cover every row and column (= 1) and every diagonal and anti-diagonal (<= 1) exactly once, for
all n >= 1.  Nothing is instantiated at concrete n."""

from fractions import Fraction
from facts import canon, walk, callee_name, callee_decl, pp
from engine_e import strip
from engine_x import unwrap_pat, root_var

class NUndec(Exception):
    def __init__(self, msg, loc=None):
        Exception.__init__(self, msg); self.msg, self.loc = msg, loc

# ---------------------------------------------------------------- polynomials in i, j, n  (dict: (ei, ej, en) -> int)
def P(c=0): return {(0, 0, 0): c} if c else {}
def PV(v): return {{'i': (1, 0, 0), 'j': (0, 1, 0), 'n': (0, 0, 1)}[v]: 1}
def padd(a, b, s=1):
    out = dict(a)
    for k, v in b.items(): out[k] = out.get(k, 0) + s * v
    return {k: v for k, v in out.items() if v != 0}
def pmul(a, b):
    out = {}
    for (a1, a2, a3), x in a.items():
        for (b1, b2, b3), y in b.items():
            k = (a1 + b1, a2 + b2, a3 + b3); out[k] = out.get(k, 0) + x * y
    return {k: v for k, v in out.items() if v != 0}
def pshow(p):
    if not p: return '0'
    out = []
    for (a, b, c), v in sorted(p.items(), reverse=True):
        m = '*'.join(x for x in (('i^%d' % a if a > 1 else 'i' if a else ''), ('j^%d' % b if b > 1 else 'j' if b else ''), ('n^%d' % c if c > 1 else 'n' if c else '')) if x)
        out.append(('%+d' % v) + ('*' + m if m else '') if (abs(v) != 1 or not m) else ('+' if v > 0 else '-') + m)
    return ''.join(out).lstrip('+')
def is_affine(p): return all(sum(k) <= 1 for k in p)
def coef(p, var): return p.get({'i': (1, 0, 0), 'j': (0, 1, 0), 'n': (0, 0, 1)}[var], 0)
def subst_j(p, q):
    """substitute j := q (affine) in affine p"""
    out = {k: v for k, v in p.items() if k[1] == 0}
    cj = coef(p, 'j')
    return padd(out, {k: v * cj for k, v in q.items()})

# ---------------------------------------------------------------- Fourier-Motzkin
def affine_vec(p):
    if not is_affine(p): raise NUndec('non-affine expression %s in a bound' % pshow(p))
    return {'i': Fraction(coef(p, 'i')), 'j': Fraction(coef(p, 'j')), 'n': Fraction(coef(p, 'n')), '1': Fraction(p.get((0, 0, 0), 0))}

def infeasible(cons):
    """cons: list of affine polys p meaning p >= 0.  True if no rational solution exists."""
    rows = [affine_vec(p) for p in cons]
    for var in ('j', 'i', 'n'):
        pos = [r for r in rows if r[var] > 0]; neg = [r for r in rows if r[var] < 0]; zero = [r for r in rows if r[var] == 0]
        new = list(zero)
        for a in pos:
            for b in neg:
                fa, fb = -b[var], a[var]
                new.append({k: fa * a[k] + fb * b[k] for k in a})
        rows = new
        if len(rows) > 4000: raise NUndec('Fourier-Motzkin blow-up')
    return any(r['1'] < 0 for r in rows)

def implies_ge0(cons, goal):
    """cons => goal >= 0 over the integers (proved through the rational relaxation of cons & goal <= -1)"""
    neg = padd({k: -v for k, v in goal.items()}, P(-1))
    return infeasible(cons + [neg])

# ---------------------------------------------------------------- extraction
LETS = [{}]      # immutable single-binding lets of the function under analysis: var -> initialiser (hoisted sub-expressions such as `let step = n + 1`)

def collect_lets(t):
    out = {}
    for b in walk(t['body']):
        if b['k'] != 'Block': continue
        for st in b['stmts']:
            if st['k'] == 'Let' and st.get('init') is not None and st['init'].get('exp') is None:
                q = unwrap_pat(st['pat'])
                if q['k'] == 'Binding' and not q.get('mutable'): out[q['var']] = st['init']
    return out

def poly_of(e, names, depth=0):
    e = strip(e)
    if e['k'] in ('VarRef', 'UpvarRef'):
        v = names.get(e['var'])
        if v is None and e['var'] in LETS[0] and depth < 8:
            return poly_of(LETS[0][e['var']], names, depth + 1)       # a local name for a sub-expression
        if v is None: raise NUndec('index expression uses %s, which is neither a loop variable nor the board size' % e['var'].split('#')[0], e['loc'])
        return PV(v)
    if e['k'] == 'Literal' and e.get('lit') == 'Int': return P(int(e['value']))
    if e['k'] == 'Binary' and e['op'] in ('Add', 'Sub', 'Mul'):
        a, b = poly_of(e['lhs'], names, depth), poly_of(e['rhs'], names, depth)
        return padd(a, b) if e['op'] == 'Add' else padd(a, b, -1) if e['op'] == 'Sub' else pmul(a, b)
    if e['k'] == 'Cast' or e['k'] == 'Use': return poly_of(e['source'], names, depth)
    if e['k'] == 'Field' and depth < 8:
        # a coordinate kept in a small record or tuple: `let square = Square { row: j, column: i + j }; square.row * n + square.column`
        b = strip(e['lhs'])
        lit = b if b['k'] in ('Adt', 'Tuple') else strip(LETS[0][b['var']]) if b['k'] in ('VarRef', 'UpvarRef') and b['var'] in LETS[0] else None
        if lit is not None and lit['k'] == 'Adt' and lit.get('base') is None:
            fs = [f for f in lit['fields'] if f['idx'] == e['field']]
            if len(fs) == 1: return poly_of(fs[0]['expr'], names, depth + 1)
        if lit is not None and lit['k'] == 'Tuple' and e['field'] < len(lit['fields']): return poly_of(lit['fields'][e['field']], names, depth + 1)
    raise NUndec('index expression construct %s (%s)' % (e['k'], pp(e)[:50]), e.get('loc'))

def for_loop(e):
    """recognise `for PAT in RANGE { BODY }` -> (pattern var, lo expr, hi expr, inclusive, body expr) or None"""
    if e['k'] != 'Match': return None
    sc = strip(e['scrutinee'])
    if not (sc['k'] == 'Call' and callee_decl(sc) == 'std::iter::IntoIterator::into_iter'): return None
    r = strip(sc['args'][0])
    inclusive = False
    step = None
    if r['k'] == 'Call' and callee_decl(r) == 'std::iter::Iterator::rev' and len(r['args']) == 1 and \
            (strip(r['args'][0])['k'] == 'Adt' or callee_name(strip(r['args'][0])) == 'std::ops::RangeInclusive::new'):
        r = strip(r['args'][0])             # `(a..b).rev()`: the same index values, last first - the lines (and the cells of a line) are the same set
    if r['k'] == 'Call' and callee_decl(r) == 'std::iter::Iterator::step_by' and len(r['args']) == 2:
        step = r['args'][1]; r = strip(r['args'][0])                 # `(a..b).step_by(s)`: a, a+s, a+2s, .. below b
    if r['k'] == 'Adt' and canon(r['adt']) == 'std::ops::Range':
        lo = [f['expr'] for f in r['fields'] if f['name'] == 'start'][0]; hi = [f['expr'] for f in r['fields'] if f['name'] == 'end'][0]
    elif r['k'] == 'Call' and callee_name(r) == 'std::ops::RangeInclusive::new':
        lo, hi = r['args']; inclusive = True
    else:
        # `for x in (RANGE).map(|j| E)`: x stands for E(j) with j over RANGE
        mp = mapped_range(r) if step is None else None
        if mp is None: return ('other', pp(strip(sc['args'][0]))[:60], sc.get('loc'))
        lo, hi, inclusive, closure = mp
        for m in walk(e):
            if m['k'] == 'Match' and m is not e:
                for a in m['arms']:
                    p = unwrap_pat(a['pat'])
                    if p['k'] == 'Variant' and p['variant'] == 'Some' and p['subs']:
                        q = unwrap_pat(p['subs'][0]['pat'])
                        if q['k'] == 'Binding': return (q['var'], lo, hi, inclusive, a['body'], closure)
                break
        return None
    for m in walk(e):
        if m['k'] == 'Match' and m is not e:
            for a in m['arms']:
                p = unwrap_pat(a['pat'])
                if p['k'] == 'Variant' and p['variant'] == 'Some' and p['subs']:
                    q = unwrap_pat(p['subs'][0]['pat'])
                    if q['k'] == 'Binding': return (q['var'], lo, hi, inclusive, a['body']) + ((None, step) if step is not None else ())
                    if q['k'] == 'Wild': return (None, lo, hi, inclusive, a['body']) + ((None, step) if step is not None else ())       # `for _ in a..b`: only the count matters
            break
    return None

def mapped_range(r):
    r = strip(r)
    if not (r['k'] == 'Call' and callee_decl(r) == 'std::iter::Iterator::map' and len(r['args']) == 2): return None
    src = strip(r['args'][0]); inclusive = False
    if src['k'] == 'Adt' and canon(src['adt']) == 'std::ops::Range':
        lo = [f['expr'] for f in src['fields'] if f['name'] == 'start'][0]; hi = [f['expr'] for f in src['fields'] if f['name'] == 'end'][0]
    elif src['k'] == 'Call' and callee_name(src) == 'std::ops::RangeInclusive::new':
        lo, hi = src['args']; inclusive = True
    else:
        return None
    cl = [x for x in walk(r['args'][1]) if x['k'] == 'Closure']
    if not cl: return None
    return lo, hi, inclusive, canon(cl[0]['def'])

def const_text(e):
    """the text of a string constant of the crate under analysis (`const CLOSE: &str = "] <= 1 &";`), None otherwise"""
    e = strip(e)
    if e['k'] != 'NamedConst' or CRATE[0] is None: return None
    t = CRATE[0].ithir.get(canon(e['def']))
    if t is None: return None
    b = t['body']
    while b['k'] in ('Borrow', 'Deref', 'Use', 'PointerCoercion', 'NeverToAny') or (b['k'] == 'Block' and not b['stmts'] and b.get('expr') is not None):
        b = b.get('arg') or b.get('source') or b.get('expr')
    return b['value'] if b['k'] == 'Literal' and b.get('lit') == 'Str' else None

def format_block_parts(b):
    """(template literal node, argument expressions) of one format_args block: the template is the one in the block's own tail (an
    argument may itself be a format!(..) with a template of its own)"""
    args = None
    for st in b['stmts']:
        if st['k'] == 'Let' and st.get('init') is not None and strip(st['init'])['k'] == 'Tuple' and args is None: args = strip(st['init'])['fields']
    tail = b.get('expr')
    tm = [x for x in walk(tail) if x['k'] == 'Literal' and x.get('lit') == 'ByteStr'] if tail is not None else []
    if not tm: tm = [x for x in walk(b) if x['k'] == 'Literal' and x.get('lit') == 'ByteStr' and not any(any(y is x for y in walk(a)) for a in (args or []))]
    return (tm[0] if tm else None), args

def peel_text(a):
    """an expression used as text, without the plumbing around it (borrows, deref / as_str / as_ref of a String)"""
    a = strip(a)
    while a['k'] == 'Call' and a['args'] and ((callee_decl(a) or '') in ('std::ops::Deref::deref', 'std::convert::AsRef::as_ref', 'std::borrow::Borrow::borrow') or (callee_name(a) or '').split('::')[-1] in ('as_str',)):
        a = strip(a['args'][0])
    return a

def rendered_texts(e, skip_ids=(), fill=None):
    """the pieces of text written below e, in order: plain string pieces and format templates, with holes whose argument is a
    string literal (e.g. a `relation: &str` parameter of an inlined helper, given as "<= 1") filled in"""
    import engine_u
    fill = fill or {}
    out = []; consumed = set()
    for b in walk(e):
        if id(b) in skip_ids: continue
        if b['k'] == 'Block' and 'format_args' in str(b.get('exp')) and b['stmts']:
            tm0, args = format_block_parts(b)
            tm = [tm0] if tm0 is not None else []
            if args is not None and tm and id(tm[0]) not in consumed:
                text = engine_u.decode_template(tm[0]['value'])
                parts = text.split('{}')
                if len(parts) == len(args) + 1:
                    res = parts[0]
                    for a, nxt in zip(args, parts[1:]):
                        a0 = peel_text(a)
                        cs = const_text(a0)
                        if cs is None and a0['k'] == 'Call' and ((callee_name(a0) or '').endswith('fmt::format') or (callee_name(a0) or '').endswith('::must_use')):
                            # a nested format!(..) handed over as text: rendered in place
                            inner = rendered_texts(a0, (), fill)
                            fa_ids = set(id(y) for y in walk(a0))
                            cs = ''.join(tx for nd, tx in inner if nd.get('lit') == 'ByteStr')
                            for y in walk(a0): consumed.add(id(y))
                        if a0['k'] == 'Literal' and a0.get('lit') == 'Str':
                            res += a0['value']; consumed.add(id(a0))
                        elif cs is not None: res += cs                                  # a private `const NAME: &str = ".."`
                        elif a0['k'] in ('VarRef', 'UpvarRef') and a0['var'] in fill: res += fill[a0['var']]
                        else: res += '{}'
                        res += nxt
                    text = res
                consumed.add(id(tm[0]))
                out.append((tm[0], text))
    for x in walk(e):
        if id(x) in skip_ids or id(x) in consumed: continue
        if x['k'] == 'Literal' and x.get('lit') == 'Str': out.append((x, x['value']))
        if x['k'] == 'Literal' and x.get('lit') == 'ByteStr': out.append((x, engine_u.decode_template(x['value'])))
    # restore source order
    order = {id(x): i for i, x in enumerate(walk(e))}
    out.sort(key=lambda p_: order.get(id(p_[0]), 0))
    return out

def literal_texts(e):
    out = []
    for x in walk(e):
        if x['k'] == 'Literal' and x.get('lit') == 'Str': out.append(x['value'])
        if x['k'] == 'Literal' and x.get('lit') == 'ByteStr': out.append(bytes(x['value']).decode('latin1'))
    return out

def top_level_loops(body):
    """the outermost `for` loops of the function, in source order - wherever they sit (the function's own block, or the block of a
    helper that was inlined into it)"""
    out = []
    def rec(e):
        if not isinstance(e, dict): return
        if e.get('k') == 'Match' and e.get('source') == 'ForLoopDesugar':
            fl = for_loop(e)
            if fl is not None: out.append((fl, e))
            return                      # do not descend: inner loops belong to this nest
        from facts import children
        for ch in children(e): rec(ch)
    rec(body)
    return out

PATTERN = [None]
CRATE = [None]

def induction_variable(fx, ibody, jnode, jbody, fmt_tuple, names):
    """the formatted index is a running accumulator: `let mut c = S;` before the inner loop, one `c += T` per iteration (S, T in i, n).
    In iteration j (counted from the loop's lower bound... the analysis uses j as the loop variable of the inner range) the value
    written is S + (j - lo)*T when the increment follows the write, S + (j - lo + 1)*T when it precedes it.  Returns the polynomial,
    or None when fx is not such a variable."""
    var = fx['var']
    if var in names: return None
    init = None
    for b in walk(ibody):
        if b['k'] != 'Block': continue
        for st in b['stmts']:
            if st['k'] == 'Let' and st.get('init') is not None:
                q = unwrap_pat(st['pat'])
                if q['k'] == 'Binding' and q['var'] == var and q.get('mutable'): init = st['init']
    if init is None: return None
    inner_ids = set(id(x) for x in walk(jnode))
    if any(id(x) in inner_ids for x in walk(init)): return None
    updates = []; order = []
    for x in walk(jbody):
        if x['k'] == 'AssignOp' and x['lhs']['k'] == 'VarRef' and x['lhs']['var'] == var: updates.append(x); order.append(('upd', x))
        elif x['k'] == 'Assign' and x['lhs']['k'] == 'VarRef' and x['lhs']['var'] == var: updates.append(x); order.append(('upd', x))
        elif x is fmt_tuple: order.append(('write', x))
    # assignments elsewhere in the outer body (outside the inner loop) would break the recurrence
    for x in walk(ibody):
        if id(x) not in inner_ids and x['k'] in ('Assign', 'AssignOp') and x['lhs']['k'] == 'VarRef' and x['lhs']['var'] == var: return None
    if len(updates) != 1: raise NUndec('the running index %s is updated %d times per iteration' % (var.split('#')[0], len(updates)), jnode.get('loc'))
    u = updates[0]
    if any(y['k'] in ('If', 'Match', 'Loop') and any(z is u for z in walk(y)) for y in walk(jbody) if y is not jbody and y['k'] in ('If', 'Loop')): raise NUndec('conditional update of the running index', u.get('loc'))
    if u['k'] == 'AssignOp':
        if u['op'] not in ('AddAssign', 'Add'): raise NUndec('running index updated with %s' % u['op'], u.get('loc'))
        T = poly_of(u['rhs'], names)
    else:
        r = strip(u['rhs'])
        if not (r['k'] == 'Binary' and r['op'] == 'Add'): raise NUndec('running index is not advanced by addition', u.get('loc'))
        if strip(r['lhs']).get('var') == var: T = poly_of(r['rhs'], names)
        elif strip(r['rhs']).get('var') == var: T = poly_of(r['lhs'], names)
        else: raise NUndec('running index is not advanced from its own value', u.get('loc'))
    S = poly_of(init, names)
    kinds = [k for k, _ in order]
    if kinds == ['write', 'upd']: k0 = 0
    elif kinds == ['upd', 'write']: k0 = 1
    else: raise NUndec('cannot order the write and the update of the running index', jnode.get('loc'))
    return ('acc', S, T, k0)

def extract_nests(t, nvar):
    nests = []
    for (fl, e0) in top_level_loops(t['body']):
        if fl[0] == 'other': raise NUndec('loop over %s is not a numeric range' % fl[1], fl[2])
        ivar, ilo, ihi, iinc, ibody = fl
        names = {nvar: 'n', ivar: 'i'}
        # the body: "[" , inner loop, "] OP 1 &"
        inner = None; texts_before = []; texts_after = []
        for x in walk(ibody):
            fl2 = for_loop(x) if x['k'] == 'Match' else None
            if fl2 is not None and fl2[0] != 'other' and x is not ibody:
                inner = (fl2, x); break
            if fl2 is not None and fl2[0] == 'other': raise NUndec('inner loop over %s is not a numeric range' % fl2[1], fl2[2])
        fill = {}
        if inner is None:
            # the list built as one string and written through a hole: `let cells: String = (a..b).map(|j| format!("v_{},", E)).collect();
            # writeln!(w, "[{}] <= 1 &", cells)` - the closure body is the loop body, the hole is where the loop's output goes
            for b in walk(ibody):
                if b['k'] != 'Block' or inner is not None: continue
                for st in b['stmts']:
                    if st['k'] != 'Let' or st.get('init') is None or st['init'].get('exp') is not None: continue
                    q = unwrap_pat(st['pat']); i0 = strip(st['init'])
                    if q['k'] == 'Binding' and i0['k'] == 'Call' and callee_decl(i0) == 'std::iter::Iterator::collect' and 'String' == (i0['ty'].get('s') or '').split('::')[-1]:
                        mp = mapped_range(i0['args'][0])
                        ct = CRATE[0].ithir.get(mp[3]) if mp is not None and CRATE[0] is not None else None
                        if ct is not None and len(ct['params']) == 2 and unwrap_pat(ct['params'][1]['pat'])['k'] == 'Binding':
                            inner = ((unwrap_pat(ct['params'][1]['pat'])['var'], mp[0], mp[1], mp[2], ct['body']), st['init'])
                            fill[q['var']] = ''
                            break
        if inner is None: raise NUndec('constraint loop without an inner index loop', e0.get('loc'))
        fl2, jnode = inner
        jvar, jlo, jhi, jinc, jbody = fl2[:5]
        jstep = fl2[6] if len(fl2) == 7 else None
        names2 = dict(names)
        if jvar is not None: names2[jvar] = 'j'
        mapped = None
        if len(fl2) == 6:
            # the loop variable is E(j): read E from the closure, with the closure's parameter as j
            ct = CRATE[0].ithir.get(fl2[5]) if CRATE[0] is not None else None
            if ct is None or len(ct['params']) != 2 or unwrap_pat(ct['params'][1]['pat'])['k'] != 'Binding': raise NUndec('cannot read the index closure of the inner loop', jnode.get('loc'))
            names2 = dict(names); names2[unwrap_pat(ct['params'][1]['pat'])['var']] = 'j'
            cb = ct['body']
            while cb['k'] in ('Use', 'NeverToAny') or (cb['k'] == 'Block' and not cb['stmts'] and cb['expr'] is not None): cb = cb['source'] if cb['k'] != 'Block' else cb['expr']
            mapped = (jvar, cb)
        # texts outside the inner loop
        inner_ids = set(id(x) for x in walk(jnode))
        import engine_u
        lits = rendered_texts(ibody, inner_ids, fill)
        if mapped is not None:
            # literals inside the index closure expression are not text
            pass
        outer_text = ''.join(s for _, s in lits)
        # the single formatted index inside the inner loop
        tuples = [x for x in walk(jbody) if x['k'] == 'Tuple' and len(x['fields']) == 1 and strip(x['fields'][0])['k'] in ('Binary', 'VarRef', 'Literal')]
        if len(tuples) != 1: raise NUndec('inner loop does not format exactly one index', jnode.get('loc'))
        fx = strip(tuples[0]['fields'][0])
        acc = induction_variable(fx, ibody, jnode, jbody, tuples[0], names) if fx['k'] in ('VarRef', 'UpvarRef') and mapped is None else None
        if mapped is not None:
            if root_var(tuples[0]['fields'][0]) != mapped[0] or strip(tuples[0]['fields'][0])['k'] not in ('VarRef', 'UpvarRef'): raise NUndec('inner loop over a mapped range must format the mapped value itself', jnode.get('loc'))
            E = poly_of(mapped[1], names2)
        elif acc is not None:
            E = acc
        else:
            E = poly_of(tuples[0]['fields'][0], names2)
        tmpl = [bytes(x['value']) for x in walk(jbody) if x['k'] == 'Literal' and x.get('lit') == 'ByteStr']
        import engine_u, engine_l
        item_ok = False
        for b in tmpl:
            try:
                if engine_l.tokenize_text(PATTERN[0], engine_u.decode_template(list(b))) == ['VAR:v_ARG', 'Comma']: item_ok = True
            except Exception:
                pass
        if not item_ok: raise NUndec('inner loop does not emit `v_<index>,`', jnode.get('loc'))
        if isinstance(E, tuple) and E and E[0] == 'acc':
            _, S_, T_, k0 = E
            jl = poly_of(jlo, names2)
            # iteration with loop value j is number (j - jlo): written value S + (j - jlo + k0) * T
            E = padd(S_, pmul(padd(padd(PV('j'), jl, -1), P(k0)), T_))
        pjlo, pjhi = poly_of(jlo, names2), poly_of(jhi, names2)
        pstep = poly_of(jstep, names) if jstep is not None else P(1)
        if pstep != P(1) or not is_affine(pjlo) or not is_affine(pjhi):
            # bring the inner range to the form 0..K with the index written as E(lo + j*step): the value sequence is the same
            pilo, pihi = poly_of(ilo, names), poly_of(ihi, names)
            if iinc: pihi = padd(pihi, P(1))
            domi = [padd(N_, P(-1)), padd(I_, pilo, -1), padd(padd(pihi, I_, -1), P(-1))]
            top = padd(pjhi, P(1)) if jinc else pjhi
            K = None
            if pstep == P(1):
                K = padd(top, pjlo, -1)
                if not is_affine(K): raise NUndec('the inner range %s .. %s has no affine length' % (pshow(pjlo), pshow(top)), jnode.get('loc'))
            else:
                # K iterations iff lo + (K-1)*step < top <= lo + K*step (step >= 1): try the affine candidates
                if not implies_ge0(domi, padd(pstep, P(-1))): raise NUndec('cannot prove the step %s of the inner range positive' % pshow(pstep), jnode.get('loc'))
                for cand in [padd(N_, P(c)) for c in (0, -1, 1)] + [padd(I_, P(c)) for c in (0, -1, 1)] + [padd(padd(N_, I_, -1), P(c)) for c in (0, -1, 1)]:
                    g1 = padd(padd(top, pjlo, -1), padd(pmul(padd(cand, P(-1)), pstep), P(1)), -1)         # top - lo - (K-1)*step - 1 >= 0
                    g2 = padd(padd(pjlo, pmul(cand, pstep)), top, -1)                                    # lo + K*step - top >= 0
                    if is_affine(g1) and is_affine(g2) and implies_ge0(domi, g1) and implies_ge0(domi, g2) and implies_ge0(domi, cand): K = cand; break
                if K is None: raise NUndec('cannot determine how many values the stepped range %s .. %s by %s yields' % (pshow(pjlo), pshow(top), pshow(pstep)), jnode.get('loc'))
            sub = padd(pjlo, pmul(J_, pstep))
            E2 = {}
            for (a_, b_, c_), v_ in E.items():
                term = {(a_, 0, c_): v_}
                for _ in range(b_): term = pmul(term, sub)
                E2 = padd(E2, term)
            E = E2
            pjlo, pjhi, jinc = P(0), K, False
        nests.append({'ilo': poly_of(ilo, names), 'ihi': poly_of(ihi, names), 'iinc': iinc,
                      'jlo': pjlo, 'jhi': pjhi, 'jinc': jinc, 'E': E, 'text': outer_text,
                      'tokens': engine_l.tokenize_text(PATTERN[0], outer_text), 'loc': e0.get('loc')})
    return nests

# ---------------------------------------------------------------- analysis
N_ = PV('n'); I_ = PV('i'); J_ = PV('j')

def analyse_nest(nest):
    """-> dict(kind, id poly in (i,n), R, C) ; raises NUndec with the failing obligation"""
    ihi = nest['ihi'] if not nest['iinc'] else padd(nest['ihi'], P(1))
    jhi = nest['jhi'] if not nest['jinc'] else padd(nest['jhi'], P(1))
    dom = [padd(N_, P(-1)),                                   # n >= 1
           padd(I_, nest['ilo'], -1), padd(padd(ihi, I_, -1), P(-1)),          # ilo <= i <= ihi-1
           padd(J_, nest['jlo'], -1), padd(padd(jhi, J_, -1), P(-1))]          # jlo <= j <= jhi-1
    E = nest['E']
    if any(k[2] > 2 or sum(k) > 2 for k in E): raise NUndec('index expression %s is not of the form R*n + C' % pshow(E), nest['loc'])
    R0 = {}; C0 = {}
    for (a, b, c), v in E.items():
        if c >= 1: R0[(a, b, c - 1)] = v
        else: C0[(a, b, c)] = v
    if not is_affine(R0) or not is_affine(C0): raise NUndec('index expression %s does not split into affine row and column parts' % pshow(E), nest['loc'])
    found = None
    for k in (0, -1, 1):
        R = padd(R0, P(-k)); C = padd(C0, {(0, 0, 1): k})
        if implies_ge0(dom, C) and implies_ge0(dom, padd(padd(N_, C, -1), P(-1))) and implies_ge0(dom, R) and implies_ge0(dom, padd(padd(N_, R, -1), P(-1))):
            found = (R, C); break
    if found is None:
        raise NUndec('cannot prove that index %s = row*n + col with 0 <= row, col < n on the loop domain' % pshow(E), nest['loc'])
    R, C = found
    dR, dC = coef(R, 'j'), coef(C, 'j')
    if (dR, dC) == (1, 1): kind, idp = 'diag', padd(C, R, -1)
    elif (dR, dC) in ((1, -1), (-1, 1)): kind, idp = 'anti', padd(R, C)
    elif (dR, dC) in ((0, 1), (0, -1)): kind, idp = 'row', R
    elif (dR, dC) in ((1, 0), (-1, 0)): kind, idp = 'col', C
    else: raise NUndec('consecutive cells of one list differ by (%d rows, %d columns): not a row, column or diagonal' % (dR, dC), nest['loc'])
    if coef(idp, 'j') != 0: raise NUndec('line identifier %s varies inside one list' % pshow(idp), nest['loc'])
    # maximality: the cells at j = jlo - 1 and j = jhi are off the board for every i in range
    domi = [dom[0], dom[1], dom[2]]
    for what, jval in (('before the first', padd(nest['jlo'], P(-1))), ('after the last', jhi)):
        Rx, Cx = subst_j(R, jval), subst_j(C, jval)
        off = False
        for g in (padd({k: -v for k, v in Rx.items()}, P(-1)), padd({k: -v for k, v in Cx.items()}, P(-1)), padd(Rx, N_, -1), padd(Cx, N_, -1)):
            # g >= 0 means: R <= -1, C <= -1, R >= n, C >= n
            if implies_ge0(domi, g): off = True; break
        if not off:
            raise NUndec('the list is not a whole line: the cell %s element (row %s, column %s) may still be on the board' % (what, pshow(Rx), pshow(Cx)), nest['loc'])
    # the j-range must not be empty beyond what the line has: lengths are consistent by maximality + injectivity (dR or dC is +-1)
    a = coef(idp, 'i')
    if a not in (1, -1): raise NUndec('line identifier %s does not step by one per outer iteration' % pshow(idp), nest['loc'])
    lo_i, hi_i = nest['ilo'], padd(ihi, P(-1))
    id_at = lambda iv: padd({k: v for k, v in idp.items() if k[0] == 0}, {k: v * a for k, v in iv.items()})
    e1, e2 = id_at(lo_i), id_at(hi_i)
    ids = (e1, e2) if a == 1 else (e2, e1)
    # the text around the list, tokenised with the language's own token table: `[` ... `]` (<= | =) 1 &
    toks = nest.get('tokens')
    op = None; brackets = False
    if toks is not None:
        if toks == ['OpenSquare', 'CloseSquare', 'ImpliesInv', 'NUM:1', 'And']: op, brackets = '<= 1', True
        elif toks == ['OpenSquare', 'CloseSquare', 'Eq', 'NUM:1', 'And']: op, brackets = '= 1', True
    return {'kind': kind, 'ids': ids, 'R': R, 'C': C, 'op': op, 'brackets': brackets, 'loc': nest['loc']}

FULL = {'diag': (padd(P(1), N_, -1), padd(N_, P(-1))), 'anti': (P(0), padd(pmul(P(2), N_), P(-2))), 'row': (P(0), padd(N_, P(-1))), 'col': (P(0), padd(N_, P(-1)))}
WANT_OP = {'diag': '<= 1', 'anti': '<= 1', 'row': '= 1', 'col': '= 1'}

def rule_queens(F, R):
    c = F.crate('n_queens_gen')
    t = c.ithir.get('n_queens_gen::main') if c else None
    if t is None:
        R.violation('n_queens_gen::main / N / anchor', 'UNDECIDABLE', 'n_queens_gen::main not found'); return
    # the board-size variable: the let-binding initialised from args.queens
    nvar = None
    import engine_l as _el
    argf = _el.args_fields(t, c)          # `let Args { output, queens } = Args::parse();`
    for b in walk(t['body']):
        if b['k'] == 'Block':
            for s in b['stmts']:
                if s['k'] == 'Let' and s['init'] is not None and unwrap_pat(s['pat'])['k'] == 'Binding' and \
                        any((x['k'] == 'Field' and x.get('field_name') == 'queens') or (x['k'] in ('VarRef', 'UpvarRef') and argf.get(x['var']) == 'queens') for x in walk(s['init'])):
                    q = unwrap_pat(s['pat'])
                    if q['k'] == 'Binding': nvar = q['var']
    if nvar is None:
        R.violation('n_queens_gen::main / N / board size', 'UNDECIDABLE', 'cannot find the variable holding the number of queens'); return
    from engine_t import tokenizer_pattern
    PATTERN[0] = tokenizer_pattern(F.lib())[0]
    CRATE[0] = F.crate("n_queens_gen")
    LETS[0] = collect_lets(t)
    if PATTERN[0] is None:
        R.violation('n_queens_gen::main / N / tokenizer', 'UNDECIDABLE', 'tokenizer pattern not found'); return
    try:
        nests = extract_nests(t, nvar)
    except NUndec as u:
        R.obligation(False, 'N extract')
        R.violation('n_queens_gen::main / N / UNDECIDABLE / %s' % u.msg[:70], 'UNDECIDABLE', 'cannot read the constraint loops as affine loop nests: %s (fail closed)' % u.msg, u.loc); return
    R.count('N:loop-nests', len(nests))
    fam = {}
    for k, nest in enumerate(nests):
        try:
            a = analyse_nest(nest)
        except NUndec as u:
            R.obligation(False, 'N nest %d' % k)
            R.violation('n_queens_gen::main / N / loop nest #%d' % (k + 1), 'N', 'constraint loop #%d (index %s): %s' % (k + 1, pshow(nest['E']), u.msg), u.loc or nest['loc'])
            continue
        R.obligation(True, 'N nest %d' % k)
        R.count('N:proved-lines')
        ok = a['op'] == WANT_OP[a['kind']] and a['brackets']
        R.obligation(ok, 'N op %d' % k)
        if not ok:
            R.violation('n_queens_gen::main / N / operator of loop nest #%d' % (k + 1), 'N', 'a %s constraint must read `[..] %s &`; the text around the list tokenises to %s' % (a['kind'], WANT_OP[a['kind']], nest.get('tokens')), nest['loc'])
        fam.setdefault(a['kind'], []).append(a)
        R.sample({'rule': 'N', 'loop nest': k + 1, 'index': pshow(nest['E']), 'row': pshow(a['R']), 'column': pshow(a['C']), 'line': a['kind'],
                  'ids': '%s .. %s' % (pshow(a['ids'][0]), pshow(a['ids'][1])), 'constraint': a['op']})
    # coverage: per kind, the id intervals chain from the first to the last line without gap or overlap (identities in n)
    for kind, (lo, hi) in FULL.items():
        if kind in ('diag', 'anti'):
            # the two extreme diagonals consist of one cell each: an at-most-one constraint on a single cell is vacuous and may be omitted
            lo, hi = padd(lo, P(1)), padd(hi, P(-1))
        ivs = [a['ids'] for a in fam.get(kind, [])]
        import itertools
        ok = False
        n1 = [padd(N_, P(-1))]
        if kind in ('diag', 'anti'):
            n1 = [padd(N_, P(-2))]        # for n = 1 the required range is empty (lo > hi); prove coverage for n >= 2
        for perm in itertools.permutations(ivs):
            cur = lo; good = True
            for (a1, a2) in perm:
                # no gap: a1 <= cur (overlap - a repeated, harmless constraint - is allowed)
                if not implies_ge0(n1, padd(cur, a1, -1)): good = False; break
                nxt = padd(a2, P(1))
                if implies_ge0(n1, padd(nxt, cur, -1)): cur = nxt
                elif not implies_ge0(n1, padd(cur, nxt, -1)): good = False; break
            if good and implies_ge0(n1, padd(cur, padd(hi, P(1)), -1)): ok = True; break
        R.count('N:families'); R.obligation(ok, 'N cover ' + kind)
        if not ok:
            R.violation('n_queens_gen::main / N / coverage of %s lines' % kind, 'N',
                        'the %s constraints must cover every line %s .. %s; the loops produce %s' % (kind, pshow(lo), pshow(hi), [(pshow(a), pshow(b)) for a, b in ivs] or 'none'))
    # nothing else constrains the board: outside the loop nests the generator writes remarks, blank lines and the closing `true` only,
    # and it has no way out before the last constraint is written (no `return` other than the error exits of `?`)
    import engine_l
    loop_ids = set()
    for (_fl, e0) in top_level_loops(t['body']):
        for x in walk(e0): loop_ids.add(id(x))
    extra = []
    written = []
    for wf in walk(t['body']):
        if wf['k'] == 'Call' and (callee_name(wf) or '').endswith('write_fmt') and id(wf) not in loop_ids:
            txt = ''.join(tx for _n, tx in rendered_texts(wf))
            written.append((wf, txt))
    for node, text in written:
        try: toks = engine_l.tokenize_text(PATTERN[0], text)
        except Exception: toks = ['?']
        if toks not in ([], ['True']): extra.append((text.strip()[:50], toks, node.get('loc')))
    R.count('N:texts-outside-nests'); R.obligation(not extra, 'N other text')
    if extra:
        R.violation('n_queens_gen::main / N / other formula text', 'N', 'outside the constraint loops only remarks and the closing `true` may be written; found %r (tokens %s)' % (extra[0][0], extra[0][1]), extra[0][2])
    def early_returns(e):
        out = []
        def rec(x):
            if isinstance(x, list):
                for y in x: rec(y)
                return
            if not isinstance(x, dict): return
            if x.get('k') == 'Return': out.append(x); return
            if x.get('k') == 'Match' and 'TryDesugar' in str(x.get('source')): rec(x.get('scrutinee')); return
            if x.get('k') == 'Closure': return
            for k_, v in x.items():
                if isinstance(v, (dict, list)) and k_ not in ('ty', 'pat'): rec(v)
        rec(e)
        return out
    rets = early_returns(t['body'])
    R.count('N:early-returns', len(rets)); R.obligation(not rets, 'N no early return')
    if rets:
        R.violation('n_queens_gen::main / N / early return', 'N', 'main leaves before the constraint families are written on some path (a formula without them does not describe the board)', rets[0].get('loc'))
    lits = literal_texts(t['body'])
    tail_true = any(s.strip() == 'true' for s in lits)
    R.obligation(tail_true, 'N closing true')
    if not tail_true:
        R.violation('n_queens_gen::main / N / closing conjunct', 'N', 'the conjunction of constraints must be closed by `true`')
